"""Intra-procedural abstract interpreter over the simplified MIR.

Domain (per place key): integer interval, sequence identity (`sid`) with a
per-identity length interval, linear relations `value + off <= len(sid)` /
`value + off == len(sid)`, comparison provenance for branch refinement and
reference provenance.  Flow-sensitive worklist with widening.

This is the primitive-interval domain shared by E1's INTERVAL/LEN-GUARD
discharge rules and by E2 (ranged integers).  Everything it cannot model is
TOP of the declared type; nothing is assumed about values except
 * the declared type,
 * field contracts (a table of struct-field ranges that is *checked* at every
   construction/store of those fields, see contracts.py).
"""
import re
from collections import defaultdict
from . import mir

I128_MIN, I128_MAX = -(1 << 127), (1 << 127) - 1
PRIM = {
    "i8": (-(1 << 7), (1 << 7) - 1), "i16": (-(1 << 15), (1 << 15) - 1),
    "i32": (-(1 << 31), (1 << 31) - 1), "i64": (-(1 << 63), (1 << 63) - 1),
    "i128": (I128_MIN, I128_MAX), "isize": (-(1 << 63), (1 << 63) - 1),
    "u8": (0, (1 << 8) - 1), "u16": (0, (1 << 16) - 1), "u32": (0, (1 << 32) - 1),
    "u64": (0, (1 << 64) - 1), "u128": (0, (1 << 128) - 1), "usize": (0, (1 << 64) - 1),
    "bool": (0, 1), "char": (0, 0x10FFFF),
}
BITS = {"i8": 8, "i16": 16, "i32": 32, "i64": 64, "i128": 128, "isize": 64,
        "u8": 8, "u16": 16, "u32": 32, "u64": 64, "u128": 128, "usize": 64}
LEN_TOP = (0, (1 << 63) - 1)

_ri = re.compile(r"^(?:&(?:'\w+ )?(?:mut )?)*util::rangeint::ri(8|16|32|64|128)<(-?\d+|i\d+::M(?:IN|AX)), (-?\d+|i\d+::M(?:IN|AX))>$")


def _bound(s):
    if s[0] == "i" and "::" in s:
        t, m = s.split("::")
        return PRIM[t][0] if m == "MIN" else PRIM[t][1]
    return int(s)


def ranged_bounds(ty):
    """(bits, lo, hi) for `util::rangeint::riN<lo, hi>` (through references)."""
    m = _ri.match(ty)
    if not m:
        return None
    return int(m.group(1)), _bound(m.group(2)), _bound(m.group(3))


def strip_refs(ty):
    while ty.startswith("&"):
        ty = ty[1:]
        if ty.startswith("'"):
            ty = ty.split(" ", 1)[1] if " " in ty else ty
        if ty.startswith("mut "):
            ty = ty[4:]
    return ty


def strip_one_ref(ty):
    if ty.startswith("&"):
        ty = ty[1:]
        if ty.startswith("'"):
            ty = ty.split(" ", 1)[1] if " " in ty else ty
        if ty.startswith("mut "):
            ty = ty[4:]
        return ty
    if ty.startswith("*const "):
        return ty[7:]
    if ty.startswith("*mut "):
        return ty[5:]
    return ty


def elem_type(ty):
    """element type of `[T]` / `[T; N]`"""
    if not ty.startswith("["):
        return None
    inner = ty[1:-1]
    depth = 0
    for i, ch in enumerate(inner):
        if ch in "<([":
            depth += 1
        elif ch in ">)]":
            depth -= 1
        elif ch == ";" and depth == 0:
            return inner[:i]
    return inner


PAY_PASS = {"map_err", "with_context", "context", "ok_or_else", "ok_or", "ok", "branch", "copied", "cloned", "or_else"}
_pay_ty = re.compile(r"^core::(?:option::Option|result::Result|ops::ControlFlow)<(.*)>$")


def payload_type(ty):
    """the success payload type of Option<T>/Result<T, E>/ControlFlow<B, C> when it is an integer-like type"""
    if not ty:
        return None
    m = _pay_ty.match(ty)
    if not m:
        return None
    inner = m.group(1)
    parts, depth, cur = [], 0, ""
    for ch in inner:
        if ch in "<([":
            depth += 1
        elif ch in ">)]":
            depth -= 1
        if ch == "," and depth == 0:
            parts.append(cur.strip()); cur = ""
        else:
            cur += ch
    parts.append(cur.strip())
    if ty.startswith("core::ops::ControlFlow<"):
        pt = parts[1] if len(parts) > 1 else None
    else:
        pt = parts[0]
    if pt in PRIM or (pt and ranged_bounds(pt)):
        return pt
    return None


def type_range(ty):
    return PRIM.get(ty)


def is_seq_type(ty):
    t = strip_refs(ty)
    return (t.startswith("[") or t == "str" or t.startswith("std::vec::Vec<")
            or t == "std::string::String" or t.startswith("alloc::vec::Vec<"))


_arr = re.compile(r"^\[.*; (\d+)\]$")


def array_len(ty):
    m = _arr.match(strip_refs(ty))
    return int(m.group(1)) if m else None


# documented result ranges of std functions
STD_RANGES = {
    "core::time::Duration::subsec_nanos": (0, 999_999_999),
    "core::time::Duration::subsec_micros": (0, 999_999),
    "core::time::Duration::subsec_millis": (0, 999),
    "core::char::methods::<impl char>::len_utf8": (1, 4),
    "core::num::<impl u8>::to_ascii_lowercase": (0, 255),
    "core::time::Duration::as_secs": (0, (1 << 64) - 1),
    "core::time::Duration::as_nanos": (0, ((1 << 64) - 1) * 1_000_000_000 + 999_999_999),
    "core::time::Duration::as_micros": (0, ((1 << 64) - 1) * 1_000_000 + 999_999),
    "core::time::Duration::as_millis": (0, ((1 << 64) - 1) * 1_000 + 999),
}


_CMP_CALL = re.compile(r"^(?:core::cmp::Partial(?:Ord|Eq)::|<util::rangeint::ri\d+<[^>]*> as core::cmp::PartialEq<[^>]*>>::|"
                       r"<util::rangeint::ri\d+<[^>]*> as core::cmp::PartialEq<util::rangeint::ri\d+<[^>]*>>>::|"
                       r"core::cmp::impls::<impl core::cmp::Partial(?:Ord|Eq) for \w+>::)(lt|le|gt|ge|eq|ne)$")


class AV:
    """Abstract value."""
    __slots__ = ("iv", "sid", "rel", "cmp", "ref", "ovf", "tr", "mod", "pay")

    def __init__(self, iv=None, sid=None, rel=frozenset(), cmp=None, ref=None, ovf=None, tr=None, mod=None, pay=None):
        self.pay = pay      # success payload of an Option/Result/ControlFlow: None = unknown, "bot" = none, (lo, hi)
        self.mod = mod      # (bits, virtual interval): value == v (mod 2^bits), v in interval
        self.iv = iv        # (lo, hi) or None
        self.sid = sid      # sequence identity
        self.rel = rel      # frozenset of (sid, off, 'le'|'eq'): value+off <=/== len(sid)
        self.cmp = cmp      # comparison provenance (see _refine)
        self.ref = ref      # place key this reference points to
        self.ovf = ovf      # for the flag of *WithOverflow: True if may overflow
        self.tr = tr        # ranged-int tracked bounds (lo, hi) [E2]

    def with_iv(self, iv):
        return AV(iv, self.sid, self.rel, None, self.ref, None, self.tr)

    def __eq__(self, o):
        return (isinstance(o, AV) and self.iv == o.iv and self.sid == o.sid and self.rel == o.rel
                and self.cmp == o.cmp and self.ref == o.ref and self.ovf == o.ovf and self.tr == o.tr
                and self.mod == o.mod and self.pay == o.pay)

    def __repr__(self):
        return "AV(iv=%s sid=%s rel=%s%s%s)" % (self.iv, self.sid, set(self.rel) or "",
                                             " cmp" if self.cmp else "", " ref=%s" % (self.ref,) if self.ref else "")


TOP = AV()


NZ = ("", 0, "nz")   # pseudo relation carried in AV.rel: the value is known to be non-zero


def hull(a, b):
    if a is None or b is None:
        return None
    return (min(a[0], b[0]), max(a[1], b[1]))


def join_pay(a, b):
    if a == "bot":
        return b
    if b == "bot":
        return a
    if a is None or b is None:
        return None
    return hull(a, b)


def join_av(a, b):
    if a == b:
        return a
    return AV(hull(a.iv, b.iv), a.sid if a.sid == b.sid else None, a.rel & b.rel,
              a.cmp if a.cmp == b.cmp else None, a.ref if a.ref == b.ref else None,
              (a.ovf or b.ovf) if (a.ovf is not None and b.ovf is not None) else None,
              hull(a.tr, b.tr),
              (a.mod[0], hull(a.mod[1], b.mod[1])) if (a.mod and b.mod and a.mod[0] == b.mod[0]) else None,
              join_pay(a.pay, b.pay))


class State:
    __slots__ = ("vals", "lens", "alias", "ver")

    def __init__(self):
        self.vals = {}    # place key -> AV
        self.lens = {}    # sid -> (lo, hi)
        self.alias = {}   # local -> root place key it is a copy of
        self.ver = {}     # local -> token of the last write touching it

    def copy(self):
        s = State()
        s.vals = dict(self.vals); s.lens = dict(self.lens); s.alias = dict(self.alias); s.ver = dict(self.ver)
        return s

    def __eq__(self, o):
        return self.vals == o.vals and self.lens == o.lens and self.alias == o.alias and self.ver == o.ver

    def len_of(self, sid):
        return self.lens.get(sid, LEN_TOP)


def _ren(x, m):
    if isinstance(x, tuple):
        return tuple(_ren(e, m) for e in x)
    if isinstance(x, str):
        return m.get(x, x)
    return x


def _rename_state(st, m):
    if not m:
        return st
    s = State()
    for k, v in st.vals.items():
        if v.sid in m or v.rel or v.cmp:
            v = AV(v.iv, m.get(v.sid, v.sid), frozenset((m.get(a, a), o, kd) for (a, o, kd) in v.rel),
                   _ren(v.cmp, m) if v.cmp else None, v.ref, v.ovf, v.tr, v.mod)
        s.vals[k] = v
    for sid, ln in st.lens.items():
        n = m.get(sid, sid)
        s.lens[n] = ln if n not in s.lens else hull(s.lens[n], ln)
    s.alias = st.alias
    s.ver = st.ver
    return s


def join_state(a, b, at=None):
    if at is not None:
        # sequences that differ on the two sides are renamed to a name owned
        # by the join point, so that length facts and provenance tags survive
        ma, mb = {}, {}
        for k in a.vals.keys() & b.vals.keys():
            x, y = a.vals[k], b.vals[k]
            if x.sid is not None and y.sid is not None and x.sid != y.sid:
                js = ma.get(x.sid) or mb.get(y.sid) or "j%s:%s" % (at, k)
                if ma.get(x.sid, js) != js or mb.get(y.sid, js) != js:
                    continue
                ma[x.sid] = js
                mb[y.sid] = js
        if ma or mb:
            for m, stt in ((ma, a), (mb, b)):
                for src, js in list(m.items()):
                    if src != js and js in stt.lens and js not in m:
                        # the join name already exists on this side with its
                        # own facts: merge conservatively
                        pass
            a = _rename_state(a, ma)
            b = _rename_state(b, mb)
    s = State()
    for k in a.vals.keys() & b.vals.keys():
        s.vals[k] = join_av(a.vals[k], b.vals[k])
    for k in a.lens.keys() & b.lens.keys():
        s.lens[k] = hull(a.lens[k], b.lens[k])
    for k in a.alias.keys() & b.alias.keys():
        if a.alias[k] == b.alias[k]:
            s.alias[k] = a.alias[k]
    for k in a.ver.keys() | b.ver.keys():
        va, vb = a.ver.get(k), b.ver.get(k)
        s.ver[k] = va if va == vb else ("join", at, k)
    return s


def iv_add(a, b): return (a[0] + b[0], a[1] + b[1])
def iv_sub(a, b): return (a[0] - b[1], a[1] - b[0])
def iv_neg(a): return (-a[1], -a[0])


def iv_mul(a, b):
    ps = [a[0] * b[0], a[0] * b[1], a[1] * b[0], a[1] * b[1]]
    return (min(ps), max(ps))


def _tdiv(x, y):
    q = abs(x) // abs(y)
    return q if (x >= 0) == (y >= 0) else -q


def iv_div_trunc(a, b):
    """truncating division; b must not contain 0"""
    if b[0] <= 0 <= b[1]:
        return None
    ps = [_tdiv(x, y) for x in a for y in b]
    return (min(ps), max(ps))


def iv_rem_trunc(a, b):
    if b[0] <= 0 <= b[1]:
        return None
    m = max(abs(b[0]), abs(b[1])) - 1
    lo = -m if a[0] < 0 else 0
    hi = m if a[1] > 0 else 0
    # if |a| is already smaller than the divisor the remainder is a itself
    if max(abs(a[0]), abs(a[1])) < min(abs(b[0]), abs(b[1])):
        return a
    return (max(lo, min(a[0], 0)), min(hi, max(a[1], 0)))


def iv_div_euclid(a, b):
    if b[0] <= 0 <= b[1]:
        return None
    ps = []
    for x in a:
        for y in b:
            q = x // y if y > 0 else -(x // -y)
            ps.append(q)
    return (min(ps), max(ps))


def iv_rem_euclid(a, b):
    if b[0] <= 0 <= b[1]:
        return None
    m = max(abs(b[0]), abs(b[1])) - 1
    if a[0] >= 0 and a[1] < min(abs(b[0]), abs(b[1])):
        return a
    return (0, m)


def fits(iv, rng):
    return iv is not None and rng is not None and rng[0] <= iv[0] and iv[1] <= rng[1]


def clip(iv, rng):
    if iv is None:
        return rng
    lo, hi = max(iv[0], rng[0]), min(iv[1], rng[1])
    if lo > hi:
        return rng   # infeasible path; stay sound
    return (lo, hi)


class Analyzer:
    WIDEN_AFTER = 3
    MAX_ITERS = 4000

    def __init__(self, fn, prog=None, contracts=None, summaries=None, hooks=None, param_contracts=None):
        self.param_contracts = param_contracts
        self.fn = fn
        self.prog = prog
        self.contracts = contracts or {}
        self.summaries = summaries or {}
        self.hooks = hooks or {}
        self.cfg = mir.CFG(fn)
        self.locals = fn["locals"]
        self.entry = {}
        self.visits = defaultdict(int)
        self._sid = 0
        self._sid_memo = {}
        self.done = False
        self.bailed = False
        self._loc = ("entry",)

    # ---------------------------------------------------------------- types
    def local_ty(self, l):
        return self.locals[l]["ty"]

    def place_ty(self, p):
        if "p" not in p or not p["p"]:
            return self.local_ty(p["l"])
        last = p["p"][-1]
        if isinstance(last, dict) and "ty" in last:
            return last["ty"]
        ty = self.local_ty(p["l"])
        for e in p["p"]:
            if ty is None:
                return None
            if e == "*":
                if ty.startswith("&") or ty.startswith("*"):
                    ty = strip_one_ref(ty)
                elif ty.startswith("std::boxed::Box<"):
                    ty = ty[len("std::boxed::Box<"):-1]
                else:
                    return None
            elif isinstance(e, dict) and "ty" in e:
                ty = e["ty"]
            elif isinstance(e, dict) and ("i" in e or "ci" in e):
                ty = elem_type(ty)
            elif isinstance(e, dict) and "d" in e:
                pass
            elif isinstance(e, dict) and "sub" in e:
                pass
            else:
                return None
        return ty

    def fresh_sid(self, tag):
        if tag not in self._sid_memo:
            self._sid += 1
            self._sid_memo[tag] = "s%d" % self._sid
        return self._sid_memo[tag]

    # ------------------------------------------------------------ top values
    def top_of_type(self, ty, tag=None, st=None):
        if ty is None:
            return TOP
        r = PRIM.get(ty)
        if r is not None:
            return AV(iv=r)
        rb = ranged_bounds(ty)
        if rb is not None:
            return AV(iv=(rb[1], rb[2]), tr=(rb[1], rb[2]))
        if is_seq_type(ty) and tag is not None:
            sid = self.fresh_sid(tag)
            n = array_len(ty)
            if n is not None and st is not None:
                st.lens[sid] = (n, n)
            return AV(sid=sid)
        return TOP

    def contract_for(self, p):
        """Field contract for the last field projection of a place."""
        ps = p.get("p") or []
        if not ps:
            return None
        last = ps[-1]
        if isinstance(last, dict) and "f" in last and last.get("adt", "").startswith("util::rangeint::ri") \
                and last.get("n") in ("val", "min", "max"):
            # ranged integers: the declared bounds are the contract of the
            # value and of the debug-only tracked min/max (E2 verifies it)
            pre = {"l": p["l"]}
            if len(ps) > 1:
                pre["p"] = ps[:-1]
            rb = ranged_bounds(self.place_ty(pre) or "")
            if rb is not None:
                return (rb[1], rb[2])
            return None
        if isinstance(last, dict) and "f" in last and "adt" in last:
            var = None
            if len(ps) >= 2 and isinstance(ps[-2], dict) and "d" in ps[-2]:
                var = ps[-2]["d"]
            c = self.contracts.get((last["adt"], var, last.get("n")))
            if c is None and var is not None:
                c = self.contracts.get((last["adt"], None, last.get("n")))
            return c
        return None

    # ------------------------------------------------------------- reading
    def read_place(self, st, p, tag=None):
        k = mir.place_key(p)
        v = st.vals.get(k)
        if v is not None:
            return v
        # a bare local that is a known alias of another place
        if len(k) == 1 and k[0] in st.alias:
            v = st.vals.get(st.alias[k[0]])
            if v is not None:
                return v
        ps = p.get("p") or []
        if len(k) == 3 and k[2] == ("f", 0) and isinstance(k[1], tuple) and k[1][0] == "d" and k[1][1] in ("Some", "Ok", "Continue"):
            base = st.vals.get((k[0],))
            if base is not None and isinstance(base.pay, tuple):
                return AV(iv=base.pay)
        # deref of a reference with known target
        if ps and ps[0] == "*":
            base = st.vals.get((p["l"],))
            if base is not None and base.ref is not None:
                tk = base.ref + k[2:]
                v = st.vals.get(tk)
                if v is not None:
                    return v
                if len(k) == 2 and base.sid is not None:
                    return AV(sid=base.sid)
            if base is not None and len(k) == 2 and base.sid is not None:
                return AV(sid=base.sid)
        ty = self.place_ty(p)
        c = self.contract_for(p)
        if c is not None:
            return AV(iv=c)
        return self.top_of_type(ty, tag=("place", k) if tag is None else tag, st=st)

    def read_op(self, st, op, tag=None):
        o = op.get("o")
        if o == "c":
            if "v" in op:
                return AV(iv=(op["v"], op["v"]))
            ty = op.get("ty")
            if ty == "util::t::Constant" and "def" in op and self.prog is not None:
                c = self.prog.consts.get(self.fn.crate + "::" + op["def"])
                if c is not None:
                    m = re.match(r"util::t::Constant\((-?\d+)_i64\)$", c.get("pretty", ""))
                    if m:
                        return AV(iv=(int(m.group(1)),) * 2)
            if "def" in op and ty in PRIM and self.prog is not None and "v" not in op:
                c = self.prog.consts.get(self.fn.crate + "::" + op["def"])
                if c is not None and "v" in c:
                    return AV(iv=(c["v"], c["v"]))
            if "s" in op and ty is not None:
                sid = self.fresh_sid(("const", op["s"]))
                n = len(op["s"].encode())
                st.lens[sid] = (n, n)
                return AV(sid=sid)
            return self.top_of_type(ty, tag=("constop", op.get("sym", "")), st=st)
        if o in ("cp", "mv"):
            return self.read_place(st, op, tag)
        return TOP

    # ------------------------------------------------------------- writing
    def kill_prefix(self, st, k):
        st.ver[k[0]] = self._loc
        n = len(k)
        for kk in [kk for kk in st.vals if kk[:n] == k]:
            del st.vals[kk]
        if n == 1:
            l = k[0]
            st.alias.pop(l, None)
            for a in [a for a, root in st.alias.items() if root[0] == l]:
                del st.alias[a]
            # references into this local are unaffected (they keep pointing)

    def write_place(self, st, p, v):
        k = mir.place_key(p)
        ps = p.get("p") or []
        if ps and ps[0] == "*":
            # store through a reference: redirect when the target is known,
            # else forget everything reachable from that reference
            base = st.vals.get((p["l"],))
            if base is not None and base.ref is not None:
                tk = base.ref + k[2:]
                self.kill_prefix(st, tk)
                st.vals[tk] = v
                return
        self.kill_prefix(st, k)
        # a partial store invalidates cached facts about enclosing places
        for i in range(1, len(k)):
            st.vals.pop(k[:i], None)
        st.vals[k] = AV(v.iv, v.sid, v.rel, v.cmp, v.ref, v.ovf, v.tr, v.mod, v.pay)

    # ------------------------------------------------------------ rvalues
    def eval_rvalue(self, st, rv, lhs, where):
        k = rv["k"]
        if k == "use":
            v = self.read_op(st, rv["a"], tag=where)
            return v
        if k == "cast":
            v = self.read_op(st, rv["a"], tag=where)
            kind = rv["kind"]
            tr = PRIM.get(rv["ty"])
            if kind == "IntToInt" and tr is not None:
                if v.mod is not None and rv["ty"] in BITS and BITS[rv["ty"]] <= v.mod[0]:
                    # truncation of a value known modulo 2^k to <= k bits
                    if fits(v.mod[1], tr):
                        return AV(iv=v.mod[1])
                    return AV(iv=tr, mod=(BITS[rv["ty"]], v.mod[1]))
                if v.iv is not None and fits(v.iv, tr):
                    return AV(iv=v.iv, rel=v.rel)
                if v.iv is None and NZ in v.rel:
                    pass
                if v.iv is not None and rv["ty"] in BITS and rv["from"] in BITS and BITS[rv["ty"]] <= BITS[rv["from"]] or \
                   (v.iv is not None and rv["ty"] in BITS and rv["from"] in BITS and rv["from"][0] == "i"):
                    # sign-extending or truncating cast: value preserved modulo 2^bits(target)
                    return AV(iv=tr, mod=(BITS[rv["ty"]], v.iv))
                fr = PRIM.get(rv["from"])
                if v.iv is not None and fr is not None and rv["ty"] in BITS and rv["from"] in BITS:
                    # same-width reinterpretation of non-negative values etc.
                    pass
                return AV(iv=tr)
            if kind.startswith("PointerCoercion") and "Unsize" in kind:
                # &[T; N] -> &[T]
                n = array_len(rv["from"])
                sid = v.sid or self.fresh_sid(where)
                if n is not None:
                    st.lens[sid] = (n, n)
                return AV(sid=sid)
            if tr is not None:
                return AV(iv=tr)
            if v.sid is not None:
                return AV(sid=v.sid)
            return self.top_of_type(rv["ty"], tag=where, st=st)
        if k == "bin":
            return self.eval_bin(st, rv, where)
        if k == "un":
            v = self.read_op(st, rv["a"])
            op = rv["op"]
            tr = PRIM.get(rv["ty"])
            if op == "Neg" and v.iv is not None and tr is not None:
                r = iv_neg(v.iv)
                return AV(iv=r if fits(r, tr) else tr)
            if op == "Not":
                if rv["ty"] == "bool":
                    c = v.cmp
                    iv = None
                    if v.iv == (0, 0): iv = (1, 1)
                    elif v.iv == (1, 1): iv = (0, 0)
                    else: iv = (0, 1)
                    return AV(iv=iv, cmp=("not", c) if c else None)
                return AV(iv=tr)
            if op == "PtrMetadata":
                # length of a slice reference
                if v.sid is not None:
                    return AV(iv=st.len_of(v.sid), rel=frozenset([(v.sid, 0, "eq")]))
                return AV(iv=LEN_TOP)
            return AV(iv=tr) if tr else TOP
        if k == "ref" or k == "rawptr":
            p = rv["place"]
            ps = p.get("p") or []
            # reborrow `&*x` / `&(*x)` behaves like a copy of x
            if ps == ["*"]:
                base = self.read_place(st, {"l": p["l"]})
                return AV(sid=base.sid, ref=base.ref)
            tgt = self.read_place(st, p, tag=where)
            if rv.get("mut"):
                # the referent may be modified through the new reference; when
                # the reference is only an argument of this block's call the
                # call transfer (which forgets referents of &mut arguments, or
                # models the callee) takes care of it
                if not self._only_call_arg(lhs, where):
                    self.kill_prefix(st, mir.place_key(p))
                return AV(ref=mir.place_key(p))
            return AV(sid=tgt.sid, ref=mir.place_key(p))
        if k == "agg":
            return TOP  # fields are stored by the caller
        if k == "disc":
            v = self.read_place(st, rv["place"])
            return AV(iv=(0, 1) if rv.get("ty", "").startswith(("core::option::Option<", "core::result::Result<", "core::ops::ControlFlow<")) else PRIM.get("isize"),
                      cmp=("disc", v.cmp) if v.cmp else None)
        if k == "repeat":
            return TOP
        return TOP

    def _only_call_arg(self, lhs, where):
        if "p" in lhs or not isinstance(where, tuple):
            return False
        l = lhs["l"]
        memo = self.__dict__.setdefault("_oca", {})
        if l in memo:
            return memo[l]
        uses = 0
        as_arg = 0
        for bi, b in enumerate(self.fn.blocks):
            for s in b["st"]:
                if s["s"] == "=":
                    for o in mir.rvalue_operands(s["rv"]):
                        if o.get("o") in ("cp", "mv") and o.get("l") == l:
                            uses += 1
                    if s["lhs"]["l"] == l and "p" in s["lhs"]:
                        uses += 1
            t = b["term"]
            if t["t"] == "call":
                for o in t["args"]:
                    if o.get("o") in ("cp", "mv") and o.get("l") == l:
                        uses += 1
                        if "p" not in o:
                            as_arg += 1
            elif t["t"] in ("switch", "assert", "drop"):
                for o in [t.get("op"), t.get("cond"), t.get("place")]:
                    if o and o.get("l") == l:
                        uses += 1
        memo[l] = (uses == 1 and as_arg == 1)
        return memo[l]

    def eval_bin(self, st, rv, where):
        op = rv["op"]
        a = self.read_op(st, rv["a"])
        b = self.read_op(st, rv["b"])
        ty = rv["ty"]
        tr = PRIM.get(ty)
        if op in ("Lt", "Le", "Gt", "Ge", "Eq", "Ne"):
            res = (0, 1)
            if a.iv is not None and b.iv is not None:
                t = _decide(op, a.iv, b.iv)
                if t is True: res = (1, 1)
                elif t is False: res = (0, 0)
            if res == (0, 1) and op in ("Eq", "Ne"):
                # a value known to be non-zero compared with the constant 0
                if (NZ in a.rel and b.iv == (0, 0)) or (NZ in b.rel and a.iv == (0, 0)):
                    res = (0, 0) if op == "Eq" else (1, 1)
            return AV(iv=res, cmp=("cmp", op, self._cmpkey(st, rv["a"]), self._cmpkey(st, rv["b"])))
        if op == "Cmp":
            return TOP
        base = op.replace("WithOverflow", "").replace("Unchecked", "")
        r = None
        if a.iv is not None and b.iv is not None:
            if base == "Add": r = iv_add(a.iv, b.iv)
            elif base == "Sub": r = iv_sub(a.iv, b.iv)
            elif base == "Mul": r = iv_mul(a.iv, b.iv)
            elif base == "Div": r = iv_div_trunc(a.iv, b.iv)
            elif base == "Rem": r = iv_rem_trunc(a.iv, b.iv)
            elif base == "BitAnd":
                if a.iv[0] >= 0 and b.iv[0] >= 0:
                    r = (0, min(a.iv[1], b.iv[1]))
                elif b.iv[0] >= 0:
                    r = (0, b.iv[1])
                elif a.iv[0] >= 0:
                    r = (0, a.iv[1])
            elif base in ("BitOr", "BitXor"):
                if a.iv[0] >= 0 and b.iv[0] >= 0:
                    m = max(a.iv[1], b.iv[1])
                    r = (0, (1 << m.bit_length()) - 1)
            elif base == "Shr":
                if a.iv[0] >= 0 and b.iv[0] >= 0 and b.iv[1] < 128:
                    r = (a.iv[0] >> b.iv[1], a.iv[1] >> b.iv[0])
                elif b.iv[0] >= 0 and b.iv[1] < 128:
                    r = (a.iv[0] >> b.iv[0], a.iv[1] >> b.iv[0]) if a.iv[1] < 0 else \
                        (a.iv[0] >> b.iv[0], a.iv[1] >> b.iv[0])
            elif base == "Shl":
                if a.iv[0] >= 0 and b.iv[0] >= 0 and b.iv[1] < 128:
                    r = (a.iv[0] << b.iv[0], a.iv[1] << b.iv[1])
        # relations: value +/- constant
        rel = frozenset()
        if base == "Add" and b.iv is not None and b.iv[0] == b.iv[1]:
            rel = frozenset((s, off - b.iv[0], kd) for (s, off, kd) in a.rel)
        elif base == "Add" and a.iv is not None and a.iv[0] == a.iv[1]:
            rel = frozenset((s, off - a.iv[0], kd) for (s, off, kd) in b.rel)
        elif base == "Sub" and b.iv is not None and b.iv[0] == b.iv[1]:
            rel = frozenset((s, off + b.iv[0], kd) for (s, off, kd) in a.rel)
        elif base == "Sub" and b.iv is not None and b.iv[0] >= 0:
            # subtracting something non-negative keeps `<=` facts
            rel = frozenset((s, off, "le") for (s, off, kd) in a.rel)
        if op.endswith("WithOverflow"):
            may = True
            if r is not None and tr is not None and fits(r, tr):
                may = False
            # shifts: overflow iff shift amount >= bits
            val = AV(iv=(clip(r, tr) if r is not None and tr is not None else tr), rel=rel)
            return ("tuple2", val, AV(iv=(0, 0) if not may else (0, 1), ovf=may))
        if base in ("Shl", "Shr"):
            return AV(iv=r if (r is not None and tr is not None and fits(r, tr)) else tr)
        if r is None or tr is None:
            return AV(iv=tr) if tr is not None else TOP
        if fits(r, tr):
            return AV(iv=r, rel=rel)
        return AV(iv=tr)

    def _cmpkey(self, st, op):
        """operand key for branch refinement: constants, or the place (resolved
        through the alias map to the place it was copied from) together with the
        version of that place's base local, so that a later write makes the
        recorded comparison stale"""
        k = _opkey(op)
        if k is None or k[0] != "place":
            return k
        pk = k[1]
        root = st.alias[pk[0]] if (len(pk) == 1 and pk[0] in st.alias) else None
        return ("place", pk, st.ver.get(pk[0]), root, st.ver.get(root[0]) if root else None)

    # ------------------------------------------------------------ transfer
    def transfer_stmt(self, st, s, where):
        self._loc = where
        kind = s["s"]
        if kind == "=":
            lhs, rv = s["lhs"], s["rv"]
            v = self.eval_rvalue(st, rv, lhs, where)
            if isinstance(v, tuple):
                self.kill_prefix(st, mir.place_key(lhs))
                k = mir.place_key(lhs)
                st.vals[k + (("f", 0),)] = v[1]
                st.vals[k + (("f", 1),)] = v[2]
                return
            if rv["k"] == "agg":
                k = mir.place_key(lhs)
                self.kill_prefix(st, k)
                vals = [self.read_op(st, o, tag=(where, i)) for i, o in enumerate(rv["ops"])]
                if rv.get("agg") == "adt":
                    pre = k
                    # enum variants are stored under a downcast projection
                    for i, v2 in enumerate(vals):
                        st.vals[pre + (("d", rv.get("variant")), ("f", i))] = v2
                        st.vals[pre + (("f", i),)] = v2
                    var = rv.get("variant")
                    if rv.get("adt", "").endswith(("option::Option", "result::Result", "ops::ControlFlow")):
                        if var in ("Some", "Ok", "Continue") and vals:
                            st.vals[pre] = AV(pay=vals[0].iv)
                        else:
                            st.vals[pre] = AV(pay="bot")
                elif rv.get("agg") == "tuple":
                    for i, v2 in enumerate(vals):
                        st.vals[k + (("f", i),)] = v2
                elif rv.get("agg") == "array":
                    sid = self.fresh_sid(where)
                    st.lens[sid] = (len(vals), len(vals))
                    st.vals[k] = AV(sid=sid)
                return
            self.write_place(st, lhs, v)
            # alias bookkeeping for plain copies of places
            if rv["k"] == "use" and "p" not in lhs and rv["a"].get("o") in ("cp", "mv"):
                src = mir.place_key(rv["a"])
                if src[0] != lhs["l"]:
                    root = st.alias.get(src[0]) if len(src) == 1 and src[0] in st.alias else src
                    st.alias[lhs["l"]] = root
        elif kind == "dead":
            self.kill_prefix(st, (s["l"],))
        elif kind == "setdisc":
            pass

    # calls -----------------------------------------------------------------
    def transfer_call(self, st, t, where):
        """Returns the abstract value stored in the destination."""
        path = t.get("path", "")
        args = t["args"]
        avs = [self.read_op(st, a, tag=(where, i)) for i, a in enumerate(args)]
        dest_ty = t.get("dest_ty")
        h = self.hooks.get("call")
        if h is not None:
            r = h(self, st, t, avs, where)
            if r is not None:
                return r
        # mutable references handed to the callee: forget their referents
        for a, av, ty in zip(args, avs, t.get("arg_tys", [])):
            if ty.startswith("&mut") or ty.startswith("&'") and " mut " in ty.split("::")[0]:
                if av.ref is not None:
                    self.kill_prefix(st, av.ref)
                elif a.get("o") in ("cp", "mv"):
                    # `&mut *x` reborrows of a reference parameter
                    self.kill_prefix(st, (a["l"], "*"))
        r = self.std_call(st, t, path, avs, dest_ty, where)
        if r is not None:
            return r
        pt = payload_type(dest_ty)
        if pt is not None:
            a0 = avs[0] if avs else TOP
            name = path.rsplit("::", 1)[-1]
            if name in PAY_PASS and a0.pay is not None and path.startswith(("core::option::Option", "core::result::Result", "<core::result::Result", "<core::option::Option")):
                return AV(pay=a0.pay, cmp=None)
            if "::FromResidual<" in path:
                return AV(pay="bot")
            if t.get("rkrate") and callable(self.summaries):
                sm = self.summaries(t.get("rkrate", "") + "::" + path, payload=True)
                if sm is not None:
                    return AV(pay=sm)
            rb = ranged_bounds(pt)
            return AV(pay=PRIM.get(pt) or ((rb[1], rb[2]) if rb else None))
        if dest_ty in PRIM and t.get("rkrate") and self.summaries is not None:
            key = t.get("rkrate", "") + "::" + path
            sm = self.summaries(key) if callable(self.summaries) else self.summaries.get(key)
            if sm is not None:
                return AV(iv=sm)
        return self.top_of_type(dest_ty, tag=where, st=st)

    def std_call(self, st, t, path, avs, dest_ty, where):
        tr = PRIM.get(dest_ty) if dest_ty else None
        a0 = avs[0] if avs else TOP
        name = path.rsplit("::", 1)[-1]
        # ---- lengths and views
        if path in ("core::slice::<impl [T]>::len", "core::str::<impl str>::len",
                    "std::vec::Vec::<T, A>::len", "std::string::String::len",
                    "shared::util::array_str::ArrayStr::<N>::len"):
            if a0.sid is not None:
                return AV(iv=st.len_of(a0.sid), rel=frozenset([(a0.sid, 0, "eq")]))
            return AV(iv=LEN_TOP)
        if path in ("core::slice::<impl [T]>::is_empty", "core::str::<impl str>::is_empty",
                    "std::vec::Vec::<T, A>::is_empty", "std::string::String::is_empty"):
            if a0.sid is not None:
                ln = st.len_of(a0.sid)
                iv = (0, 0) if ln[0] >= 1 else ((1, 1) if ln[1] == 0 else (0, 1))
                return AV(iv=iv, cmp=("isempty", a0.sid))
            return AV(iv=(0, 1))
        if path in ("core::slice::<impl [T]>::split_at", "core::str::<impl str>::split_at") and len(avs) > 1:
            mid = avs[1]
            if a0.sid is not None and mid.iv is not None:
                ln = st.len_of(a0.sid)
                s1, s2 = self.fresh_sid((where, 0)), self.fresh_sid((where, 1))
                st.lens[s1] = (mid.iv[0], mid.iv[1])
                st.lens[s2] = (max(0, ln[0] - mid.iv[1]), max(0, ln[1] - mid.iv[0]))
                return ("tuple2", AV(sid=s1), AV(sid=s2))
            return None
        if path in ("core::slice::<impl [T]>::starts_with", "core::slice::<impl [T]>::ends_with",
                    "core::str::<impl str>::starts_with") and len(avs) > 1:
            b = avs[1]
            if a0.sid is not None and b.sid is not None:
                n = st.len_of(b.sid)[0]
                if n >= 1:
                    return AV(iv=(0, 1), cmp=("implies", ("len_ge", a0.sid, n)))
            return AV(iv=(0, 1))
        if path in ("core::slice::<impl [T]>::first", "core::slice::<impl [T]>::last",
                    "core::slice::<impl [T]>::split_first", "core::slice::<impl [T]>::split_last"):
            if a0.sid is not None:
                return AV(cmp=("opt_len_ge", a0.sid, 1))
            return TOP
        if path == "core::slice::<impl [T]>::get" and len(avs) > 1 and t["arg_tys"][1] == "usize":
            if a0.sid is not None and avs[1].iv is not None and avs[1].iv[0] == avs[1].iv[1]:
                return AV(cmp=("opt_len_ge", a0.sid, avs[1].iv[0] + 1))
            return TOP
        if path in ("core::option::Option::<T>::map_or", "core::option::Option::<T>::is_some_and") :
            c = a0.cmp
            if c is not None and c[0] == "opt_len_ge":
                dflt_false = path.endswith("is_some_and") or (len(avs) > 1 and avs[1].iv == (0, 0))
                if dflt_false and dest_ty == "bool":
                    return AV(iv=(0, 1), cmp=("implies", ("len_ge", c[1], c[2])))
            return self.top_of_type(dest_ty, tag=where, st=st)
        if path in ("core::option::Option::<T>::is_some", "core::option::Option::<T>::is_none"):
            c = a0.cmp
            if c is not None and c[0] == "opt_len_ge":
                inner = ("iff", ("len_ge", c[1], c[2]))
                return AV(iv=(0, 1), cmp=inner if path.endswith("is_some") else ("not", inner))
            return AV(iv=(0, 1))
        if path in ("core::option::Option::<&T>::copied", "core::option::Option::<&T>::cloned",
                    "core::option::Option::<T>::as_ref"):
            return AV(cmp=a0.cmp) if (a0.cmp and a0.cmp[0] == "opt_len_ge") else TOP
        if path in ("core::option::Option::<T>::ok_or_else", "core::option::Option::<T>::ok_or"):
            if a0.cmp and a0.cmp[0] == "opt_len_ge":
                return AV(cmp=("res_len_ge",) + a0.cmp[1:])
            return TOP
        if path == "core::result::Result::<T, E>::ok":
            if a0.cmp and a0.cmp[0] == "res_len_ge":
                return AV(cmp=("opt_len_ge",) + a0.cmp[1:])
            return TOP
        if path in ("core::result::Result::<T, E>::map_err", "core::result::Result::<T, E>::with_context",
                    "<core::result::Result<T, error::Error> as error::ErrorContext>::with_context",
                    "<core::result::Result<T, error::Error> as error::ErrorContext>::context"):
            if a0.cmp and a0.cmp[0] == "res_len_ge":
                return AV(cmp=a0.cmp)
            return None
        if path in ("<core::option::Option<T> as core::ops::Try>::branch",
                    "<core::result::Result<T, E> as core::ops::Try>::branch"):
            if a0.cmp and a0.cmp[0] in ("opt_len_ge", "res_len_ge"):
                return AV(cmp=("cf_len_ge",) + a0.cmp[1:], pay=a0.pay)
            return None
        if path in ("core::str::<impl str>::as_bytes", "std::string::String::as_str",
                    "<std::vec::Vec<T, A> as core::ops::Deref>::deref",
                    "<std::vec::Vec<T, A> as core::ops::DerefMut>::deref_mut",
                    "<std::string::String as core::ops::Deref>::deref",
                    "std::string::String::as_bytes", "core::slice::<impl [T]>::iter",
                    "<[T] as core::convert::AsRef<[T]>>::as_ref",
                    "core::str::from_utf8_unchecked",
                    "std::vec::Vec::<T, A>::as_slice", "core::clone::impls::<impl core::clone::Clone for &T>::clone"):
            if a0.sid is not None:
                return AV(sid=a0.sid)
            return self.top_of_type(dest_ty, tag=where, st=st)
        if path in ("core::slice::index::<impl core::ops::Index<I> for [T]>::index",
                    "core::str::traits::<impl core::ops::Index<I> for str>::index",
                    "<std::vec::Vec<T, A> as core::ops::Index<I>>::index",
                    "<std::string::String as core::ops::Index<I>>::index",
                    "core::array::<impl core::ops::Index<I> for [T; N]>::index"):
            rng = self.range_arg(st, t, 1)
            if rng is not None and a0.sid is not None:
                kind, lo, hi = rng
                ln = st.len_of(a0.sid)
                sid = self.fresh_sid(where)
                if kind == "from" and lo.iv is not None:
                    st.lens[sid] = (max(0, ln[0] - lo.iv[1]), max(0, ln[1] - lo.iv[0]))
                elif kind == "to" and hi.iv is not None:
                    st.lens[sid] = (max(0, hi.iv[0]), min(hi.iv[1], ln[1]))
                elif kind == "range" and lo.iv is not None and hi.iv is not None:
                    st.lens[sid] = (max(0, hi.iv[0] - lo.iv[1]), max(0, min(hi.iv[1], ln[1]) - lo.iv[0]))
                return AV(sid=sid)
            return self.top_of_type(dest_ty, tag=where, st=st)
        mcmp = _CMP_CALL.match(path)
        if mcmp and len(avs) == 2 and dest_ty == "bool":
            # comparisons through references (ranged integers, Ord on primitives)
            op = {"lt": "Lt", "le": "Le", "gt": "Gt", "ge": "Ge", "eq": "Eq", "ne": "Ne"}[mcmp.group(1)]
            keys = []
            vals = []
            for a, op_ in zip(avs, t["args"]):
                if a.ref is not None:
                    keys.append(("place", a.ref, st.ver.get(a.ref[0]), None, None))
                    vals.append(self.read_place(st, _key_to_place(a.ref)))
                elif a.iv is not None and a.iv[0] == a.iv[1]:
                    keys.append(("const", a.iv[0]))
                    vals.append(a)
                else:
                    keys.append(self._cmpkey(st, op_))
                    vals.append(a)
            res = (0, 1)
            ivs = []
            for v, ty_ in zip(vals, t.get("arg_tys", [])):
                iv = v.iv
                if iv is None:
                    b_ = ranged_bounds(strip_refs(ty_))
                    iv = (b_[1], b_[2]) if b_ else PRIM.get(strip_refs(ty_))
                ivs.append(iv)
            if ivs[0] is not None and ivs[1] is not None:
                d = _decide(op, ivs[0], ivs[1])
                if d is True: res = (1, 1)
                elif d is False: res = (0, 0)
            if all(k is not None for k in keys):
                return AV(iv=res, cmp=("cmp", op, keys[0], keys[1]))
            return AV(iv=res)
        if path == "core::ops::RangeInclusive::<Idx>::new" and len(avs) == 2:
            if avs[0].iv is not None and avs[1].iv is not None:
                return AV(cmp=("rangeincl", avs[0].iv, avs[1].iv))
            return TOP
        if path == "core::ops::RangeInclusive::<Idx>::contains" and len(avs) == 2:
            rng = avs[0]
            if rng.cmp is None and rng.ref is not None:
                rv_ = st.vals.get(rng.ref)
                rng = rv_ if rv_ is not None else rng
            item = avs[1]
            if rng.cmp is not None and rng.cmp[0] == "rangeincl" and item.ref is not None:
                lo, hi = rng.cmp[1], rng.cmp[2]
                # definitely-inside / definitely-outside
                cur = self.read_place(st, _key_to_place(item.ref))
                res = (0, 1)
                if cur.iv is not None:
                    if lo[1] <= cur.iv[0] and cur.iv[1] <= hi[0]:
                        res = (1, 1)
                    elif cur.iv[1] < lo[0] or cur.iv[0] > hi[1]:
                        res = (0, 0)
                return AV(iv=res, cmp=("inrange", ("place", item.ref), lo[0], hi[1]))
            return AV(iv=(0, 1))
        # riN::<MIN, MAX>::contains(x): a range test of a primitive against the type's own bounds
        if path.startswith("util::rangeint::ri") and path.endswith("::contains") and t.get("args"):
            mb = re.search(r"ri\d+::<(-?\d+), (-?\d+)>::contains$", t.get("fn", ""))
            if mb and t["args"][0].get("o") != "c":
                lo_, hi_ = int(mb.group(1)), int(mb.group(2))
                res = (0, 1)
                if a0.iv is not None:
                    if lo_ <= a0.iv[0] and a0.iv[1] <= hi_:
                        res = (1, 1)
                    elif a0.iv[1] < lo_ or a0.iv[0] > hi_:
                        res = (0, 0)
                return AV(iv=res, cmp=("inrange", _opkey(t["args"][0]), lo_, hi_))
        mck = re.match(r"core::num::<impl (\w+)>::checked_(add|sub|mul|neg|abs)$", path)
        if mck and a0.iv is not None and mck.group(1) in PRIM:
            rr_ = PRIM[mck.group(1)]
            opn = mck.group(2)
            r_ = None
            if opn in ("add", "sub", "mul") and len(avs) > 1 and avs[1].iv is not None:
                r_ = {"add": iv_add, "sub": iv_sub, "mul": iv_mul}[opn](a0.iv, avs[1].iv)
            elif opn == "neg":
                r_ = iv_neg(a0.iv)
            elif opn == "abs":
                lo_ = 0 if a0.iv[0] <= 0 <= a0.iv[1] else min(abs(a0.iv[0]), abs(a0.iv[1]))
                r_ = (lo_, max(abs(a0.iv[0]), abs(a0.iv[1])))
            if r_ is not None:
                return AV(pay=clip(r_, rr_))
        mtf = re.match(r"core::convert::num::<impl core::convert::TryFrom<(\w+)> for (\w+)>::try_from$", path)
        if mtf and mtf.group(1) in PRIM and mtf.group(2) in PRIM:
            src = a0.iv if a0.iv is not None else PRIM[mtf.group(1)]
            tgt = PRIM[mtf.group(2)]
            lo_, hi_ = max(src[0], tgt[0]), min(src[1], tgt[1])
            return AV(pay=(lo_, hi_) if lo_ <= hi_ else "bot")
        if path in ("core::result::Result::<T, E>::unwrap", "core::result::Result::<T, E>::expect",
                    "core::option::Option::<T>::unwrap", "core::option::Option::<T>::expect") and isinstance(a0.pay, tuple):
            return AV(iv=a0.pay)
        if path in STD_RANGES:
            return AV(iv=STD_RANGES[path])
        if path in ("util::t::Constant::value", "util::t::Constant::bound") and a0.iv is not None:
            return AV(iv=a0.iv)
        # ---- integer helpers
        if tr is not None and a0.iv is not None:
            b = avs[1] if len(avs) > 1 else None
            m = re.match(r"core::num::<impl (\w+)>::(\w+)$", path)
            if m:
                ity, meth = m.group(1), m.group(2)
                rr = PRIM[ity]
                if meth == "abs":
                    lo = 0 if a0.iv[0] <= 0 <= a0.iv[1] else min(abs(a0.iv[0]), abs(a0.iv[1]))
                    r = (lo, max(abs(a0.iv[0]), abs(a0.iv[1])))
                    return AV(iv=r if fits(r, rr) else rr)
                if meth == "unsigned_abs":
                    lo = 0 if a0.iv[0] <= 0 <= a0.iv[1] else min(abs(a0.iv[0]), abs(a0.iv[1]))
                    return AV(iv=(lo, max(abs(a0.iv[0]), abs(a0.iv[1]))))
                if meth == "signum":
                    return AV(iv=(-1 if a0.iv[0] < 0 else (0 if a0.iv[0] == 0 else 1),
                                  1 if a0.iv[1] > 0 else (0 if a0.iv[1] == 0 else -1)))
                if meth in ("wrapping_add", "wrapping_sub", "wrapping_mul") and b is not None and b.iv is not None \
                        and ity in BITS and (a0.mod is not None or b.mod is not None):
                    va = a0.mod[1] if (a0.mod and a0.mod[0] == BITS[ity]) else (a0.iv if a0.mod is None else None)
                    vb = b.mod[1] if (b.mod and b.mod[0] == BITS[ity]) else (b.iv if b.mod is None else None)
                    if va is not None and vb is not None:
                        f = {"wrapping_add": iv_add, "wrapping_sub": iv_sub, "wrapping_mul": iv_mul}[meth]
                        vr = f(va, vb)
                        if fits(vr, rr):
                            return AV(iv=vr)
                        if vr[1] - vr[0] < (1 << BITS[ity]):
                            return AV(iv=rr, mod=(BITS[ity], vr))
                    return AV(iv=rr)
                if meth in ("wrapping_add", "wrapping_sub", "wrapping_mul") and b is not None and b.iv is not None and ity in BITS:
                    f = {"wrapping_add": iv_add, "wrapping_sub": iv_sub, "wrapping_mul": iv_mul}[meth]
                    vr = f(a0.iv, b.iv)
                    if fits(vr, rr):
                        return AV(iv=vr)
                    if vr[1] - vr[0] < (1 << BITS[ity]):
                        return AV(iv=rr, mod=(BITS[ity], vr))
                    return AV(iv=rr)
                if b is not None and b.iv is not None:
                    r = None
                    if meth == "rem_euclid": r = iv_rem_euclid(a0.iv, b.iv)
                    elif meth == "div_euclid": r = iv_div_euclid(a0.iv, b.iv)
                    elif meth in ("wrapping_add", "saturating_add"): r = iv_add(a0.iv, b.iv)
                    elif meth in ("wrapping_sub", "saturating_sub"): r = iv_sub(a0.iv, b.iv)
                    elif meth in ("wrapping_mul", "saturating_mul"): r = iv_mul(a0.iv, b.iv)
                    elif meth == "min": r = (min(a0.iv[0], b.iv[0]), min(a0.iv[1], b.iv[1]))
                    elif meth == "max": r = (max(a0.iv[0], b.iv[0]), max(a0.iv[1], b.iv[1]))
                    if r is not None:
                        if fits(r, rr):
                            rel = a0.rel if meth == "saturating_sub" and b.iv[0] >= 0 else frozenset()
                            rel = frozenset((s, o, "le") for (s, o, kd) in rel)
                            return AV(iv=r, rel=rel)
                        if meth.startswith("saturating"):
                            return AV(iv=clip(r, rr))
                        return AV(iv=rr)
                if meth in ("is_ascii_digit",):
                    return AV(iv=(0, 1), cmp=("inrange", _opkey(t["args"][0]), 48, 57))
                if meth in ("leading_zeros", "trailing_zeros", "count_ones"):
                    return AV(iv=(0, BITS.get(ity, 128)))
            if path in ("core::cmp::Ord::min", "core::cmp::Ord::max") and b is not None and b.iv is not None:
                if name == "min":
                    rel = frozenset((s_, o_, "le") for (s_, o_, kd_) in (a0.rel | b.rel))
                    return AV(iv=(min(a0.iv[0], b.iv[0]), min(a0.iv[1], b.iv[1])), rel=rel)
                return AV(iv=(max(a0.iv[0], b.iv[0]), max(a0.iv[1], b.iv[1])))
            if re.match(r"core::cmp::impls::<impl core::cmp::Ord for \w+>::clamp$", path) and len(avs) == 3:
                lo, hi = avs[1], avs[2]
                if lo.iv is not None and hi.iv is not None:
                    return AV(iv=(max(a0.iv[0], lo.iv[0]), min(a0.iv[1], hi.iv[1])) if max(a0.iv[0], lo.iv[0]) <= min(a0.iv[1], hi.iv[1]) else (lo.iv[0], hi.iv[1]))
            if re.match(r"core::convert::num::<impl core::convert::From<\w+> for \w+>::from$", path) or \
               path == "<T as core::convert::From<T>>::from" or path == "<T as core::convert::Into<U>>::into":
                if fits(a0.iv, tr):
                    return AV(iv=a0.iv, rel=a0.rel)
        if tr is not None and path.startswith("core::num::<impl") and name in ("leading_zeros", "trailing_zeros"):
            return AV(iv=(0, 128))
        # ranged integers: the declared type is the contract (E2 verifies it)
        rb = ranged_bounds(dest_ty or "")
        if rb is not None:
            return AV(iv=(rb[1], rb[2]), tr=(rb[1], rb[2]))
        if tr is not None and name in ("get", "get_unchecked") and t.get("arg_tys"):
            sb = ranged_bounds(t["arg_tys"][0])
            if sb is not None:
                iv = (sb[1], sb[2])
                if a0.iv is not None:
                    iv = clip(a0.iv, iv)
                return AV(iv=clip(iv, tr))
        return None

    def range_arg(self, st, t, idx):
        """Decode a `a..`, `..b`, `a..b`, `..=b`, `a..=b` argument."""
        if idx >= len(t["args"]):
            return None
        ty = t["arg_tys"][idx]
        a = t["args"][idx]
        if a.get("o") not in ("cp", "mv"):
            return None
        k = mir.place_key(a)
        g = lambda i: st.vals.get(k + (("f", i),), AV(iv=LEN_TOP))
        if ty.startswith("core::ops::RangeFrom<"):
            return ("from", g(0), None)
        if ty.startswith("core::ops::RangeTo<"):
            return ("to", None, g(0))
        if ty.startswith("core::ops::Range<"):
            return ("range", g(0), g(1))
        return None

    # ------------------------------------------------------- branch refine
    def refine(self, st, cmp, truth):
        """Refine state assuming the boolean with provenance `cmp` == truth."""
        if cmp is None:
            return
        tag = cmp[0]
        if tag == "not":
            return self.refine(st, cmp[1], not truth)
        if tag == "isempty":
            sid = cmp[1]
            ln = st.len_of(sid)
            if truth:
                st.lens[sid] = (0, 0)
            else:
                st.lens[sid] = (max(1, ln[0]), max(1, ln[1]))
            return
        if tag in ("implies", "iff"):
            fact = cmp[1]
            if fact[0] == "len_ge":
                sid, n = fact[1], fact[2]
                ln = st.len_of(sid)
                if truth:
                    st.lens[sid] = (max(ln[0], n), max(ln[1], n))
                elif tag == "iff" and n >= 1:
                    st.lens[sid] = (ln[0], min(ln[1], n - 1)) if ln[0] <= n - 1 else ln
            return
        if tag == "inrange":
            if truth:
                self._refine_key(st, cmp[1], (cmp[2], cmp[3]))
            return
        if tag == "cmp":
            op, ka, kb = cmp[1], cmp[2], cmp[3]
            if not truth:
                op = {"Lt": "Ge", "Le": "Gt", "Gt": "Le", "Ge": "Lt", "Eq": "Ne", "Ne": "Eq"}[op]
            a = self._val_of_key(st, ka)
            b = self._val_of_key(st, kb)
            if a is None or b is None:
                return
            ai, bi = a.iv, b.iv
            if ai is not None and bi is not None:
                na, nb = ai, bi
                if op == "Lt": na = (ai[0], min(ai[1], bi[1] - 1)); nb = (max(bi[0], ai[0] + 1), bi[1])
                elif op == "Le": na = (ai[0], min(ai[1], bi[1])); nb = (max(bi[0], ai[0]), bi[1])
                elif op == "Gt": na = (max(ai[0], bi[0] + 1), ai[1]); nb = (bi[0], min(bi[1], ai[1] - 1))
                elif op == "Ge": na = (max(ai[0], bi[0]), ai[1]); nb = (bi[0], min(bi[1], ai[1]))
                elif op == "Eq":
                    lo, hi = max(ai[0], bi[0]), min(ai[1], bi[1]); na = nb = (lo, hi)
                elif op == "Ne":
                    if bi[0] == bi[1]:
                        if ai[0] == bi[0]: na = (ai[0] + 1, ai[1])
                        elif ai[1] == bi[0]: na = (ai[0], ai[1] - 1)
                    if ai[0] == ai[1]:
                        if bi[0] == ai[0]: nb = (bi[0] + 1, bi[1])
                        elif bi[1] == ai[0]: nb = (bi[0], bi[1] - 1)
                if na[0] <= na[1]:
                    self._refine_key(st, ka, na)
                if nb[0] <= nb[1]:
                    self._refine_key(st, kb, nb)
            # non-zero facts (a hole in the middle of an interval)
            if op == "Ne" and bi == (0, 0) and ai is not None and ai[0] < 0 < ai[1]:
                self._add_rel(st, ka, {NZ})
            if op == "Ne" and ai == (0, 0) and bi is not None and bi[0] < 0 < bi[1]:
                self._add_rel(st, kb, {NZ})
            # relational: a < len(S) etc.
            add_a, add_b = set(), set()
            for (s, off, kd) in b.rel:
                if kd == "eq" or kd == "le":
                    # b + off <=/== len(s)
                    if op == "Lt": add_a.add((s, off + 1, "le"))
                    elif op == "Le": add_a.add((s, off, "le"))
                    elif op == "Eq": add_a.add((s, off, kd))
            for (s, off, kd) in a.rel:
                if op == "Gt": add_b.add((s, off + 1, "le"))
                elif op == "Ge": add_b.add((s, off, "le"))
                elif op == "Eq": add_b.add((s, off, kd))
            if add_a:
                self._add_rel(st, ka, add_a)
            if add_b:
                self._add_rel(st, kb, add_b)
            return

    def _val_of_key(self, st, k):
        if k is None:
            return None
        if k[0] == "const":
            return AV(iv=(k[1], k[1]))
        for pk in self._valid_keys(st, k):
            return self.read_place(st, _key_to_place(pk))
        return None   # the compared place has been written since

    def _valid_keys(self, st, k):
        """the place keys recorded in a comparison operand that have not been
        written since the comparison was evaluated"""
        if len(k) == 2:
            return [k[1]]
        out = []
        if st.ver.get(k[1][0]) == k[2]:
            out.append(k[1])
        if len(k) > 3 and k[3] is not None and st.ver.get(k[3][0]) == k[4]:
            out.append(k[3])
        return out

    def _all_targets(self, st, k):
        out = set()
        for pk in self._valid_keys(st, k):
            out |= self._targets(st, pk)
        return out

    def _targets(self, st, pk):
        """All place keys denoting the same value as pk (aliases)."""
        out = {pk}
        root = pk
        if len(pk) == 1 and pk[0] in st.alias:
            root = st.alias[pk[0]]
            out.add(root)
        for a, r in st.alias.items():
            if r == root or r == pk:
                out.add((a,))
        return out

    def _refine_key(self, st, k, iv):
        if k is None or k[0] == "const":
            return
        for pk in self._all_targets(st, k):
            cur = st.vals.get(pk)
            if cur is None:
                cur = self.read_place(st, _key_to_place(pk))
            if cur.iv is None:
                continue
            lo, hi = max(cur.iv[0], iv[0]), min(cur.iv[1], iv[1])
            if lo > hi:
                continue
            st.vals[pk] = AV((lo, hi), cur.sid, cur.rel, cur.cmp, cur.ref, cur.ovf, cur.tr, cur.mod, cur.pay)
            for (s, off, kd) in cur.rel:
                if kd == "nz":
                    continue
                ln = st.len_of(s)
                if kd == "eq":
                    st.lens[s] = (max(ln[0], lo + off), min(ln[1], hi + off)) if max(ln[0], lo + off) <= min(ln[1], hi + off) else ln
                else:
                    st.lens[s] = (max(ln[0], lo + off), ln[1])

    def _add_rel(self, st, k, rels):
        if k is None or k[0] == "const":
            # constant compared with a length: c <= len
            if k is not None:
                for (s, off, kd) in rels:
                    ln = st.len_of(s)
                    if kd == "le":
                        st.lens[s] = (max(ln[0], k[1] + off), max(ln[1], k[1] + off))
                    elif kd == "eq":
                        pass
            return
        for pk in self._all_targets(st, k):
            cur = st.vals.get(pk)
            if cur is None:
                cur = self.read_place(st, _key_to_place(pk))
            st.vals[pk] = AV(cur.iv, cur.sid, cur.rel | frozenset(rels), cur.cmp, cur.ref, cur.ovf, cur.tr, cur.mod, cur.pay)
            if cur.iv is not None:
                for (s, off, kd) in rels:
                    if kd == "nz":
                        continue
                    ln = st.len_of(s)
                    st.lens[s] = (max(ln[0], cur.iv[0] + off), ln[1])

    # ------------------------------------------------------------- driver
    def initial_state(self):
        st = State()
        for i in range(1, self.fn["argc"] + 1):
            ty = self.local_ty(i)
            v = self.top_of_type(ty, tag=("arg", i), st=st)
            if v is not TOP:
                st.vals[(i,)] = v
        pc = (self.param_contracts or {}).get(self.fn.path)
        if pc:
            for i, iv in pc.items():
                st.vals[(i,)] = AV(iv=iv)
        h = self.hooks.get("init")
        if h:
            h(self, st)
        return st

    def block_out(self, bi, st_in):
        """Run the block; returns (pre-terminator state, {succ: state})."""
        st = st_in.copy()
        b = self.fn.blocks[bi]
        for si, s in enumerate(b["st"]):
            self.transfer_stmt(st, s, (bi, si))
        pre = st.copy()
        t = b["term"]
        tt = t["t"]
        outs = {}
        if tt == "goto":
            outs[t["to"]] = st
        elif tt == "switch":
            v = self.read_op(st, t["op"])
            cmp = v.cmp
            disc = None
            vals, tgts = t["vals"], t["targets"]
            for val, tg in zip(vals, tgts):
                if v.iv is not None and not (v.iv[0] <= val <= v.iv[1]):
                    continue   # infeasible edge
                s2 = st.copy()
                self._assume_switch(s2, t, v, cmp, val, None)
                outs[tg] = s2 if tg not in outs else join_state(outs[tg], s2, at=tg)
            feasible_other = True
            if v.iv is not None and v.iv[1] - v.iv[0] < 64:
                feasible_other = any(x not in vals for x in range(v.iv[0], v.iv[1] + 1))
            if feasible_other:
                s2 = st.copy()
                self._assume_switch(s2, t, v, cmp, None, vals)
                tg = t["otherwise"]
                outs[tg] = s2 if tg not in outs else join_state(outs[tg], s2, at=tg)
        elif tt == "call":
            where = (bi, "t")
            self._loc = where
            r = self.transfer_call(st, t, where)
            if "dest" in t:
                if isinstance(r, tuple):
                    k = mir.place_key(t["dest"])
                    self.kill_prefix(st, k)
                    for i, x in enumerate(r[1:]):
                        st.vals[k + (("f", i),)] = x
                else:
                    self.write_place(st, t["dest"], r)
            if "to" in t:
                outs[t["to"]] = st
        elif tt == "assert":
            # after the assert the condition holds
            v = self.read_op(st, t["cond"])
            if v.cmp is not None:
                self.refine(st, v.cmp, t["expected"])
            self._after_assert(st, t)
            outs[t["to"]] = st
        elif tt == "drop":
            outs[t["to"]] = st
        return pre, outs

    def _after_assert(self, st, t):
        kind = t["kind"]
        if kind == "BoundsCheck":
            # index < len afterwards
            ln, ix = t["ops"]
            lv = self.read_op(st, ln)
            kx = _opkey(ix)
            rels = set()
            for (s, off, kd) in lv.rel:
                if kd == "eq":
                    rels.add((s, off + 1, "le"))
            if rels:
                self._add_rel(st, kx, rels)
            if lv.iv is not None and kx and kx[0] == "place":
                xv = self.read_op(st, ix)
                if xv.iv is not None:
                    self._refine_key(st, kx, (xv.iv[0], min(xv.iv[1], lv.iv[1] - 1)))

    def _assume_switch(self, st, t, v, cmp, val, excluded):
        k = _opkey(t["op"])
        is_bool = t.get("op_ty") == "bool"
        if cmp is not None and cmp[0] == "disc" and cmp[1] is not None and \
                cmp[1][0] in ("opt_len_ge", "res_len_ge", "cf_len_ge"):
            # Option: 0 = None, 1 = Some; Result: 0 = Ok; ControlFlow: 0 = Continue
            good = 1 if cmp[1][0] == "opt_len_ge" else 0
            inner = ("iff" if cmp[1][0] == "opt_len_ge" else "implies", ("len_ge", cmp[1][1], cmp[1][2]))
            if val is not None:
                self.refine(st, inner, val == good)
            elif excluded is not None and len(excluded) == 1:
                self.refine(st, inner, excluded[0] != good)
        if is_bool and cmp is not None:
            if val is not None:
                self.refine(st, cmp, bool(val))
            elif excluded is not None and len(excluded) == 1:
                self.refine(st, cmp, not bool(excluded[0]))
        if v.iv is not None and k is not None and k[0] == "place":
            if val is not None:
                if v.iv[0] <= val <= v.iv[1]:
                    self._refine_key(st, k, (val, val))
            elif excluded:
                lo, hi = v.iv
                ex = set(excluded)
                while lo in ex and lo <= hi: lo += 1
                while hi in ex and hi >= lo: hi -= 1
                if lo <= hi:
                    self._refine_key(st, k, (lo, hi))

    def run(self):
        if self.done:
            return self
        entry = {0: self.initial_state()}
        # reverse postorder: blocks are processed in RPO (heap) and widening is applied only at the
        # targets of retreating edges (rpo[target] <= rpo[source]), which every cycle contains
        rpo = {}
        seen = {0}
        stack = [(0, iter(self.cfg.succ[0]))]
        post = []
        while stack:
            b, it = stack[-1]
            adv = False
            for s_ in it:
                if s_ not in seen:
                    seen.add(s_)
                    stack.append((s_, iter(self.cfg.succ[s_])))
                    adv = True
                    break
            if not adv:
                post.append(b)
                stack.pop()
        for i, b in enumerate(reversed(post)):
            rpo[b] = i
        heads = set()
        for u, ss in enumerate(self.cfg.succ):
            if u in rpo:
                for v in ss:
                    if rpo.get(v, 0) <= rpo[u]:
                        heads.add(v)
        import heapq
        work = [(0, 0)]
        inq = {0}
        iters = 0
        self.pre = {}
        self.fedges = {}
        while work:
            iters += 1
            if iters > self.MAX_ITERS:
                self.bailed = True
                break
            _, bi = heapq.heappop(work)
            inq.discard(bi)
            self.visits[bi] += 1
            pre, outs = self.block_out(bi, entry[bi])
            self.pre[bi] = pre
            self.fedges[bi] = set(outs.keys())
            for tg, s in outs.items():
                old = entry.get(tg)
                if old is None:
                    new = s
                elif len(self.cfg.pred[tg]) == 1:
                    new = s
                    if new == old:
                        continue
                else:
                    new = join_state(old, s, at=tg)
                    if tg in heads and self.visits[tg] >= self.WIDEN_AFTER:
                        new = self.widen(old, new)
                    if new == old:
                        continue
                entry[tg] = new
                if tg not in inq:
                    inq.add(tg)
                    heapq.heappush(work, (rpo.get(tg, 0), tg))
        self.entry = entry
        if self.bailed:
            # fall back to "know nothing" states (sound)
            self.pre = {}
        self.done = True
        return self

    def widen(self, old, new):
        for k, v in list(new.vals.items()):
            o = old.vals.get(k)
            if o is None or o.iv is None or v.iv is None:
                continue
            if v.iv != o.iv:
                ty = self.place_ty(_key_to_place(k))
                tr = PRIM.get(ty) if ty else None
                if tr is None:
                    rb = ranged_bounds(ty or "")
                    tr = (rb[1], rb[2]) if rb else None
                if tr is None:
                    tr = (I128_MIN, I128_MAX) if v.iv[0] < 0 else (0, (1 << 128) - 1)
                lo = v.iv[0] if v.iv[0] >= o.iv[0] else tr[0]
                hi = v.iv[1] if v.iv[1] <= o.iv[1] else tr[1]
                new.vals[k] = AV((min(lo, v.iv[0]), max(hi, v.iv[1])), v.sid, v.rel, v.cmp, v.ref, v.ovf, v.tr)
        for s, ln in list(new.lens.items()):
            o = old.lens.get(s)
            if o is not None and ln != o:
                new.lens[s] = (ln[0] if ln[0] >= o[0] else 0, ln[1] if ln[1] <= o[1] else LEN_TOP[1])
        return new

    # query API ------------------------------------------------------------
    def state_at(self, bi, si):
        """abstract state just before statement `si` of block `bi`"""
        self.run()
        st0 = self.entry.get(bi)
        if st0 is None or self.bailed:
            return None
        st = st0.copy()
        for i, s in enumerate(self.fn.blocks[bi]["st"][:si]):
            self.transfer_stmt(st, s, (bi, i))
        return st

    def state_before_term(self, bi):
        self.run()
        return self.pre.get(bi)

    def operand_at_term(self, bi, op):
        st = self.state_before_term(bi)
        if st is None:
            return TOP, None
        return self.read_op(st, op), st


def _decide(op, a, b):
    if op == "Lt":
        if a[1] < b[0]: return True
        if a[0] >= b[1]: return False
    elif op == "Le":
        if a[1] <= b[0]: return True
        if a[0] > b[1]: return False
    elif op == "Gt":
        if a[0] > b[1]: return True
        if a[1] <= b[0]: return False
    elif op == "Ge":
        if a[0] >= b[1]: return True
        if a[1] < b[0]: return False
    elif op == "Eq":
        if a[0] == a[1] == b[0] == b[1]: return True
        if a[1] < b[0] or b[1] < a[0]: return False
    elif op == "Ne":
        if a[1] < b[0] or b[1] < a[0]: return True
        if a[0] == a[1] == b[0] == b[1]: return False
    return None


def _opkey(op):
    o = op.get("o")
    if o == "c":
        return ("const", op["v"]) if "v" in op else None
    if o in ("cp", "mv"):
        return ("place", mir.place_key(op))
    return None


def _key_to_place(k):
    p = {"l": k[0]}
    if len(k) > 1:
        ps = []
        for e in k[1:]:
            if e == "*":
                ps.append("*")
            elif isinstance(e, tuple) and e[0] == "f":
                ps.append({"f": e[1]})
            elif isinstance(e, tuple) and e[0] == "d":
                ps.append({"d": e[1]})
            elif isinstance(e, tuple) and e[0] == "i":
                ps.append({"i": e[1]})
            else:
                ps.append(str(e))
        p["p"] = ps
    return p
