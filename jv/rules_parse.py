"""SIGN-DISTRIB: a parsed sign applies to the whole magnitude.

Every numeric-offset parser of the crate (RFC 2822 `+hhmm`, strptime `%z` / `%:z`, the Temporal/ISO offset in fmt::offset,
the POSIX TZ offset in shared::posix) reads a sign and then two or three unsigned components.  The value it builds must
be  sign * (h*3600 + m*60 + s): in the term of that value every component has to sit under a multiplication by the sign
(directly, or because the sign multiplies a sum that contains it).  `(sign*h)*3600 + m*60` type-checks, passes every test
with whole-hour or positive offsets, and reads "-0330" as -02:30.
"""
import re
from . import mir
from .term import Terms, walk, show, alts

_MUL = re.compile(r"ops::Mul<.*>>::mul$|::checked_mul$|::try_checked_mul$|::saturating_mul$")
_LEAF_CALL = re.compile(r"(^|::)(parse::i64|parse_hour\w*|parse_minute\w*|parse_second\w*|parse_number\w*)$")
_LEAF_FIELD = ("hours", "minutes", "seconds", "hour", "minute", "second")
_WRAP = ("rfrom", "rinto", "from", "into", "unwrap_or", "get", "try_rfrom", "try_rinto")


def signlike(t, depth=0):
    if not isinstance(t, tuple) or not t or depth > 8:
        return False
    k = t[0]
    if k == "call":
        last = t[1].rsplit("::", 1)[-1]
        if re.search(r"ri8::<MIN, MAX>::N$", t[1]) and not t[2]:
            return True
        if "sign" in last.lower():
            return True
        if last in _WRAP and t[2]:
            return signlike(t[2][0], depth + 1)
    if k == "field":
        return t[2] in ("sign",) or signlike(t[1], depth + 1)
    if k in ("try", "cast"):
        return signlike(t[1], depth + 1)
    if k == "un":
        return signlike(t[2], depth + 1)
    if k == "variant":
        return signlike(t[1], depth + 1)
    if k == "phi":
        a = list(alts(t))
        if len(a) >= 2 and all(x[0] == "const" and x[1] in (1, -1) for x in a):
            return True
        return bool(a) and all(signlike(x, depth + 1) or (x[0] == "const" and x[1] in (1, -1)) for x in a) and any(signlike(x, depth + 1) for x in a)
    return False


def _is_mul(t):
    return isinstance(t, tuple) and t and ((t[0] == "call" and _MUL.search(t[1]) and len(t[2]) >= 2) or
                                           (t[0] == "bin" and t[1] in ("Mul", "MulWithOverflow")))


def _operands(t):
    return list(t[2])[:2] if t[0] == "call" else [t[2], t[3]]


def _sign_mul(t):
    return _is_mul(t) and any(signlike(o) for o in _operands(t))


def _is_leaf(t):
    if not isinstance(t, tuple) or not t:
        return None
    if t[0] == "call" and _LEAF_CALL.search(t[1]):
        rng = [x for x in walk(t) if isinstance(x, tuple) and x and x[0] == "agg" and str(x[1]).endswith(("Range", "RangeFrom", "RangeTo"))]
        where = ""
        if rng:
            d = dict(rng[0][3])
            where = "[%s..%s]" % (d.get("start", ("const", ""))[1] if "start" in d else "", d.get("end", ("const", ""))[1] if "end" in d else "")
        return t[1].rsplit("::", 1)[-1] + where
    if t[0] == "field" and t[2] in _LEAF_FIELD and not signlike(t):
        return "." + t[2]
    return None


def _children(t):
    for c in t[1:]:
        if isinstance(c, tuple):
            if c and isinstance(c[0], str):
                yield c
            else:
                for d in c:
                    if isinstance(d, tuple):
                        if d and isinstance(d[0], str) and d[0] in ("call", "bin", "un", "field", "phi", "try", "cast", "const", "param", "agg", "variant", "index", "residual", "closure", "disc"):
                            yield d
                        elif len(d) == 2 and isinstance(d[1], tuple):
                            yield d[1]
        elif isinstance(c, frozenset):
            for d in c:
                yield d


def _collect(t, under, out, depth=0):
    if not isinstance(t, tuple) or not t or depth > 60:
        return
    lf = _is_leaf(t)
    if lf is not None:
        out.append((under, lf))
        return
    if _sign_mul(t):
        for o in _operands(t):
            if not signlike(o):
                _collect(o, True, out, depth + 1)
        return
    for c in _children(t):
        _collect(c, under, out, depth + 1)


def sign_distrib(rep, prog, rule="SIGN-DISTRIB", files=("src/fmt/", "src/shared/posix.rs"), floor=6):
    rep.rule(rule, "in every parser that reads a sign and then unsigned components (RFC 2822 zone, strptime %z/%:z, fmt::offset "
                   "Numeric::to_offset, the POSIX TZ offset and time) the value built from them is sign * (all components): in the "
                   "term of every maximal expression that contains a multiplication by the sign, each parsed component (parse::i64, "
                   "parse_hour/minute/second, the hours/minutes/seconds fields) sits under such a multiplication. A sign applied to "
                   "the hours only reads \"-0330\" as -02:30 while every whole-hour and every positive offset still parses correctly")
    n = 0
    for f in sorted(prog.fns.values(), key=lambda f: f.key):
        if f.crate != "jiff" or f.is_closure or not f.file.startswith(files):
            continue
        if not any(_MUL.search(t.get("path", "")) for _, t in mir.iter_calls(f)) and \
                not any(s["s"] == "=" and s["rv"]["k"] == "bin" and s["rv"]["op"] in ("Mul", "MulWithOverflow") for b in f.blocks for s in b["st"]):
            continue
        T = Terms(f)
        tops = []
        # the value of a parsed offset / POSIX time: the argument of an Offset constructor, or the `second` of a PosixOffset /
        # PosixTime aggregate
        for bi, t in mir.iter_calls(f):
            if re.search(r"Offset::from_seconds(_ranged|_unchecked)?$|Offset::from_hours$", t.get("path", "")) and t.get("args"):
                a = T.at_call(bi, t, 0)
                if any(_sign_mul(x) for x in walk(a)):
                    tops.append((t["span"]["line"], a))
        for bi, b in enumerate(f.blocks):
            for si, s in enumerate(b["st"]):
                if s["s"] == "=" and s["rv"]["k"] == "agg" and str(s["rv"].get("adt", "")).endswith(("PosixOffset", "PosixTime")):
                    for op in s["rv"]["ops"]:
                        a = T.operand(op, pos=(bi, si))
                        if any(_sign_mul(x) for x in walk(a)):
                            tops.append((s.get("ln"), a))
        if re.search(r"Offset|PosixTime", str(f.get("ret", ""))):
            for a in alts(T.returns()):
                if any(_sign_mul(x) for x in walk(a)):
                    tops.append((f.line, a))
        seen = []
        for (ln, a) in tops:
            if any(a == b_ for (_l, b_) in seen):
                continue
            seen.append((ln, a))
        maximal = [(ln, a) for (ln, a) in seen if not any(a is not b_ and a != b_ and any(x == a for x in walk(b_)) for (_l, b_) in seen)]
        for (ln, a) in maximal:
            out = []
            _collect(a, False, out)
            if not out:
                continue
            n += 1
            key = "%s:%s" % (f.path.replace("<'f, 'i, 't>", "").replace("<'s>", ""), "value")
            loc = "%s:%s" % (f.file, ln)
            outside = sorted({lf for (u, lf) in out if not u})
            inside = sorted({lf for (u, lf) in out if u})
            if outside and inside:
                rep.violation(rule, key, "the sign multiplies %s but not %s: the components outside the multiplication are added with a "
                              "positive sign whatever the parsed sign is" % (inside, outside), loc)
            elif outside and not inside:
                continue   # a multiplication by a sign that involves no parsed component of this expression
            else:
                rep.ok(rule, key, how="every component (%s) is under the multiplication by the sign" % ", ".join(inside)[:120], loc=loc)
    rep.floor(rule + " expressions", n, floor)


def obs_year(rep, prog, rule="OBS-YEAR"):
    """RFC 2822 obsolete years are recognised by their number of digits, not by their value"""
    from .guards import guards
    rep.rule(rule, "RFC 2822 (4.3) defines the obsolete year by syntax: exactly two digits mean 19xx/20xx, exactly three digits mean "
                   "1900 + n, four digits are the year itself. jiff's own printer writes years below 1000 zero-padded to four digits, "
                   "so DateTimeParser::parse_year must select the +1900 / +2000 adjustment by the number of digits it consumed: every "
                   "block that adds 1900 or 2000 is guarded by a switch on the digit count (the term that is also the split position "
                   "of the input). Selecting by the value alone reads \"0042\" as 2042")
    f = prog.fns.get("jiff::fmt::rfc2822::DateTimeParser::parse_year")
    if f is None:
        rep.anchor_missing("fmt::rfc2822::DateTimeParser::parse_year")
        return
    T = Terms(f)
    cfg = mir.CFG(f)
    count = None
    for bi, t in mir.iter_calls(f):
        if t.get("path", "").endswith("::split_at") and len(t.get("args", [])) == 2:
            count = T.at_call(bi, t, 1)
    if count is None:
        rep.violation(rule, "parse_year", "anchor missing: no split_at(input, digits) found", f.loc())
        return
    def adds_in(fn_):
        out = []
        for bi, b in enumerate(fn_.blocks):
            for si, s in enumerate(b["st"]):
                if s["s"] == "=" and s["rv"]["k"] == "bin" and s["rv"]["op"] in ("Add", "AddWithOverflow"):
                    for o in (s["rv"]["a"], s["rv"]["b"]):
                        if o.get("o") == "c" and o.get("v") in (1900, 2000):
                            out.append((bi, o["v"], s.get("ln")))
        return out
    host, host_T, host_cfg, host_count = f, T, cfg, count
    adds = adds_in(f)
    if len(adds) < 2:
        # the adjustment may have been extracted into a private helper that receives the digit count as an argument
        for bi, t in mir.iter_calls(f):
            g = prog.fns.get("jiff::" + t.get("path", ""))
            if g is None or g.is_closure or g.file != f.file:
                continue
            pos = [i for i in range(len(t.get("args", []))) if T.at_call(bi, t, i) == count]
            if pos and len(adds_in(g)) >= 2:
                host, host_T, host_cfg = g, Terms(g), mir.CFG(g)
                host_count = ("param", pos[0] + 1, (g["locals"][pos[0] + 1] or {}).get("n"))
                adds = adds_in(g)
                break
    if len(adds) < 2:
        rep.violation(rule, "parse_year", "anchor missing: expected the +1900 and +2000 adjustments (in parse_year or in a helper that "
                      "receives the digit count), found %s" % [a_[1] for a_ in adds], f.loc())
        return
    bad = []
    count_switches = []
    for sb, b in enumerate(host.blocks):
        t = b["term"]
        if t["t"] == "switch" and sb in host_cfg.reachable():
            c = host_T.operand(t["op"], 0, (sb, "term"))
            if c == host_count:
                count_switches.append((sb, list(t["targets"]) + [t["otherwise"]]))
    for (bi, v, ln) in adds:
        # selected by the digit count: a switch on the count dominates the block and at least one of its arms cannot reach it
        # (several arms may share the block: `2 | 3 => year + 1900`)
        on_count = any(host_cfg.dominates(sb, bi) and any(not (tg == bi or host_cfg.can_reach(tg, bi, avoid=(sb,))) for tg in tgs)
                       for (sb, tgs) in count_switches)
        if not on_count:
            bad.append((v, ln))
    if bad:
        rep.violation(rule, "parse_year", "the adjustment(s) %s are not selected by the number of digits consumed (no dominating switch on the "
                      "digit count): a zero-padded four-digit year below 1000, which jiff's own RFC 2822 printer emits, is shifted "
                      "into 19xx/20xx" % ", ".join("+%d at line %s" % b_ for b_ in bad), f.loc())
    else:
        rep.ok(rule, "parse_year", how="%d adjustments, each under a switch on the digit count" % len(adds), loc=f.loc())


def quote_agree(rep, prog, rule="QUOTE-AGREE"):
    """POSIX TZ abbreviations: the printer leaves an abbreviation unquoted only if the unquoted parser reads it back whole"""
    rep.rule(rule, "shared::posix: parse_unquoted_abbreviation consumes bytes while a character classifier accepts them (ASCII "
                   "letters); every other abbreviation the quoted form can carry (digits, '+', '-') must be written inside <...>. "
                   "AbbreviationDisplay therefore decides on quoting with the same classifier the unquoted parser loops on (sibling "
                   "agreement on the classifier function): a printer that quotes only for '+'/'-' writes <ABC1>5 as ABC15, which "
                   "parses back as the zone ABC at offset 15")
    for crate in ("jiff",):
        pf = [f for f in prog.fns.values() if f.crate == crate and not f.is_closure and f.path.endswith("::parse_unquoted_abbreviation")]
        df = [f for f in prog.fns.values() if f.crate == crate and "AbbreviationDisplay<S> as core::fmt::Display>::fmt" in f.path]
        if not pf or not df:
            rep.anchor_missing("shared::posix parse_unquoted_abbreviation / AbbreviationDisplay::fmt")
            return
        cls = lambda fs: sorted({t.get("path", "").rsplit("::", 1)[-1] for f in fs for _, t in mir.iter_calls(f)
                                 if t.get("path", "").rsplit("::", 1)[-1].startswith("is_ascii_") or t.get("path", "").rsplit("::", 1)[-1] in ("is_alphabetic", "is_alphanumeric")})
        want, got = cls(pf), cls(df)
        key = "abbreviation quoting"
        if want and got == want:
            rep.ok(rule, key, how="printer and unquoted parser both classify with %s" % want, loc=df[0].loc())
        elif not want:
            rep.violation(rule, key, "anchor missing: the unquoted parser no longer loops on a character classifier", pf[0].loc())
        else:
            rep.violation(rule, key, "the unquoted parser accepts characters by %s, the printer decides on quoting by %s: an abbreviation "
                          "with a character the unquoted parser stops at (a digit) is printed without <...> and the digits are read as "
                          "the offset (<ABC1>5 prints as ABC15)" % (want, got or "comparisons with '+' and '-' only"), df[0].loc())


def prefix_remainder(rep, prog, rule="PREFIX-REMAINDER"):
    """a sub-parser that was handed only a prefix of the unparsed input reports what it left of the prefix, not of the input"""
    from .term import ok_payloads, is_call
    rep.rule(rule, "fmt::temporal::parser::DateTimeParser::parse_time_zone cuts a whitespace-delimited prefix off its input and hands "
                   "only that prefix to PosixTimeZone::parse_prefix; the remainder it returns must re-attach what follows the prefix: "
                   "in every Ok(Parsed { input: R, .. }) whose R contains the result of parse_prefix, R also reads the advancing "
                   "cursor (or the input parameter) outside that call's argument. Returning parse_prefix's own remainder drops "
                   "everything after the first whitespace, so \"EST5EDT,M3.2.0,M11.1.0 junk\" parses as a time zone")
    f = prog.fns.get("jiff::fmt::temporal::parser::DateTimeParser::parse_time_zone")
    if f is None:
        rep.anchor_missing("fmt::temporal::parser::DateTimeParser::parse_time_zone")
        return
    T = Terms(f)
    n = 0
    for a in ok_payloads(T.returns()):
        if a[0] != "agg":
            continue
        d = dict(a[3])
        R = d.get("input")
        if R is None or not any(is_call(x, "::parse_prefix") for x in walk(R)):
            continue
        n += 1

        def outside(t_, inside=False):
            """does t_ read the cursor / the input parameter outside the argument of parse_prefix?"""
            if not isinstance(t_, tuple) or not t_:
                return False
            if is_call(t_, "::parse_prefix"):
                return False
            if t_[0] == "phi" or (t_[0] == "param" and t_[2] == "input"):
                return True
            return any(outside(c) for c in _children(t_))
        if outside(R):
            rep.ok(rule, "parse_time_zone: POSIX branch", how="the returned remainder re-attaches what follows the prefix", loc=f.loc())
        else:
            rep.violation(rule, "parse_time_zone: POSIX branch", "the returned remainder is %s: what parse_prefix left of the prefix only; the "
                          "input after the first whitespace is never reported as unparsed, so trailing garbage is accepted"
                          % show(R, maxd=4)[:160], f.loc())
    if n == 0:
        rep.violation(rule, "parse_time_zone: POSIX branch", "anchor missing: no Ok return built from PosixTimeZone::parse_prefix", f.loc())


def verbatim(rep, prog, rule="VERBATIM"):
    """%Z prints the abbreviation the zone reports, not a case-mapped copy of it"""
    rep.rule(rule, "the text of strftime's %Z is data from the time zone (tzdb has mixed-case abbreviations: `ChST`; POSIX strings may use "
                   "any case), so Formatter::fmt_tzabbrev hands Extension::write_str a default case that is Case::AsIs unless a flag "
                   "asks for a mapping: the `default` argument is not the constant Case::Upper (or Lower) - that maps every "
                   "abbreviation although C's %Z, and TimeZoneOffsetInfo::abbreviation, give it verbatim")
    f = prog.fns.get("jiff::fmt::strtime::format::Formatter::<'f, 't, 'w, W>::fmt_tzabbrev")
    if f is None:
        rep.anchor_missing("fmt::strtime::format::Formatter::fmt_tzabbrev")
        return
    T = Terms(f)
    calls = [(bi, t) for bi, t in mir.iter_calls(f) if re.search(r"Extension>?::write_str", t.get("path", ""))]
    if not calls:
        rep.violation(rule, "%Z", "anchor missing: fmt_tzabbrev no longer calls Extension::write_str", f.loc())
        return
    for bi, t in calls:
        d = T.at_call(bi, t, 1)
        variants = sorted({a[2] for a in alts(d) if isinstance(a, tuple) and a and a[0] == "agg"})
        loc = "%s:%s" % (t["span"]["file"], t["span"]["line"])
        if "AsIs" in variants:
            rep.ok(rule, "%Z", how="default case is one of %s (AsIs without a flag)" % variants, loc=loc)
        else:
            rep.violation(rule, "%Z", "the default case handed to write_str is %s on every path: the abbreviation is case-mapped even "
                          "without a flag (Pacific/Guam prints CHST for ChST)" % (variants or show(d, maxd=3)), loc)


# ------------------------------------------------------------------------------------------------------------------
def minute_offset_print(rep, prog, rule="OFFSET-CIVIL"):
    """RFC 2822 text carries an offset to the minute and nothing else to recover the exact offset from"""
    from .guards import guards, strip_not
    rep.rule(rule, "rfc2822::DateTimePrinter::print_zoned hands print_civil_with_offset a civil datetime computed from the zoned "
                   "datetime's instant with the very offset it prints, and that offset is minute-rounded (Offset::round) - except "
                   "on the path that is taken for a negative year, which is an error. With the datetime and the exact offset of the "
                   "zoned datetime, a sub-minute offset (-00:44:30) prints a local time and a rounded offset (-0045) that are up to "
                   "30 s apart, so the text parses back to a different instant")
    f = prog.fns.get("jiff::fmt::rfc2822::DateTimePrinter::print_zoned")
    if f is None:
        rep.violation(rule, "print_zoned", "anchor missing: fmt::rfc2822::DateTimePrinter::print_zoned", "src/fmt/rfc2822.rs")
        return
    T = Terms(f)
    cfg = mir.CFG(f)
    strip = lambda t_: t_[1] if isinstance(t_, tuple) and t_ and t_[0] in ("ref", "deref") else t_
    n = 0
    for bi, t in mir.iter_calls(f):
        if not t.get("path", "").endswith("::print_civil_with_offset"):
            continue
        n += 1
        key = "print_zoned call#%d" % n
        loc = "%s:%s" % (t["span"]["file"], t["span"]["line"])
        neg_year = False
        for (c, truth, _sb) in guards(f, cfg, T, bi):
            c2, t2 = strip_not(c, truth)
            if isinstance(c2, tuple) and c2 and c2[0] == "bin" and c2[1] in ("Lt", "Ge") and c2[3] == ("const", 0) \
                    and any(isinstance(y, tuple) and y and y[0] == "call" and y[1].rsplit("::", 1)[-1] == "year" for y in walk(c2[2])) \
                    and ((c2[1] == "Lt") == (t2 is True)):
                neg_year = True
        if neg_year:
            rep.ok(rule, key, how="reached only for a negative year (the callee's error path)", loc=loc)
            continue
        dt, off = T.at_call(bi, t, 1), T.at_call(bi, t, 2)
        offs = [strip(y[2][0]) for y in walk(dt) if isinstance(y, tuple) and y and y[0] == "call" and y[1].endswith("Offset::to_datetime")]
        printed = None
        for y in walk(off):
            if isinstance(y, tuple) and y and y[0] == "agg" and y[2] == "Some":
                printed = strip(dict(y[3])["0"])
        rounded = printed is not None and any(isinstance(y, tuple) and y and y[0] == "call" and y[1].endswith("Offset::round") for y in walk(printed))
        if offs and printed is not None and all(o == printed for o in offs) and rounded:
            rep.ok(rule, key, how="civil time = to_datetime(minute-rounded offset, instant), the same offset is printed", loc=loc)
        else:
            rep.violation(rule, key, "the civil datetime is %s and the offset printed is %s (civil time from the printed offset: %s, "
                          "minute-rounded before use: %s): with a sub-minute offset the text denotes a different instant "
                          "(1970-01-01T00:00-00:44:30 prints `00:00:00 -0045`, which is 00:45:00Z)"
                          % (show(dt, maxd=3)[:70], show(printed, maxd=3)[:50] if printed is not None else "?",
                             bool(offs) and all(o == printed for o in offs), rounded), loc)
    rep.floor(rule + " calls", n, 1)


# ------------------------------------------------------------------------------------------------------------------
_UNITS6 = ("hours", "minutes", "seconds", "milliseconds", "microseconds", "nanoseconds")


def accumulate(rep, prog, rule="ACCUMULATE"):
    """a time unit of the span under construction may already hold what a bigger unit spilled into it"""
    rep.rule(rule, "the duration parsers accept a time unit above its limit and spill the excess into the smaller units "
                   "(fmt::util::fractional_time_to_span); therefore (1) wherever a parser stores a parsed time-unit value with "
                   "Span::try_units_ranged and can fall back to fractional_time_to_span for the same unit, the stored value "
                   "contains the unit's previous content (get_units_ranged of the same span), and (2) fractional_time_to_span "
                   "reads every unit it may write (get_<unit>_ranged of the span it was given) before it writes it: a value that "
                   "is written without being read first replaces what an earlier spill put there - `PT175307617H5M` lost an hour")
    n = 0
    # (1) the parsers' plain writes
    for name, g in sorted(prog.fns.items()):
        if not (name.startswith("jiff::fmt::friendly::parser") or name.startswith("jiff::fmt::temporal::parser")):
            continue
        calls = list(mir.iter_calls(g))
        fb = [(bi, t) for bi, t in calls if t.get("path", "").endswith("fmt::util::fractional_time_to_span")]
        ws = [(bi, t) for bi, t in calls if t.get("path", "").endswith("span::Span::try_units_ranged")]
        if not fb or not ws:
            continue
        T = Terms(g)
        cfg = mir.CFG(g)
        k = 0
        for (bi, t) in ws:
            unit = T.at_call(bi, t, 1)
            same = [(bj, u) for bj, u in fb if T.at_call(bj, u, 0) == unit and bj in cfg.reachable_from(bi)]
            if not same:
                continue        # no over-limit fallback for this write (calendar units): nothing can have been spilled
            n += 1
            k += 1
            key = "%s | try_units_ranged#%d" % (name.replace("jiff::", ""), k)
            loc = "%s:%s" % (t["span"]["file"], t["span"]["line"])
            v = T.at_call(bi, t, 2)
            from .term import inline_helpers
            reads = [y for d_ in (0, 1) for y in walk(inline_helpers(v, prog, depth=d_))
                     if isinstance(y, tuple) and y and y[0] == "call" and y[1].endswith("::get_units_ranged")
                     and len(y[2]) >= 2 and y[2][1] == unit]
            if reads:
                rep.ok(rule, key, how="stores value + get_units_ranged(span, unit)", loc=loc)
            else:
                rep.violation(rule, key, "the value stored is %s: what a bigger, over-limit unit spilled into this unit is replaced "
                              "(the fallback to fractional_time_to_span at line %s shows that spilling happens here)"
                              % (show(v, maxd=2)[:60], same[0][1]["span"]["line"]), loc)
    # (2) the spiller itself
    g = prog.fns.get("jiff::fmt::util::fractional_time_to_span")
    if g is None:
        rep.violation(rule, "fractional_time_to_span", "anchor missing: fmt::util::fractional_time_to_span", "src/fmt/util.rs")
    else:
        T = Terms(g)
        cfg = mir.CFG(g)
        span_param = [i for i in range(1, (g.get("argc") or 0) + 1) if (g["locals"][i] or {}).get("n") == "span"]
        for u in _UNITS6:
            writes = [(bi, t) for bi, t in mir.iter_calls(g) if re.search(r"span::Span::(try_)?%s_ranged$" % u, t.get("path", ""))]
            if not writes:
                continue
            n += 1
            key = "fractional_time_to_span | %s" % u
            reads = [(bi, t) for bi, t in mir.iter_calls(g) if t.get("path", "").endswith("span::Span::get_%s_ranged" % u)
                     and any(isinstance(y, tuple) and y and y[0] == "param" and y[1] in span_param for y in walk(T.at_call(bi, t, 0)))]
            ok = bool(reads) and all(any(wb in cfg.reachable_from(rb) or wb == rb for rb, _ in reads) for wb, _ in writes)
            loc = "%s:%s" % (writes[0][1]["span"]["file"], writes[0][1]["span"]["line"])
            if ok:
                rep.ok(rule, key, how="reads get_%s_ranged(span) before writing the unit" % u, loc=loc)
            else:
                rep.violation(rule, key, "the %s of the span are written (line %s) but never read from the span that was passed in: "
                              "whatever an earlier spill stored there is dropped" % (u, writes[0][1]["span"]["line"]), loc)
    rep.floor(rule + " sites", n, 7)
