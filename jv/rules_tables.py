"""E4 table rules: dispatch tables extracted from SwitchInt terminators,
SPECIFIER-SET (strtime), bounded parser recursion."""
from . import mir

PARSE = "jiff::fmt::strtime::parse::Parser::<'f, 'i, 't>::parse"
FORMAT = "jiff::fmt::strtime::format::Formatter::<'f, 't, 'w, W>::format"


def const_bytes(o):
    """text of a `&str` / `b"..."` constant operand"""
    if o.get("o") != "c":
        return None
    if "s" in o:
        return o["s"]
    sym = o.get("sym", "")
    if sym.startswith('b"') and sym.endswith('"'):
        import ast
        try:
            return ast.literal_eval(sym).decode("latin-1")
        except Exception:
            return None
    return None


def dispatch_tables(f, min_arms=2):
    """All SwitchInt terminators of `f` on a u8 as {byte: first callee reached}."""
    out = []
    for bi, b in enumerate(f.blocks):
        t = b["term"]
        if t["t"] != "switch" or t.get("op_ty") != "u8" or len(t["vals"]) < min_arms:
            continue
        tab = {}
        for v, tg in zip(t["vals"], t["targets"]):
            x, hops = tg, 0
            while f.blocks[x]["term"]["t"] == "goto" and hops < 6:
                x = f.blocks[x]["term"]["to"]; hops += 1
            tt = f.blocks[x]["term"]
            tab[chr(v)] = tt.get("path", "?" + tt["t"])
        out.append((bi, tab))
    out.sort(key=lambda x: -len(x[1]))
    return out


def specifier_set(rep, prog, rule="SPECIFIER-SET"):
    rep.rule(rule, "the conversion bytes dispatched by strtime's Formatter::format and Parser::parse (main table and the `%:` / "
                   "`%.` sub-tables) are the same sets; the only specifier the parser rejects outright is %Z")
    fp, ff = prog.fns.get(PARSE), prog.fns.get(FORMAT)
    if fp is None or ff is None:
        rep.anchor_missing("strtime Parser::parse / Formatter::format")
        return None
    tp, tf = dispatch_tables(fp), dispatch_tables(ff)
    if not tp or not tf:
        rep.violation(rule, "main table", "no byte dispatch found in parse/format", fp.loc())
        return None
    mp, mf = tp[0][1], tf[0][1]
    if set(mp) == set(mf):
        rep.ok(rule, "main table", how="%d specifiers: %s" % (len(mp), "".join(sorted(mp))))
    else:
        rep.violation(rule, "main table", "format-only specifiers %s, parse-only specifiers %s"
                      % (sorted(set(mf) - set(mp)), sorted(set(mp) - set(mf))), fp.loc())
    rep.floor(rule + " specifiers", len(mp), 41)
    # handlers on the parse side that are not parse_* functions: rejected specifiers
    rejected = sorted(c for c, h in mp.items() if not h.split("::")[-1].startswith(("parse_", "bump_")))
    if rejected == ["Z"]:
        rep.ok(rule, "parse-side rejections", how="only %Z")
    else:
        rep.violation(rule, "parse-side rejections", "the parser has no handler for %s (expected only Z)" % rejected, fp.loc())
    # sub-tables (after ':' and '.'): compare the sets of the remaining dispatches pairwise by size order
    subs_p = [set(t) for _, t in tp[1:] if len(t) >= 1]
    subs_f = [set(t) for _, t in tf[1:] if len(t) >= 1]
    key = lambda s: "".join(sorted(s))
    if sorted(map(key, subs_p)) == sorted(map(key, subs_f)):
        rep.ok(rule, "sub-tables", how=str(sorted(map(key, subs_p))))
    else:
        rep.violation(rule, "sub-tables", "sub-dispatch sets differ: parse %s vs format %s"
                      % (sorted(map(key, subs_p)), sorted(map(key, subs_f))), fp.loc())
    return mp


def bounded_recursion(ctx, rep, rule="NO-RECURSION"):
    rep.rule(rule, "the call graph restricted to the parser modules is acyclic over direct calls, except strtime's composite "
                   "directives, which re-enter Parser::parse with a constant format whose directives are all non-composite "
                   "(recursion depth <= 2)")
    E = ctx.e1("Q")
    prog = E.prog
    files = ("src/fmt/", "src/shared/posix.rs", "src/shared/tzif.rs", "src/util/parse.rs", "src/tz/concatenated.rs", "src/tz/posix.rs")
    nodes = {k for k, f in prog.fns.items() if f.crate == "jiff" and f.file.startswith(files)}
    fp = prog.fns.get(PARSE)
    allowed_back = set()   # composite handlers allowed to call Parser::parse
    if fp is not None:
        tabs = dispatch_tables(fp)
        main = tabs[0][1] if tabs else {}
        handlers = {c: "jiff::" + h for c, h in main.items()}
        composite = {}
        for c, h in handlers.items():
            f = prog.fns.get(h)
            if f is None:
                continue
            if any(t.get("path", "") == PARSE[len("jiff::"):] for _, t in mir.iter_calls(f)):
                lits = []
                for b in f.blocks:
                    for s in b["st"]:
                        if s["s"] == "=":
                            for o in mir.rvalue_operands(s["rv"]):
                                lit = const_bytes(o)
                                if lit is not None and "%" in lit:
                                    lits.append(lit)
                composite[h] = lits
        comp_specs = {c for c, h in handlers.items() if h in composite}
        for h, lits in composite.items():
            ok = bool(lits)
            for lit in lits:
                specs = [lit[i + 1] for i in range(len(lit) - 1) if lit[i] == "%"]
                if any(s in comp_specs or s not in main for s in specs):
                    ok = False
            if ok:
                allowed_back.add(h)
                rep.ok(rule, "composite " + h.split("::")[-1], how="constant sub-format %s" % lits)
            else:
                rep.violation(rule, "composite " + h.split("::")[-1], "re-enters Parser::parse with a format that is not a "
                              "constant of non-composite directives: %s" % lits, prog.fns[h].loc())
    import sys
    sys.setrecursionlimit(20000)
    color, cyc = {}, []
    def dfs(u, stack):
        color[u] = 1
        for (v, kind, bb) in E.cg.edges.get(u, []):
            if v not in nodes or kind in ("implicit", "drop", "trait-approx"):
                continue
            if u in allowed_back and v == PARSE:
                continue
            if color.get(v) == 1:
                cyc.append(stack + [u, v])
            elif v not in color:
                dfs(v, stack + [u])
        color[u] = 2
    for u in sorted(nodes):
        if u not in color:
            dfs(u, [])
    if cyc:
        c = cyc[0]
        rep.violation(rule, "parser call graph", "recursive cycle among parser functions: %s" % " -> ".join(x.split("::")[-1] for x in c[-6:]),
                      prog.fns[c[-1]].loc())
    else:
        rep.ok(rule, "parser call graph", how="%d functions, acyclic (composite strtime directives excepted)" % len(nodes))
    rep.floor(rule + " functions", len(nodes), 500)
