"""Fact extraction front-end: runs jv-driver over /repo for a named
configuration and loads the JSON-lines facts into a Program object.

Every run uses a fresh cargo target directory, so cargo can never replay a
cached result; the loader asserts that the fact files were written by this run.
"""
import json, os, re, shutil, subprocess, sys, tempfile, time, hashlib

VERIF = os.path.dirname(os.path.dirname(os.path.abspath(__file__)))
REPO = os.environ.get("JV_REPO", "/repo")
DRIVER = os.path.join(VERIF, "driver/target/release/jv-driver")

# configuration id -> (cargo args, extra rustflags)
CONFIGS = {
    # the feature-unified set of the baseline test build
    "Q":  (["--lib", "--features", "serde,static"], ""),
    "T1": (["--lib", "--features", "serde,static"], "-C debug-assertions=off"),
    "T2a": (["--lib", "--no-default-features", "--features", "alloc"], ""),
    "T2b": (["--lib", "--no-default-features"], ""),
    "T3": (["--lib", "--features", "serde,static,tzdb-bundle-always,logging"], ""),
}

def _sysroot():
    return subprocess.check_output(["rustc", "+nightly", "--print", "sysroot"], text=True).strip()

def tree_hash():
    """sha256 over every file cargo could read from the working tree."""
    h = hashlib.sha256()
    for root, dirs, files in os.walk(REPO):
        dirs[:] = sorted(d for d in dirs if d not in (".git", "target"))
        for f in sorted(files):
            p = os.path.join(root, f)
            if not (f.endswith(".rs") or f.endswith(".toml") or f == "Cargo.lock"):
                continue
            h.update(p.encode()); h.update(b"\0")
            try:
                with open(p, "rb") as fh:
                    h.update(fh.read())
            except OSError:
                pass
    with open(DRIVER, "rb") as fh:
        h.update(fh.read())
    return h.hexdigest()

def run_driver(config, out_dir):
    if not os.path.exists(DRIVER):
        raise SystemExit("jv-driver is not built; run MANIFEST.setup_cmd first")
    args, flags = CONFIGS[config]
    os.makedirs(out_dir, exist_ok=True)
    for f in os.listdir(out_dir):
        if f.endswith(".jsonl"):
            os.unlink(os.path.join(out_dir, f))
    tgt = tempfile.mkdtemp(prefix="jv-target-")
    env = dict(os.environ)
    env.update({
        "JV_OUT": out_dir,
        "LD_LIBRARY_PATH": _sysroot() + "/lib",
        "RUSTFLAGS": "-Zmir-opt-level=0 -Awarnings " + flags,
        "RUSTC_WORKSPACE_WRAPPER": DRIVER,
        "CARGO_NET_OFFLINE": "true",
        "CARGO_TARGET_DIR": tgt,
    })
    env.pop("RUSTC_WRAPPER", None)
    t0 = time.time()
    try:
        p = subprocess.run(["cargo", "+nightly", "check", "--offline"] + args,
                           cwd=REPO, env=env, stdout=subprocess.PIPE,
                           stderr=subprocess.STDOUT, text=True)
    finally:
        shutil.rmtree(tgt, ignore_errors=True)
    if p.returncode != 0:
        sys.stderr.write(p.stdout[-6000:])
        raise BuildFailed("cargo check failed for configuration %s" % config)
    return time.time() - t0

_ALLOC_ROOT = re.compile(r'(?<![\w:])alloc::')


class BuildFailed(Exception):
    pass

class Fn:
    __slots__ = ("r", "crate", "path", "key", "blocks", "_preds", "_dom")
    def __init__(self, crate, r):
        self.r = r; self.crate = crate; self.path = r["path"]
        self.key = crate + "::" + r["path"]
        self.blocks = r["blocks"]; self._preds = None; self._dom = None
    def __getitem__(self, k): return self.r[k]
    def get(self, k, d=None): return self.r.get(k, d)
    @property
    def file(self): return self.r["span"]["file"]
    @property
    def line(self): return self.r["span"]["line"]
    @property
    def is_closure(self): return self.r["kind"] == "Closure"
    def loc(self): return "%s:%s" % (self.file, self.line)

class Program:
    """All facts of one configuration."""
    def __init__(self, config, out_dir, started):
        self.config = config
        self.crates = {}
        self.fns = {}        # key (crate::path) -> Fn
        self.by_path = {}    # (crate, path) -> Fn
        self.adts = {}
        self.consts = {}
        self.impls = []
        self.aliases = {}
        files = sorted(f for f in os.listdir(out_dir) if f.endswith(".jsonl"))
        if not files:
            raise BuildFailed("no fact files written")
        for f in files:
            p = os.path.join(out_dir, f)
            if os.path.getmtime(p) < started - 1:
                raise BuildFailed("stale fact file " + p)
            with open(p) as fh:
                crate = None
                for line in fh:
                    # no_std+alloc builds name the same items through `alloc::`; rules are written against `std::`
                    if "alloc::" in line:
                        line = _ALLOC_ROOT.sub("std::", line)
                    r = json.loads(line)
                    k = r["k"]
                    if k == "crate":
                        crate = r["name"]; self.crates[crate] = r
                    elif k == "fn":
                        fn = Fn(crate, r)
                        self.fns[fn.key] = fn
                    elif k == "adt":
                        self.adts[crate + "::" + r["path"]] = r
                    elif k == "const":
                        self.consts[crate + "::" + r["path"]] = r
                    elif k == "alias":
                        self.aliases[crate + "::" + r["path"]] = r
                    elif k == "impl":
                        r["crate"] = crate; self.impls.append(r)
        if "jiff" not in self.crates and config != "controls":
            raise BuildFailed("crate jiff was not analysed")

    def fn(self, key):
        return self.fns.get(key)

    def jiff(self, path):
        f = self.fns.get("jiff::" + path)
        if f is None:
            raise AnchorMissing("function jiff::%s not found" % path)
        return f

    def find(self, crate, pred):
        return [f for f in self.fns.values() if f.crate == crate and pred(f)]

class AnchorMissing(Exception):
    pass

def load_controls():
    """facts of the committed control crate (fixtures/controls.jsonl, regenerated by tools/gen_controls.sh): tiny positive and
    negative examples for rules whose expected number of instances on the repository is zero"""
    import tempfile
    src = os.path.join(VERIF, "fixtures", "controls.jsonl")
    d = tempfile.mkdtemp(prefix="jv-controls-")
    try:
        shutil.copy(src, os.path.join(d, "controls.lib.jsonl"))
        return Program("controls", d, 0)
    finally:
        shutil.rmtree(d, ignore_errors=True)


_cache = {}
def load(config="Q"):
    if config in _cache:
        return _cache[config]
    base = os.path.join(VERIF, "out", "facts")
    use_cache = os.environ.get("JV_CACHE") == "1"
    started = time.time()
    if use_cache:
        out_dir = os.path.join(base, config + "-" + tree_hash()[:16])
        if not (os.path.isdir(out_dir) and any(f.endswith(".jsonl") for f in os.listdir(out_dir))):
            run_driver(config, out_dir)
        started = 0
    else:
        out_dir = os.path.join(base, config + "-%d" % os.getpid())
        try:
            run_driver(config, out_dir)
        except BaseException:
            shutil.rmtree(out_dir, ignore_errors=True)
            raise
    try:
        prog = Program(config, out_dir, started)
    finally:
        if not use_cache:
            shutil.rmtree(out_dir, ignore_errors=True)
    _cache[config] = prog
    return prog
