"""min/max number of matching call terminators along feasible paths."""
import sys


def count_on_paths(an, match):
    """an: a finished Analyzer. Returns (min, max) number of blocks whose
    terminator satisfies `match` over all feasible entry->return paths
    (max = None if such a block lies on a feasible cycle). Paths that end in
    a diverging block (no feasible successor, not a return) are ignored."""
    fn = an.fn
    INF = float("inf")
    memo = {}
    onstack = set()
    cyc = [False]

    def rec(b):
        if b in memo:
            return memo[b]
        if b in onstack:
            cyc[0] = True
            return None
        onstack.add(b)
        t = fn.blocks[b]["term"]
        w = 1 if match(b, t) else 0
        res = None
        if t["t"] == "return":
            res = (w, w)
        else:
            lo, hi = INF, -1
            for s in sorted(an.fedges.get(b, ())):
                r = rec(s)
                if r is None:
                    continue
                lo = min(lo, r[0]); hi = max(hi, r[1])
            if hi >= 0:
                res = (lo + w, hi + w)
        onstack.discard(b)
        memo[b] = res
        return res

    old = sys.getrecursionlimit()
    sys.setrecursionlimit(max(old, 10000))
    try:
        r = rec(0)
    finally:
        sys.setrecursionlimit(old)
    if r is None:
        return None
    if cyc[0]:
        # a feasible cycle exists; only trust the result if no matching block is in a cycle
        return (r[0], None)
    return r
