"""E9 - field-sensitive may-dependence analysis (data + control), inter-procedural by summaries.

For a function F the engine answers: on which (parameter, field path) sources may each *alternative* of the
returned value depend?  An alternative is one block that assigns the return place `_0`; its dependences are the
data dependences of the assigned value plus the control dependences of that block (the branch conditions that
decide whether it executes).

The analysis over-approximates dependence (unknown callees depend on all their arguments, writes through
references are weak, control dependence is transitive).  It is used only for rules of the form "output X MUST
depend on input Y": if Y is not even in the may-dependence set, no execution of F can make X vary with Y, so a
specification under which X does vary with Y is violated.  Over-approximation therefore costs detections, never
false alarms (the rule is silent on code whose output really depends on Y).

Sources are tuples ("p", param_index, path) with `path` a tuple of field names truncated to MAXD; `param_index`
is the MIR local of the parameter (1-based; closures' captured environment is parameter 1).
"""
from . import mir

MAXD = 3
WRAPPERS = ("core::option::Option", "core::result::Result", "core::ops::ControlFlow", "core::mem::ManuallyDrop",
            "std::boxed::Box", "std::sync::Arc", "core::cell::Cell")
ERR_CALLS = ("::from_residual",)


def _path_of(place):
    """field-name path of a place projection; derefs, downcasts, indices and wrapper payload fields are transparent"""
    out = []
    for e in place.get("p", []) or []:
        if isinstance(e, dict) and "f" in e:
            if e.get("adt") in WRAPPERS:
                continue
            out.append(e.get("n") or str(e["f"]))
    return tuple(out)


def _has_deref(place):
    return any(e == "*" for e in place.get("p", []) or [])


def _index_locals(place):
    return [e["i"] for e in place.get("p", []) or [] if isinstance(e, dict) and "i" in e]


class State:
    __slots__ = ("d", "refs", "mut", "clos")

    def __init__(self, d=None, refs=None, mut=None, clos=None):
        self.d = d if d is not None else {}          # (local, path) -> frozenset(sources)
        self.refs = refs if refs is not None else {}  # (local, path) -> frozenset((target local, target path)): aliases
        self.mut = mut if mut is not None else set()  # (local, path) holding a `&mut` reference
        self.clos = clos if clos is not None else {}  # local -> closure def key

    def copy(self):
        return State(dict(self.d), dict(self.refs), set(self.mut), dict(self.clos))

    def same(self, o):
        return self.d == o.d and self.refs == o.refs and self.mut == o.mut and self.clos == o.clos

    def join(self, o):
        ch = False
        INIT = frozenset([("init",)])
        for k, v in o.d.items():
            c = self.d.get(k)
            if c is None:
                # missing on this side = "whatever a shorter prefix / the initial value gives"
                self.d[k] = v | INIT
                ch = True
            elif not v <= c:
                self.d[k] = c | v
                ch = True
        for k in list(self.d):
            if k not in o.d and ("init",) not in self.d[k]:
                self.d[k] = self.d[k] | INIT
                ch = True
        for k, v in o.refs.items():
            c = self.refs.get(k)
            if c is None:
                self.refs[k] = v; ch = True
            elif not v <= c:
                self.refs[k] = c | v; ch = True
        if not o.mut <= self.mut:
            self.mut |= o.mut; ch = True
        for k, v in o.clos.items():
            if k not in self.clos:
                self.clos[k] = v; ch = True
        return ch


def _bare(op):
    return op is not None and op.get("o") != "c" and "l" in op and not op.get("p")


class FnDeps:
    def __init__(self, fn, eng):
        self.fn = fn
        self.eng = eng
        self.cfg = mir.CFG(fn)
        self.argc = fn.get("argc") or 0
        self.n = len(fn.blocks)
        self._pdom_ready = False
        self.out_state = {}
        self.in_state = {}
        self.done = False

    # ---------------------------------------------------------------- reading and writing places
    def _init_src(self, l, path):
        """initial value of a parameter: a whole struct is the set of its fields (to depth MAXD), so that later
        "must depend on field f" questions are not answered by a blanket whole-parameter source"""
        if not (1 <= l <= self.argc):
            return frozenset()
        path = tuple(path[:MAXD])
        out = set()
        ty = self.eng.type_at((self.fn["locals"][l] or {}).get("ty", ""), path)

        def expand(p, t):
            fs = self.eng.fields_of(t) if len(p) < MAXD else None
            if not fs:
                out.add(("p", l, p))
                return
            for (fname, fty) in fs:
                expand(p + (fname,), fty)
        expand(path, ty)
        return frozenset(out)

    def targets(self, st, l, path):
        """alias targets of the value at (l, path): [(target local, target path)]"""
        out = []
        for i in range(len(path), -1, -1):
            r = st.refs.get((l, path[:i]))
            if r:
                out += [(tl, tp + tuple(path[i:])) for (tl, tp) in r]
        return out

    def read(self, st, l, path, seen=None):
        """dependences of the value stored at (l, path)"""
        path = tuple(path)
        res = set()
        tg = self.targets(st, l, path)
        if tg:
            seen = seen if seen is not None else set()
            for (tl, tp) in tg:
                if (tl, tp) in seen or len(seen) > 16:
                    continue
                seen.add((tl, tp))
                res |= self.read(st, tl, tp, seen)
        init_needed = True
        for i in range(len(path), -1, -1):
            v = st.d.get((l, path[:i]))
            if v is not None:
                res |= v
                if ("init",) not in v:
                    init_needed = False
                    break
        for (kl, kp), v in st.d.items():
            if kl == l and len(kp) > len(path) and kp[:len(path)] == path:
                res |= v
        for (kl, kp), v in list(st.refs.items()):
            if kl == l and len(kp) > len(path) and kp[:len(path)] == path:
                seen = seen if seen is not None else set()
                for (tl, tp) in v:
                    if (tl, tp) not in seen and len(seen) <= 16:
                        seen.add((tl, tp))
                        res |= self.read(st, tl, tp, seen)
        if init_needed:
            res |= self._init_src(l, path)
        res.discard(("init",))
        return frozenset(res)

    def read_place(self, st, place):
        res = set(self.read(st, place["l"], _path_of(place)))
        for il in _index_locals(place):
            res |= self.read(st, il, ())
        return frozenset(res)

    def read_op(self, st, op):
        if op is None or op.get("o") == "c" or "l" not in op:
            return frozenset()
        return self.read_place(st, op)

    def _clear(self, st, l, path):
        for k in [k for k in st.d if k[0] == l and k[1][:len(path)] == path]:
            del st.d[k]
        for k in [k for k in st.refs if k[0] == l and k[1][:len(path)] == path]:
            del st.refs[k]
        for k in [k for k in st.mut if k[0] == l and k[1][:len(path)] == path]:
            st.mut.discard(k)
        if not path:
            st.clos.pop(l, None)

    def write(self, st, place, deps):
        l = place["l"]
        path = _path_of(place)
        deps = frozenset(deps)
        if _has_deref(place):
            # through a pointer: weak update of every possible referent and of the pointer's own summary
            for (tl, tp) in self.targets(st, l, ()):
                self._weak(st, tl, tp + path, deps)
            self._weak(st, l, path, deps)
            return
        self._clear(st, l, path)
        st.d[(l, path)] = deps

    def _weak(self, st, l, path, deps):
        path = tuple(path)
        cur = st.d.get((l, path))
        if cur is None:
            st.d[(l, path)] = frozenset(deps) | frozenset([("init",)])
        else:
            st.d[(l, path)] = cur | deps

    # ---------------------------------------------------------------- transfer
    def rvalue(self, st, rv):
        k = rv["k"]
        if k in ("use", "cast", "un", "repeat"):
            return self.read_op(st, rv["a"])
        if k == "bin":
            return self.read_op(st, rv["a"]) | self.read_op(st, rv["b"])
        if k in ("disc", "len", "ref", "rawptr"):
            return self.read_place(st, rv["place"]) if "place" in rv else frozenset()
        if k == "agg":
            r = set()
            for o in rv["ops"]:
                r |= self.read_op(st, o)
            return frozenset(r)
        return frozenset()

    def _copy_into(self, st, dl, dpath, op, ctrl):
        """(dl, dpath) := value of operand `op`, keeping field structure and aliases"""
        if op.get("o") == "c" or "l" not in op:
            st.d[(dl, dpath)] = frozenset(ctrl)
            return
        if _index_locals(op):
            st.d[(dl, dpath)] = self.read_op(st, op) | ctrl
            return
        sl, sp = op["l"], _path_of(op)
        if _has_deref(op):
            # value read through a pointer: resolve the pointer's targets
            tg = self.targets(st, sl, ())
            st.d[(dl, dpath)] = frozenset(ctrl)
            st.refs[(dl, dpath)] = frozenset((tl, tp + sp) for (tl, tp) in tg) if tg else frozenset([(sl, sp)])
            return
        base = frozenset()
        need_init = True
        for i in range(len(sp), -1, -1):
            v = st.d.get((sl, sp[:i]))
            if v is not None:
                base |= v
                if ("init",) not in v:
                    need_init = False
                    break
        finer = [(kp[len(sp):], v) for (kl, kp), v in st.d.items() if kl == sl and len(kp) > len(sp) and kp[:len(sp)] == sp]
        frefs = [(kp[len(sp):], v) for (kl, kp), v in st.refs.items() if kl == sl and len(kp) >= len(sp) and kp[:len(sp)] == sp]
        fmut = [kp[len(sp):] for (kl, kp) in st.mut if kl == sl and len(kp) >= len(sp) and kp[:len(sp)] == sp]
        outer = self.targets(st, sl, sp) if not any(kp == () for kp, _ in frefs) else []
        st.d[(dl, dpath)] = (base - frozenset([("init",)])) | ctrl
        for kp, v in finer:
            st.d[(dl, dpath + kp)] = v | ctrl
        al = frozenset()
        if need_init and 1 <= sl <= self.argc:
            al |= frozenset([(sl, sp)])
        for kp, v in frefs:
            if kp == ():
                al |= v
            else:
                st.refs[(dl, dpath + kp)] = v
        if outer:
            al |= frozenset(outer)
        if al and not (dl == sl and dpath == sp):
            st.refs[(dl, dpath)] = al
        for kp in fmut:
            st.mut.add((dl, dpath + kp))
        if sl in st.clos and not sp and not dpath:
            st.clos[dl] = st.clos[sl]

    def transfer_stmt(self, st, s, ctrl):
        if s["s"] != "=":
            return
        lhs, rv = s["lhs"], s["rv"]
        k = rv["k"]
        whole = not lhs.get("p")
        if k == "agg" and whole and rv.get("adt") not in WRAPPERS and (rv.get("fields") or rv.get("agg") in ("closure", "tuple")):
            names = rv.get("fields") or [str(i) for i in range(len(rv["ops"]))]
            self._clear(st, lhs["l"], ())
            st.d[(lhs["l"], ())] = frozenset(ctrl)
            for fname, op in zip(names, rv["ops"]):
                self._copy_into(st, lhs["l"], (fname,), op, ctrl)
            if rv.get("agg") == "closure":
                st.clos[lhs["l"]] = rv.get("closure")
            return
        if k == "agg" and whole and rv.get("adt") in WRAPPERS and len(rv["ops"]) == 1:
            self._clear(st, lhs["l"], ())
            self._copy_into(st, lhs["l"], (), rv["ops"][0], ctrl)
            return
        if k == "use" and not _has_deref(lhs):
            l, p = lhs["l"], _path_of(lhs)
            self._clear(st, l, p)
            self._copy_into(st, l, p, rv["a"], ctrl)
            return
        deps = self.rvalue(st, rv) | ctrl
        if k in ("ref", "rawptr") and not _has_deref(lhs):
            deps = frozenset(ctrl) | frozenset().union(*[self.read(st, il, ()) for il in _index_locals(rv["place"])]) \
                if not _index_locals(rv["place"]) or True else deps   # the pointee is reached through the alias below
        self.write(st, lhs, deps)
        if k in ("ref", "rawptr") and not _has_deref(lhs):
            pl = rv["place"]
            key = (lhs["l"], _path_of(lhs))
            if _has_deref(pl):
                # derefs are transparent in this model: a pointer-typed local stands for its pointee
                tg = self.targets(st, pl["l"], ())
                tgt = frozenset((tl, tp + _path_of(pl)) for (tl, tp) in tg) if tg else frozenset([(pl["l"], _path_of(pl))])
            else:
                tgt = frozenset([(pl["l"], _path_of(pl))])
            if tgt:
                st.refs[key] = tgt
            if rv.get("mut") or (_has_deref(pl) and (pl["l"], ()) in st.mut):
                st.mut.add(key)
        elif k == "cast" and _bare(rv["a"]) and not _has_deref(lhs):
            tg = self.targets(st, rv["a"]["l"], ())
            if tg:
                st.refs[(lhs["l"], _path_of(lhs))] = frozenset(tg)

    def _closure_apply(self, st, clocal, other):
        """dependences of calling the closure stored in local `clocal` with arguments depending on `other`"""
        key = st.clos.get(clocal)
        if key is None:
            return None
        crate = self.fn.crate
        summ = self.eng.summary(crate + "::" + key)
        if summ is None:
            return None
        out = set()
        for s_ in summ.get((), ()):
            if s_[0] == "p" and s_[1] == 1:
                out |= self.read(st, clocal, tuple(s_[2]))
            elif s_[0] == "p":
                out |= other
            else:
                out.add(s_)
        return frozenset(out)

    def call(self, st, t, ctrl):
        args = t.get("args", [])
        dest = t.get("dest")
        summ = None
        if t.get("resolved") and t.get("rkrate"):
            summ = self.eng.summary(t["rkrate"] + "::" + t.get("path", ""))
        clos_args = [a for a in args if _bare(a) and a["l"] in st.clos]
        plain = frozenset().union(*[self.read_op(st, a) for a in args if a not in clos_args]) if args else frozenset()
        if summ is None:
            res = set(plain)
            for a in clos_args:
                r = self._closure_apply(st, a["l"], plain)
                res |= r if r is not None else self.read_op(st, a)
            res = frozenset(res)
        else:
            res = None
        allargs = res if res is not None else frozenset().union(*[self.read_op(st, a) for a in args]) if args else frozenset()
        # writes through mutable references handed to the callee (also those captured by a closure argument): with a
        # summary, exactly what the callee may write through that parameter; otherwise anything derived from the arguments
        def _subst0(srcs):
            out = set()
            for s_ in srcs:
                if s_[0] == "p":
                    i = s_[1] - 1
                    if 0 <= i < len(args) and args[i].get("o") != "c" and "l" in args[i]:
                        out |= self.read(st, args[i]["l"], _path_of(args[i]) + tuple(s_[2]))
                else:
                    out.add(s_)
            return frozenset(out)
        for (ml, mp) in list(st.mut):
            idxs = [i for i, a in enumerate(args) if _bare(a) and a["l"] == ml]
            if idxs:
                w = allargs
                if summ is not None and not mp and ("@", idxs[0] + 1) in summ:
                    w = _subst0(summ[("@", idxs[0] + 1)])
                # the referent may itself hold `&mut` references (a writer wrapper around the caller's writer): what is
                # written "through" it may land in those referents too
                todo = list(self.targets(st, ml, mp))
                seen_t = set()
                while todo and len(seen_t) < 12:
                    (tl, tp) = todo.pop()
                    if (tl, tp) in seen_t:
                        continue
                    seen_t.add((tl, tp))
                    self._weak(st, tl, tp, w | ctrl)
                    for nxt in self.targets(st, tl, tp):
                        if nxt not in seen_t:
                            todo.append(nxt)
        if dest is None:
            return
        if summ is None:
            self.write(st, dest, res | ctrl)
            # a returned reference may point into any referenced argument
            if not _has_deref(dest):
                r = []
                for a in args:
                    if _bare(a):
                        r += self.targets(st, a["l"], ())
                if r and str(t.get("dest_ty", "")).lstrip().startswith("&"):
                    st.refs[(dest["l"], _path_of(dest))] = frozenset(r)
                self._returned_mut(st, args, dest)
            return

        def subst(srcs):
            out = set()
            for s_ in srcs:
                if s_[0] == "p":
                    i = s_[1] - 1
                    if 0 <= i < len(args):
                        a = args[i]
                        if a.get("o") != "c" and "l" in a:
                            out |= self.read(st, a["l"], _path_of(a) + tuple(s_[2]))
                            for il in _index_locals(a):
                                out |= self.read(st, il, ())
                else:
                    out.add(s_)
            return frozenset(out)

        self.write(st, dest, subst(summ.get((), frozenset())) | ctrl)
        if not _has_deref(dest):
            base = _path_of(dest)
            for op_, srcs in summ.items():
                if op_ != () and op_[:1] != ("@",):
                    st.d[(dest["l"], base + op_)] = subst(srcs) | ctrl
            self._returned_mut(st, args, dest)

    def _returned_mut(self, st, args, dest):
        """a value built from a `&mut` argument may hold that reference (e.g. a writer wrapper): writes through the
        result reach the argument's referent"""
        tg = []
        for a in args:
            if _bare(a) and any(k[0] == a["l"] for k in st.mut):
                tg += self.targets(st, a["l"], ())
        if tg:
            key = (dest["l"], _path_of(dest))
            st.refs[key] = st.refs.get(key, frozenset()) | frozenset(tg)
            st.mut.add(key)

    # ---------------------------------------------------------------- control dependence
    def _postdom(self):
        if self._pdom_ready:
            return
        n = self.n
        exits = [i for i, b in enumerate(self.fn.blocks) if b["term"]["t"] == "return"]
        EXIT = n
        succ = [list(s) for s in self.cfg.succ] + [[]]
        for e in exits:
            succ[e] = succ[e] + [EXIT]
        pred = [[] for _ in range(n + 1)]
        for u, ss in enumerate(succ):
            for v in ss:
                pred[v].append(u)
        # nodes that can reach EXIT
        reach = {EXIT}
        stack = [EXIT]
        while stack:
            v = stack.pop()
            for u in pred[v]:
                if u not in reach:
                    reach.add(u); stack.append(u)
        # iterative postdominator sets (functions are small)
        order = []
        seen = {EXIT}
        stk = [(EXIT, iter(pred[EXIT]))]
        while stk:
            node, it = stk[-1]
            adv = False
            for u in it:
                if u not in seen and u in reach:
                    seen.add(u); stk.append((u, iter(pred[u]))); adv = True; break
            if not adv:
                order.append(node); stk.pop()
        rpo = list(reversed(order))
        idx = {b: i for i, b in enumerate(rpo)}
        ipdom = {EXIT: EXIT}
        changed = True
        while changed:
            changed = False
            for b in rpo[1:]:
                new = None
                for s in succ[b]:
                    if s in ipdom and s in reach:
                        if new is None:
                            new = s
                        else:
                            a, c = s, new
                            while a != c:
                                while idx[a] > idx[c]:
                                    a = ipdom[a]
                                while idx[c] > idx[a]:
                                    c = ipdom[c]
                            new = a
                if new is not None and ipdom.get(b) != new:
                    ipdom[b] = new; changed = True
        self.ipdom = ipdom
        self.reach_exit = reach
        # control dependence: for each branch block S with successors X: every node on the ipdom chain from X up to
        # (excluding) ipdom(S) is control dependent on S
        cd = {i: set() for i in range(n)}
        for s_ in range(n):
            ss = [x for x in succ[s_] if x in reach and x != EXIT or x == EXIT]
            if len(set(succ[s_])) < 2 or s_ not in ipdom:
                continue
            stop = ipdom[s_]
            for x in set(succ[s_]):
                if x not in ipdom:
                    continue
                y = x
                while y != stop and y != EXIT:
                    cd[y].add(s_)
                    y = ipdom.get(y, EXIT)
        # transitive closure
        changed = True
        while changed:
            changed = False
            for b in range(n):
                add = set()
                for s_ in cd[b]:
                    add |= cd[s_]
                if not add <= cd[b]:
                    cd[b] |= add; changed = True
        self.cd = cd
        self._pdom_ready = True

    def ctrl(self, bi):
        """dependences of the branch conditions that decide whether block bi executes"""
        self._postdom()
        res = set()
        for s_ in self.cd.get(bi, ()):
            st = self.out_state.get(s_)
            t = self.fn.blocks[s_]["term"]
            if st is None or t["t"] != "switch":
                continue
            res |= self.read_op(st, t["op"])
        return frozenset(res)

    # ---------------------------------------------------------------- fixpoint
    def run(self):
        if self.done:
            return self
        self.done = True
        self._postdom()
        fn = self.fn
        st0 = State()
        for l in self._out_param_locals():
            # a `&mut`/writer parameter stands for the storage it points to; handing it on lets the callee write it
            st0.mut.add((l, ()))
            st0.refs[(l, ())] = frozenset([(l, ())])
        self.in_state = {0: st0}
        work = [0]
        iters = 0
        # control deps feed back into data deps: iterate the whole thing until stable (bounded)
        for _round in range(6):
            changed_any = False
            work = sorted(self.in_state.keys())
            inq = set(work)
            while work:
                iters += 1
                if iters > 20000:
                    break
                bi = work.pop(0)
                inq.discard(bi)
                st = self.in_state[bi].copy()
                c = self.ctrl(bi)
                b = fn.blocks[bi]
                for s in b["st"]:
                    self.transfer_stmt(st, s, c)
                t = b["term"]
                if t["t"] == "call":
                    self.call(st, t, c)
                prev = self.out_state.get(bi)
                if prev is None or not prev.same(st):
                    changed_any = True
                self.out_state[bi] = st
                for sx in self.cfg.succ[bi]:
                    cur = self.in_state.get(sx)
                    if cur is None:
                        self.in_state[sx] = st.copy()
                        ch = True
                    else:
                        ch = cur.join(st)
                    if ch and sx not in inq:
                        inq.add(sx); work.append(sx)
            if not changed_any:
                break
        return self

    # ---------------------------------------------------------------- results
    def alternatives(self, out_paths=((),)):
        """[(block, kind, {out_path: deps}, line)] - one per block that assigns the return place"""
        self.run()
        alts = []
        for bi, b in enumerate(self.fn.blocks):
            if bi not in self.out_state or bi not in self.reach_exit:
                continue
            kind = None
            line = None
            for s in b["st"]:
                if s["s"] == "=" and s["lhs"]["l"] == 0:
                    rv = s["rv"]
                    line = s.get("ln")
                    if rv["k"] == "agg" and rv.get("adt") in ("core::result::Result", "core::option::Option", "core::ops::ControlFlow"):
                        kind = {"Err": "err", "None": "none", "Break": "err"}.get(rv.get("variant"), "ok")
                    else:
                        kind = kind or "value"
            t = b["term"]
            if t["t"] == "call" and t.get("dest") is not None and t["dest"]["l"] == 0:
                line = (t.get("span") or {}).get("line")
                p = t.get("path", "")
                kind = "err" if p.endswith("::from_residual") or "FromResidual" in p else "call:" + p
            if kind is None:
                continue
            st = self.out_state[bi]
            c = self.ctrl(bi)
            alts.append((bi, kind, {op: self.read(st, 0, op) | c for op in out_paths}, line, c))
        return alts

    def _out_param_locals(self):
        out = []
        for l in range(1, self.argc + 1):
            ty = (self.fn["locals"][l] or {}).get("ty", "")
            generic = ty.isidentifier() and ty[:1].isupper() and len(ty) <= 3     # `mut wtr: W` with W: Write
            if ty.startswith("&mut") or (ty.startswith("&") and " mut " in ty[:24]) or generic:
                out.append(l)
        return out

    def out_params(self):
        """{param local: deps} for every `&mut` parameter: what the callee may have written through it, joined over
        all return blocks (the parameter's own initial content is not reported)"""
        self.run()
        res = {}
        for l in self._out_param_locals():
            acc = set()
            for bi, b in enumerate(self.fn.blocks):
                if b["term"]["t"] == "return" and bi in self.out_state:
                    acc |= self.read(self.out_state[bi], l, ())
            res[l] = frozenset(x for x in acc if not (x[0] == "p" and x[1] == l))
        return res

    def out_param_path(self, l, path):
        """what may have been written through field `path` of the `&mut` parameter l (e.g. the writer held by a formatter
        struct), joined over all return blocks; the field's own initial content is not reported"""
        self.run()
        path = tuple(path)
        acc = set()
        for bi, b in enumerate(self.fn.blocks):
            if b["term"]["t"] == "return" and bi in self.out_state:
                acc |= self.read(self.out_state[bi], l, path)
        return frozenset(x for x in acc if not (x[0] == "p" and x[1] == l and tuple(x[2][:len(path)]) == path))

    def summary(self, out_paths):
        res = {op: set() for op in out_paths}
        for (_bi, _kind, deps, _ln, _c) in self.alternatives(out_paths):
            for op, d in deps.items():
                res[op] |= d
        out = {op: frozenset(v) for op, v in res.items()}
        for l, d in self.out_params().items():
            out[("@", l)] = d          # what may be written through the `&mut` parameter l
        return out


class Engine:
    def __init__(self, prog):
        self.prog = prog
        self._fd = {}
        self._summ = {}
        self._active = set()
        self._fields = {}

    def fndeps(self, key):
        if key not in self._fd:
            fn = self.prog.fns.get(key)
            if fn is None or not fn.blocks:
                return None
            self._fd[key] = FnDeps(fn, self)
        return self._fd[key]

    @staticmethod
    def strip_ty(ty):
        """strip references and transparent wrappers: `&Option<Span>` -> `Span`"""
        ty = (ty or "").strip()
        for _ in range(6):
            if ty.startswith("&"):
                ty = ty[1:].strip()
                if ty.startswith("'"):
                    ty = ty.split(" ", 1)[1] if " " in ty else ty
                if ty.startswith("mut "):
                    ty = ty[4:].strip()
                continue
            hit = False
            for w in WRAPPERS:
                if ty.startswith(w + "<"):
                    inner = ty[len(w) + 1:-1]
                    depth = 0
                    for i, ch in enumerate(inner):
                        if ch == "<": depth += 1
                        elif ch == ">": depth -= 1
                        elif ch == "," and depth == 0:
                            inner = inner[:i]
                            break
                    ty = inner.strip()
                    hit = True
                    break
            if not hit:
                break
        return ty

    def fields_of(self, ty):
        """[(name, type)] for a single-variant local struct (None for enums, primitives, ranged integers, foreign types)"""
        ty = self.strip_ty(ty)
        base = ty.split("<")[0]
        if base.startswith("util::rangeint::") or not base:
            return None
        if base in self._fields:
            return self._fields[base]
        adt = self.prog.adts.get(base)
        if adt is None:
            for k, v in self.prog.adts.items():
                if k.endswith("::" + base) or k == base:
                    adt = v
                    break
        res = None
        if adt is not None:
            vs = adt.get("variants") or []
            if len(vs) == 1 and 1 <= len(vs[0].get("fields", [])) <= 24 and not adt.get("is_enum"):
                res = [(f["name"], f["ty"]) for f in vs[0]["fields"]]
        self._fields[base] = res
        return res

    def type_at(self, ty, path):
        for name in path:
            fs = self.fields_of(ty)
            if not fs:
                return ""
            nxt = [t for (n, t) in fs if n == name]
            if not nxt:
                return ""
            ty = nxt[0]
        return ty

    def out_paths(self, fn):
        """() plus the top-level field names of the returned struct (wrappers stripped)"""
        ty = (fn.get("locals") or [{}])[0].get("ty", "")
        fs = self.fields_of(ty)
        return tuple([()] + [(n,) for (n, _t) in (fs or [])])

    def summary(self, key):
        if key in self._summ:
            return self._summ[key]
        if key in self._active:
            return None     # recursion: caller falls back to "depends on all arguments"
        fd = self.fndeps(key)
        if fd is None:
            return None
        self._active.add(key)
        try:
            s = fd.summary(self.out_paths(fd.fn))
        finally:
            self._active.discard(key)
        self._summ[key] = s
        return s


def covers(deps, param, path):
    """does the dependence set mention (param, path), a prefix of it, or an extension of it?"""
    path = tuple(path)
    for s in deps:
        if s[0] == "p" and s[1] == param:
            sp = s[2]
            m = min(len(sp), len(path))
            if sp[:m] == path[:m]:
                return True
    return False
