"""Resolved call graph over the workspace facts (DESIGN.md section 3, E1 edges)."""
import re
from collections import defaultdict, deque

WORKSPACE = ("jiff", "jiff_static", "jiff_tzdb", "jiff_tzdb_platform")


def base_type(s):
    """`span::SpanArithmetic<'a>` -> `span::SpanArithmetic`; strips refs."""
    s = s.strip()
    while s.startswith("&"):
        s = s[1:].strip()
        if s.startswith("'"):
            s = s.split(" ", 1)[1] if " " in s else s
        if s.startswith("mut "):
            s = s[4:]
    i = s.find("<")
    return s if i < 0 else s[:i]


class CallGraph:
    def __init__(self, prog):
        self.prog = prog
        self.edges = defaultdict(list)    # caller key -> [(callee key, kind, bb)]
        self.redges = defaultdict(list)
        self.unresolved_sites = []        # (caller key, bb, term) with no candidate
        self.stats = defaultdict(int)
        self._index()
        self._build()

    def _index(self):
        p = self.prog
        self.closures_of = defaultdict(list)      # direct parent key -> closure keys
        self.by_trait_item = defaultdict(list)    # (crate, trait item path) -> fn keys
        for f in p.fns.values():
            if f.is_closure:
                self.closures_of[f.crate + "::" + f["direct_parent"]].append(f.key)
            ti = f.get("trait_item")
            if ti:
                self.by_trait_item[ti].append(f.key)

    def key_for(self, crate, t):
        rk = t.get("rkrate")
        path = t.get("path")
        if path is None:
            return None
        if rk == crate:
            return crate + "::" + path
        if rk in WORKSPACE:
            return path if path.startswith(rk + "::") else rk + "::" + path
        return None

    def _add(self, a, b, kind, bb):
        self.edges[a].append((b, kind, bb))
        self.redges[b].append((a, kind, bb))
        self.stats[kind] += 1

    def _impl_candidates(self, crate, t):
        """Over-approximate targets of a call the compiler could not resolve."""
        path = t.get("path") or ""
        orig_full = t.get("orig_full", "")
        out = []
        m = re.search(r" as core::convert::(Into|TryInto)<(.*)>>::(into|try_into)$", orig_full)
        if m:
            target = base_type(m.group(2))
            item = "core::convert::From::from" if m.group(1) == "Into" else "core::convert::TryFrom::try_from"
            for k in self.by_trait_item.get(item, []):
                f = self.prog.fns[k]
                if f.crate == crate and base_type(f.get("self_ty", "")) == target:
                    out.append(k)
            return out
        for k in self.by_trait_item.get(path, []):
            if self.prog.fns[k].crate == crate or not path.split("::")[0] in ("",):
                out.append(k)
        # a defaulted trait method body (local trait)
        k = crate + "::" + path
        if k in self.prog.fns:
            out.append(k)
        return out

    def _build(self):
        p = self.prog
        for f in p.fns.values():
            a = f.key
            for c in self.closures_of.get(a, []):
                self._add(a, c, "closure-def", -1)
            for bi, b in enumerate(f.blocks):
                # function items mentioned as values
                for s in b["st"]:
                    if s["s"] != "=":
                        continue
                    self._fn_consts(f, s["rv"], bi)
                t = b["term"]
                tt = t["t"]
                if tt == "call":
                    for arg in t["args"]:
                        if arg.get("o") == "c" and "fn_path" in arg:
                            self._fn_value(f, arg, bi)
                    for e in t.get("implicit", []):
                        self._add(a, self._local_key(f.crate, e), "implicit", bi)
                    if "indirect" in t:
                        self.stats["indirect-call"] += 1
                        continue
                    k = self.key_for(f.crate, t)
                    if t.get("resolved") and k is not None:
                        if k in p.fns:
                            self._add(a, k, "call", bi)
                        else:
                            self.stats["local-no-body"] += 1
                            self.unresolved_sites.append((a, bi, t))
                    elif not t.get("resolved"):
                        cands = self._impl_candidates(f.crate, t)
                        for c in cands:
                            self._add(a, c, "trait-approx", bi)
                        if not cands:
                            self.stats["unresolved-no-local-impl"] += 1
                elif tt == "drop":
                    for e in t.get("implicit", []):
                        self._add(a, self._local_key(f.crate, e), "drop", bi)

    def _local_key(self, crate, path):
        first = path.split("::")[0]
        if first in WORKSPACE and first != crate:
            return path
        return crate + "::" + path

    def _fn_value(self, f, c, bi):
        path = c["fn_path"]
        k = self._local_key(f.crate, path)
        if k in self.prog.fns:
            self._add(f.key, k, "fn-value", bi)

    def _fn_consts(self, f, rv, bi):
        from .mir import rvalue_operands
        for op in rvalue_operands(rv):
            if op.get("o") == "c" and "fn_path" in op:
                self._fn_value(f, op, bi)

    def reach(self, roots, skip=lambda k: False):
        """BFS; returns {key: (parent key, kind, bb)}."""
        parent = {}
        dq = deque()
        for r in roots:
            if r not in parent:
                parent[r] = None
                dq.append(r)
        while dq:
            a = dq.popleft()
            for (b, kind, bb) in self.edges.get(a, []):
                if b in parent or skip(b):
                    continue
                parent[b] = (a, kind, bb)
                dq.append(b)
        return parent

    def path_to(self, parent, k):
        out = []
        while k is not None:
            pr = parent.get(k)
            if pr is None:
                out.append((k, None, None))
                break
            out.append((k, pr[1], pr[2]))
            k = pr[0]
        return list(reversed(out))
