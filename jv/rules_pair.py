"""YM-PAIR: a (year, month) pair given to a calendar helper comes from one date.

`days_in_month(y, m)`, `month_add_one(y, m, ..)`, `saturate_day_in_month(y, m, ..)` answer a question about *one* month of
*one* year.  Code that handles two dates at once (the date difference kernel) keeps `year1/month1/..` and
`year2/month2/..` side by side; `days_in_month(year1, month2)` type-checks, is right whenever the two years have the same
leap status or the month is not February, and passes every test that does not borrow a day across a leap February.

The rule resolves, in the term of each argument, which date object the component was read from:

    year_ranged(D) / year(D) / D.year            -> D          (month likewise)
    (month_add_one(y, m, _)).0 / .1               -> owner of (y, m)  (the stepped pair is still one date's pair)
    value-preserving wrappers and +-const         -> owner of the operand
    a parameter named year / month                -> the caller's pair ("params")

and demands that the year and the month have the same owner.  Arguments whose owner cannot be resolved are reported as
undecided (never as violations).
"""
import re
from . import mir
from .term import Terms, walk, show, alts

PAIR_FNS = re.compile(r"(^|::)(days_in_month|month_add_one|saturate_day_in_month)$")
_WRAP = ("rfrom", "rinto", "from", "into", "new_unchecked", "get", "get_unchecked", "try_rfrom", "try_rinto", "unwrap", "new", "try_new",
         "unwrap_unchecked", "clone")
_YEAR = ("year_ranged", "year")
_MONTH = ("month_ranged", "month")


def owner(t, which, depth=0):
    """set of owners (hashable terms or the string 'params'); None = unresolved"""
    if not isinstance(t, tuple) or not t or depth > 12:
        return None
    k = t[0]
    if k == "param":
        return {"params"} if which in str(t[2]).lower() else None
    if k == "call":
        last = t[1].rsplit("::", 1)[-1]
        if last in (_YEAR if which == "year" else _MONTH) and len(t[2]) == 1:
            return {t[2][0]}
        if last in _WRAP and t[2]:
            return owner(t[2][0], which, depth + 1)
        if re.search(r"ops::(Add|Sub)<.*>>::(add|sub)$", t[1]) and len(t[2]) == 2:
            a, b = owner(t[2][0], which, depth + 1), owner(t[2][1], which, depth + 1)
            return a if a is not None else b
        return None
    if k == "field":
        if t[2] == which:
            return {t[1]}
        if t[2] in ("0", "1") and (which == "year") == (t[2] == "0"):
            inner = t[1]
            while isinstance(inner, tuple) and inner and ((inner[0] == "call" and inner[1].rsplit("::", 1)[-1] in _WRAP and inner[2])
                                                          or inner[0] in ("try", "variant")):
                inner = inner[2][0] if inner[0] == "call" else inner[1]
            if isinstance(inner, tuple) and inner and inner[0] == "call" and inner[1].endswith("month_add_one") and len(inner[2]) >= 2:
                y, m = owner(inner[2][0], "year", depth + 1), owner(inner[2][1], "month", depth + 1)
                if y is not None and y == m:
                    return y
                return None
        if t[2] in ("val", "min", "max", "0"):
            return owner(t[1], which, depth + 1)
        return None
    if k in ("try", "cast", "variant"):
        return owner(t[1], which, depth + 1)
    if k == "bin" and t[1] in ("Add", "Sub", "AddWithOverflow", "SubWithOverflow", "AddUnchecked", "SubUnchecked"):
        a, b = t[2], t[3]
        if isinstance(b, tuple) and b and b[0] == "const":
            return owner(a, which, depth + 1)
        if isinstance(a, tuple) and a and a[0] == "const":
            return owner(b, which, depth + 1)
        return None
    if k == "phi":
        out = set()
        for a in alts(t):
            o = owner(a, which, depth + 1)
            if o is None:
                return None
            out |= o
        return out
    return None


def ym_pair(rep, prog, rule="YM-PAIR", crate="jiff", floor=12):
    rep.rule(rule, "at every call of days_in_month / month_add_one / saturate_day_in_month the year and the month argument are "
                   "components of the same date (read from one date object, or the pair returned by month_add_one for one "
                   "date, or the caller's own year/month parameters): a year of one date with the month of another is right "
                   "except across a leap February")
    n = decided = 0
    for name, g in sorted(prog.fns.items()):
        if not name.startswith(crate + "::"):
            continue
        T = None
        k = 0
        for bi, t in mir.iter_calls(g):
            p = t.get("path", "")
            if not PAIR_FNS.search(p) or len(t.get("args", [])) < 2:
                continue
            T = T or Terms(g)
            k += 1
            n += 1
            key = "%s | %s#%d" % (name, p.rsplit("::", 1)[-1], k)
            y, m = T.at_call(bi, t, 0), T.at_call(bi, t, 1)
            oy, om = owner(y, "year"), owner(m, "month")
            loc = "%s:%s" % (t["span"]["file"], t["span"]["line"])
            if oy is None or om is None:
                rep.ok(rule, key, how="undecided: owner of %s not resolved" % ("year" if oy is None else "month"), loc=loc, nontrivial=False)
                continue
            decided += 1
            if oy == om:
                rep.ok(rule, key, how="year and month of %s" % ", ".join(sorted(o if isinstance(o, str) else show(o, maxd=2)[:40] for o in oy)), loc=loc)
            else:
                rep.violation(rule, key, "the year comes from %s but the month from %s" % (
                    ", ".join(sorted(o if isinstance(o, str) else show(o, maxd=3)[:60] for o in oy)),
                    ", ".join(sorted(o if isinstance(o, str) else show(o, maxd=3)[:60] for o in om))), loc)
    rep.floor(rule + " decided call sites", decided, floor)
    return n, decided


# ------------------------------------------------------------------------------------------------------------------
YEAR_FACTS = ("weeks_in_year", "days_in_year", "in_long_year", "in_leap_year", "days_in_month", "days_in_month_ranged", "last_of_year", "last_of_month")


def _year_of(t, depth=0):
    """(date term, shift) when t is `year(D) + shift` (through value-preserving wrappers); None otherwise"""
    if not isinstance(t, tuple) or not t or depth > 12:
        return None
    k = t[0]
    if k == "call":
        last = t[1].rsplit("::", 1)[-1]
        if last in _YEAR and len(t[2]) == 1:
            return (t[2][0], 0)
        if last in _WRAP and t[2]:
            return _year_of(t[2][0], depth + 1)
        m = re.search(r"ops::(Add|Sub)<.*>>::(add|sub)$", t[1])
        if m and len(t[2]) == 2:
            a, c = _year_of(t[2][0], depth + 1), _const_of(t[2][1])
            if a is not None and c is not None:
                return (a[0], a[1] + (c if m.group(1) == "Add" else -c))
        return None
    if k == "field":
        if t[2] == "year":
            return (t[1], 0)
        if t[2] in ("val", "0"):
            return _year_of(t[1], depth + 1)
        return None
    if k in ("try", "cast", "variant"):
        return _year_of(t[1], depth + 1)
    if k == "bin" and t[1] in ("Add", "Sub", "AddWithOverflow", "SubWithOverflow", "AddUnchecked", "SubUnchecked"):
        a, c = _year_of(t[2], depth + 1), _const_of(t[3])
        if a is not None and c is not None:
            return (a[0], a[1] + (c if t[1].startswith("Add") else -c))
    return None


def _const_of(t):
    while isinstance(t, tuple) and t and (t[0] == "cast" or (t[0] == "call" and t[1].rsplit("::", 1)[-1] in ("C", "rfrom", "rinto", "into", "from") and len(t[2]) == 1)):
        t = t[1] if t[0] == "cast" else t[2][0]
    if isinstance(t, tuple) and t and t[0] == "const" and isinstance(t[1], int):
        return t[1]
    return None


def _scan_year_fact(prog, crate):
    """yield (fn, call, loc, fact name, date term, shift) for every call that pairs year(D)+shift (shift != 0) with a per-year fact of D"""
    for name, g in sorted(prog.fns.items()):
        if not name.startswith(crate + "::"):
            continue
        T = None
        for bi, t in mir.iter_calls(g):
            nargs = len(t.get("args", []))
            if nargs < 2:
                continue
            T = T or Terms(g)
            args = [T.at_call(bi, t, i) for i in range(nargs)]
            years = [(i, _year_of(a)) for i, a in enumerate(args)]
            years = [(i, y) for i, y in years if y is not None]
            if not years:
                continue
            for j, a in enumerate(args):
                for x in walk(a):
                    if isinstance(x, tuple) and x and x[0] == "call" and x[1].rsplit("::", 1)[-1] in YEAR_FACTS and len(x[2]) >= 1:
                        for i, (d, shift) in years:
                            if i != j and x[2][0] == d:
                                yield (name, t, "%s:%s" % (t["span"]["file"], t["span"]["line"]), x[1].rsplit("::", 1)[-1], d, shift)


def year_fact(rep, prog, rule="YEAR-FACT", crate="jiff"):
    from . import facts
    rep.rule(rule, "no call passes `year(D) + k` (k != 0) together with a per-year fact of the same D (weeks_in_year, days_in_year, "
                   "in_long_year, in_leap_year, days_in_month): the week or day count of one year does not describe its neighbour "
                   "(2026-W01-1.yesterday() built from weeks_in_year(2026) names a week 53 that 2025 does not have)")
    ctl = facts.load_controls()
    hits = {n.rsplit("::", 1)[-1] for (n, _t, _l, _f, _d, s) in _scan_year_fact(ctl, "controls") if s != 0}
    if "bad_year_fact" in hits and "good_year_fact" not in hits:
        rep.ok(rule, "_controls", how="reports bad_year_fact, accepts good_year_fact (fixtures/controls)")
    else:
        rep.violation(rule, "_controls", "the matcher no longer separates the control functions: reported %s" % sorted(hits), "fixtures/controls/src/lib.rs")
    n = 0
    for (name, t, loc, fact, d, shift) in _scan_year_fact(prog, crate):
        n += 1
        key = "%s | %s with year%+d" % (name, fact, shift)
        if shift != 0:
            rep.violation(rule, key, "%s(%s) is passed to %s together with the year of the same value shifted by %+d" % (
                fact, show(d, maxd=2)[:40], t.get("path", "").rsplit("::", 1)[-1], shift), loc)
        else:
            rep.ok(rule, key, how="the fact and the year belong to the same value", loc=loc)
    return n
