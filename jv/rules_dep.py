"""DEP - must-depend rules decided with the may-dependence engine (dep.py).

Each table row says: the output of function F (its return value, one field of it, or what it writes through a
writer/`&mut` parameter) must depend on the listed inputs (parameter fields).  The engine over-approximates
dependence, so a row fails only when the input cannot influence the output on some return alternative ("each") or on
any of them ("any") - i.e. when the operand was dropped, replaced by another one, or bypassed by a fast path.  Every
row is a necessary condition of the property it is listed under: the specified result varies with that input.

A row is NOT a frozen shape: any implementation whose output really depends on the input passes, whatever its code
looks like.
"""
from . import dep

CAL = ["years", "months", "weeks", "days"]
TIME = ["hours", "minutes", "seconds", "milliseconds", "microseconds", "nanoseconds"]
U10 = CAL + TIME


def S(param, fields):
    return ["%s.%s" % (param, f) for f in fields]


TS = lambda p: S(p, ["second", "nanosecond"])
DT = lambda p: S(p, ["date", "time"])
SD = lambda p: S(p, ["secs", "nanos"])
Z = lambda p: S(p, ["inner.timestamp", "inner.time_zone"])

# (property ids, function, mode, output, needs, why)
TABLE = [
    # ---- C06 zoned arithmetic
    (("C06",), "zoned::Zoned::checked_add_span", "each", "ret", S("span", U10 + ["sign"]) + ["self.inner.time_zone"],
     "every unit of the span and the zone's rules decide the result"),
    (("C06",), "zoned::Zoned::checked_add_duration", "each", "ret", SD("duration") + Z("self"),
     "the instant moves by exactly the duration (seconds and nanoseconds) and keeps the zone"),
    (("C06", "C12"), "span::Span::only_calendar", "any", "ret.years", ["self.years"], "calendar part keeps the years"),
    (("C06", "C12"), "span::Span::only_calendar", "any", "ret.months", ["self.months"], "calendar part keeps the months"),
    (("C06", "C12"), "span::Span::only_calendar", "any", "ret.weeks", ["self.weeks"], "calendar part keeps the weeks"),
    (("C06", "C12"), "span::Span::only_calendar", "any", "ret.days", ["self.days"], "calendar part keeps the days"),
] + [
    (("C06", "C12"), "span::Span::only_time", "any", "ret." + u, ["self." + u], "time part keeps the " + u) for u in TIME
] + [
    (("C06",), "zoned::Zoned::start_of_day", "each", "ret", ["self.inner.datetime", "self.inner.time_zone"],
     "the first instant of the civil day in this zone"),
    (("C06",), "zoned::Zoned::end_of_day", "each", "ret", ["self.inner.datetime", "self.inner.time_zone"],
     "the last instant of the civil day in this zone"),
    # ---- C08 civil arithmetic
    (("C08", "C06"), "timestamp::Timestamp::checked_add_span", "each", "ret", S("span", TIME + ["sign"]) + TS("self"),
     "time units move the instant exactly"),
    (("C08", "C06"), "timestamp::Timestamp::checked_add_duration", "each", "ret", SD("duration") + TS("self"),
     "the instant moves by seconds and nanoseconds"),
    (("C08", "C06"), "civil::datetime::DateTime::checked_add_span", "each", "ret", S("span", U10 + ["sign"]) + DT("self"),
     "every unit of the span is added"),
    (("C08",), "civil::datetime::DateTime::checked_add_duration", "each", "ret", SD("duration") + DT("self"),
     "seconds and nanoseconds are added"),
    (("C08",), "civil::date::Date::checked_add_span", "each", "ret", S("span", CAL + ["sign"]) + S("self", ["year", "month", "day"]),
     "every calendar unit of the span is added"),
    (("C08",), "civil::time::Time::checked_add_span", "each", "ret", S("span", TIME + ["sign"]) + S("self", ["hour", "minute", "second", "subsec_nanosecond"]),
     "every time unit of the span is added"),
    (("C08",), "civil::time::Time::wrapping_add_span", "each", "ret", S("span", TIME + ["sign"]) + S("self", ["hour", "minute", "second", "subsec_nanosecond"]),
     "every time unit of the span is added modulo 24h"),
    # ---- C07 differences
    (("C07",), "zoned::ZonedDifference::<'a>::until_with_largest_unit", "each", "ret", Z("zdt1") + ["self.zoned.inner.timestamp", "self.zoned.inner.time_zone"],
     "the difference is between these two instants, in this zone"),
    (("C07",), "civil::datetime::DateTimeDifference::until_with_largest_unit", "each", "ret", DT("dt1") + DT("self.datetime") + ["self.round.largest"],
     "the difference is between these two datetimes, balanced up to `largest`"),
    (("C07",), "civil::time::TimeDifference::until_with_largest_unit", "each", "ret", S("t1", ["hour", "minute", "second", "subsec_nanosecond"]) + ["self.time"],
     "the difference is between these two times"),
    (("C07",), "timestamp::TimestampDifference::until_with_largest_unit", "each", "ret", TS("t1") + TS("self.timestamp"),
     "the difference is between these two instants"),
    # ---- C10 rounding
    (("C10",), "civil::datetime::DateTimeRound::round", "each", "ret", DT("dt") + S("self", ["smallest", "mode", "increment"]),
     "the result is the mode-prescribed multiple of increment x smallest"),
    (("C10",), "civil::time::TimeRound::round", "each", "ret", S("t", ["hour", "minute", "second", "subsec_nanosecond"]) + S("self", ["smallest", "mode", "increment"]),
     "the result is the mode-prescribed multiple of increment x smallest"),
    (("C10",), "timestamp::TimestampRound::round", "each", "ret", TS("timestamp") + S("self", ["smallest", "mode", "increment"]),
     "the result is the mode-prescribed multiple of increment x smallest"),
    (("C10",), "zoned::ZonedRound::round", "each", "ret", ["zdt.inner.time_zone", "zdt.inner.datetime"] + S("self.round", ["smallest", "mode", "increment"]),
     "rounding happens on the civil datetime of this zone"),
    (("C10", "C12"), "signed_duration::SignedDurationRound::round", "each", "ret", SD("dur") + S("self", ["smallest", "mode", "increment"]),
     "the result is the mode-prescribed multiple of increment x smallest"),
    # ---- C12 value types
    (("C12",), "signed_duration::SignedDuration::checked_add", "each", "ret", SD("self") + SD("rhs"), "128-bit nanosecond sum"),
    (("C12",), "signed_duration::SignedDuration::checked_sub", "each", "ret", SD("self") + SD("rhs"), "128-bit nanosecond difference"),
    (("C12",), "signed_duration::SignedDuration::checked_mul", "each", "ret", SD("self") + ["rhs"], "product of the whole duration"),
    (("C12",), "signed_duration::SignedDuration::checked_div", "each", "ret", SD("self") + ["rhs"], "quotient of the whole duration"),
    (("C12",), "signed_duration::SignedDuration::checked_neg", "each", "ret", SD("self"), "both fields change sign"),
    (("C12",), "signed_duration::SignedDuration::abs", "each", "ret", SD("self"), "both fields lose their sign"),
    (("C12",), "signed_duration::SignedDuration::as_millis", "each", "ret", SD("self"), "total milliseconds of the whole duration"),
    (("C12",), "signed_duration::SignedDuration::as_micros", "each", "ret", SD("self"), "total microseconds of the whole duration"),
    (("C12",), "signed_duration::SignedDuration::as_nanos", "each", "ret", SD("self"), "total nanoseconds of the whole duration"),
    (("C12",), "signed_duration::SignedDuration::as_secs_f64", "each", "ret", SD("self"), "fractional seconds of the whole duration"),
    (("C12",), "signed_duration::SignedDuration::as_millis_f64", "each", "ret", SD("self"), "fractional milliseconds of the whole duration"),
] + [
    (("C12",), "span::Span::negate", "any", "ret." + u, ["self." + u], "negation acts unit by unit") for u in U10
] + [
    (("C12",), "span::Span::negate", "any", "ret.sign", ["self.sign"], "negation flips the one sign"),
] + [
    (("C12",), "span::Span::abs", "any", "ret." + u, ["self." + u], "abs acts unit by unit") for u in U10
] + [
    (("C12",), "span::Span::checked_mul", "each", "ret", S("self", U10 + ["sign"]) + ["rhs"], "multiplication acts on every unit"),
    (("C12", "C11"), "span::Span::to_invariant_nanoseconds", "each", "ret", S("self", ["days", "weeks"] + TIME + ["sign"]),
     "the invariant total counts every uniform unit"),
    (("C12",), "span::Span::is_zero", "each", "ret", ["self.sign"], "zero iff the sign is zero"),
    # ---- C15 duration printers: the text depends on every unit
    (("C15",), "fmt::friendly::printer::SpanPrinter::print_span", "any", "out:wtr", S("span", U10 + ["sign"]), "every unit is printed"),
    (("C15",), "fmt::friendly::printer::SpanPrinter::print_span_designators_non_fraction", "any", "out:wtr", S("span", U10), "every unit is printed"),
    (("C15",), "fmt::friendly::printer::SpanPrinter::print_span_designators_fractional", "any", "out:wtr", S("span", U10), "every unit is printed"),
    (("C15",), "fmt::friendly::printer::SpanPrinter::print_span_hms", "any", "out:wtr", S("span", U10), "every unit is printed"),
    (("C15",), "fmt::friendly::printer::SpanPrinter::print_duration", "any", "out:wtr", SD("duration"), "seconds and nanoseconds are printed"),
    (("C15",), "fmt::friendly::printer::SpanPrinter::print_duration_designators", "any", "out:wtr", SD("dur"), "seconds and nanoseconds are printed"),
    (("C15",), "fmt::friendly::printer::SpanPrinter::print_duration_hms", "any", "out:wtr", SD("dur"), "seconds and nanoseconds are printed"),
    (("C15",), "fmt::temporal::printer::SpanPrinter::print_span", "any", "out:wtr", S("span", U10 + ["sign"]), "every unit is printed"),
    (("C15",), "fmt::temporal::printer::SpanPrinter::print_duration", "any", "out:wtr", SD("dur"), "seconds and nanoseconds are printed"),
    # ---- C09 default printers: the text depends on every field of the value
    (("C09",), "fmt::temporal::printer::DateTimePrinter::print_zoned", "any", "out:wtr", ["zdt.inner.timestamp.second", "zdt.inner.timestamp.nanosecond", "zdt.inner.time_zone"],
     "instant and zone are both printed"),
    (("C09",), "fmt::temporal::printer::DateTimePrinter::print_timestamp", "any", "out:wtr", TS("timestamp"), "seconds and fraction are printed"),
    (("C09",), "fmt::temporal::printer::DateTimePrinter::print_datetime", "any", "out:wtr", DT("dt"), "date and time are printed"),
    (("C09",), "fmt::temporal::printer::DateTimePrinter::print_date", "any", "out:wtr", S("date", ["year", "month", "day"]), "year, month and day are printed"),
    (("C09",), "fmt::temporal::printer::DateTimePrinter::print_time", "any", "out:wtr", S("time", ["hour", "minute", "second", "subsec_nanosecond"]),
     "every time field is printed"),
    (("C09",), "fmt::temporal::printer::DateTimePrinter::print_offset_rounded", "any", "out:wtr", ["offset.span"], "the offset is printed"),
    (("C09",), "fmt::temporal::printer::DateTimePrinter::print_time_zone_annotation", "any", "out:wtr", ["time_zone.repr", "offset.span"],
     "IANA name, or the fixed offset itself, is printed"),
    # ---- C16: the hour of a broken-down time is `hour` combined with `meridiem` (BrokenDownTime::hour() does so); every
    # hour / AM-PM directive must print that combination, or text parsed with %I %p re-formats with AM and PM flipped
] + [
    (("C16",), "fmt::strtime::format::Formatter::<'f, 't, 'w, W>::" + fn_, "any", "out:self.wtr", ["self.tm.hour", "self.tm.meridiem"],
     "the printed hour / AM-PM marker is the 24-hour value that hour() reports") for fn_ in
    ("fmt_hour24_zero", "fmt_hour24_space", "fmt_hour12_zero", "fmt_hour12_space", "fmt_ampm_lower", "fmt_ampm_upper")
] + [
    # ---- C02 / C03 / C04 / C14: instant <-> civil and zone lookups read the whole instant / datetime
    (("C02",), "tz::offset::Offset::to_datetime", "each", "ret", TS("timestamp") + ["self.span"], "civil = decomposition of t + o"),
    (("C02",), "tz::offset::Offset::to_timestamp", "each", "ret", DT("dt") + ["self.span"], "instant = civil - o"),
    (("C03",), "tz::timezone::TimeZone::to_offset", "each", "ret", TS("timestamp") + ["self.repr"],
     "the offset in force at this instant in this zone; transition instants are whole seconds, so before the epoch the fraction decides the side"),
    (("C03",), "tz::timezone::TimeZone::to_offset_info", "each", "ret", TS("timestamp") + ["self.repr"],
     "offset, DST flag and abbreviation in force at this instant in this zone (same reasoning as to_offset)"),
    (("C03", "C14"), "tz::tzif::Tzif::<STR, ABBREV, TYPES, TIMESTAMPS, STARTS, ENDS, INFOS>::to_local_time_type", "each", "ret", TS("timestamp"),
     "pre-epoch instants floor: the fraction decides which side of a transition"),
    (("C03", "C14"), "tz::tzif::Tzif::<STR, ABBREV, TYPES, TIMESTAMPS, STARTS, ENDS, INFOS>::previous_transition", "each", "ret", TS("ts"),
     "strictly-before needs the ceiling of a fractional instant"),
    (("C03", "C14"), "tz::tzif::Tzif::<STR, ABBREV, TYPES, TIMESTAMPS, STARTS, ENDS, INFOS>::next_transition", "each", "ret", TS("ts"),
     "strictly-after needs the floor of a fractional instant"),
    (("C03",), "shared::posix::<impl shared::PosixTimeZone<ABBREV>>::to_offset", "each", "ret", TS("timestamp"),
     "pre-epoch instants floor: the fraction decides which side of a rule transition"),
    (("C03",), "shared::posix::<impl shared::PosixTimeZone<ABBREV>>::to_offset_info", "each", "ret", TS("timestamp"),
     "pre-epoch instants floor: the fraction decides which side of a rule transition"),
    (("C03", "C14"), "shared::posix::<impl shared::PosixTimeZone<ABBREV>>::previous_transition", "each", "ret", TS("timestamp"),
     "strictly-before needs the ceiling of a fractional instant"),
    (("C03", "C14"), "shared::posix::<impl shared::PosixTimeZone<ABBREV>>::next_transition", "each", "ret", TS("timestamp"),
     "strictly-after needs the floor of a fractional instant"),
    (("C04",), "tz::timezone::TimeZone::to_ambiguous_timestamp", "each", "ret", DT("dt") + ["self.repr"], "resolution of this civil datetime in this zone"),
    (("C04",), "shared::posix::<impl shared::PosixTimeZone<ABBREV>>::to_ambiguous_kind", "each", "ret", ["dt"], "gap/fold classification of this civil datetime"),
    (("C04",), "tz::tzif::Tzif::<STR, ABBREV, TYPES, TIMESTAMPS, STARTS, ENDS, INFOS>::to_ambiguous_kind", "each", "ret", DT("dt"), "gap/fold classification of this civil datetime"),
]


# "each" rows: at most `n` return alternatives may be independent of a listed input, and only if the guard selecting
# them reads nothing but the listed inputs; these are the legitimate shortcuts counted on the pinned tree.  A new fast
# path adds an alternative; a dropped operand turns the main alternative into one - either way the count is exceeded.
EXEMPT = {
    "tz::timezone::TimeZone::to_offset": (3, ["self.repr"], "UTC / unknown / fixed-offset zones have one offset for every instant"),
    "tz::timezone::TimeZone::to_offset_info": (3, ["self.repr"], "UTC / unknown / fixed-offset zones have one offset, flag and abbreviation for every instant"),
    "shared::posix::<impl shared::PosixTimeZone<ABBREV>>::to_offset": (1, ["self.dst"], "a POSIX zone without a DST rule has one offset"),
    "shared::posix::<impl shared::PosixTimeZone<ABBREV>>::to_offset_info": (1, ["self.dst"], "a POSIX zone without a DST rule has one offset"),
    "timestamp::Timestamp::checked_add_span": (1, ["span.sign", "span.units"], "adding the zero span returns self"),
    "civil::datetime::DateTime::checked_add_span": (1, ["span.units"], "a span with no non-zero unit returns self"),
    "civil::date::Date::checked_add_span": (4, ["span.units", "span.days", "span.sign", "self"], "zero span, and the days-only shortcut with its yesterday/tomorrow/epoch-day returns (selected by the unit set)"),
    "civil::datetime::DateTimeRound::round": (1, ["self.smallest", "self.increment"], "rounding to 1 nanosecond is the identity"),
    "span::Span::checked_mul": (1, ["rhs"], "multiplying by 0"),
}


def _needs(fd, spec):
    """'param.a.b' -> (param local, ('a','b'))"""
    name, _, rest = spec.partition(".")
    for i in range(1, fd.argc + 1):
        if (fd.fn["locals"][i] or {}).get("n") == name:
            return i, tuple(x for x in rest.split(".") if x)
    return None, ()


def run_dep(ctx, rep, prop, cfg="Q", rule="DEP"):
    rep.rule(rule, "must-depend table over a field-sensitive, inter-procedural may-dependence analysis (data and control "
                   "dependence, closures and writer parameters included): for each listed function the output (return value, "
                   "one returned field, or the text written to the writer) depends on every listed input field, on every "
                   "non-error return alternative ('each') or on at least one ('any'); an input outside the may-dependence "
                   "set cannot influence the output at all, so the documented result, which varies with it, is not computed")
    prog = ctx.prog(cfg)
    eng = getattr(ctx, "_dep_" + cfg, None)
    if eng is None:
        eng = dep.Engine(prog)
        setattr(ctx, "_dep_" + cfg, eng)
    n = 0
    for row in TABLE:
        (props, path, mode, out, needs, why) = row[:6]
        max_exempt, exempt = EXEMPT.get(path, (0, (), ''))[:2]
        if prop not in props:
            continue
        key = "jiff::" + path
        fd = eng.fndeps(key)
        short = path.split("::")[-1] if "<impl" not in path else path.split(">>::")[-1]
        owner = path.split("::")[-2] if "::" in path else ""
        label = "%s::%s %s" % (owner.split("<")[0], short, out)
        if fd is None:
            rep.violation(rule, label, "anchor missing: function %s not found" % key, "")
            continue
        loc = fd.fn.loc() if hasattr(fd.fn, "loc") else fd.fn.file
        # output selector
        if out.startswith("out:"):
            pl, ppath_ = _needs(fd, out[4:])
            ops = fd.out_params()
            if pl is None or pl not in ops:
                rep.violation(rule, label, "anchor missing: writer parameter %s of %s not found" % (out[4:], key), loc)
                continue
            written = fd.out_param_path(pl, ppath_) if ppath_ else ops[pl]
            alts = [(-1, "writes", {(): written}, None, frozenset())]
            opath = ()
        else:
            opath = tuple(x for x in out.split(".")[1:] if x)
            alts = [a for a in fd.alternatives((opath,)) if a[1] not in ("err", "none")]
            if not alts:
                rep.violation(rule, label, "anchor missing: no non-error return alternative found in %s" % key, loc)
                continue
        for spec in needs:
            n += 1
            pl, ppath = _needs(fd, spec)
            k = "%s <- %s" % (label, spec)
            if pl is None:
                rep.violation(rule, k, "anchor missing: parameter of `%s` not found in %s" % (spec, key), loc)
                continue
            hit = [dep.covers(a[2][opath], pl, ppath) for a in alts]
            if mode == "each":
                ex = [_needs(fd, e) for e in exempt]
                n_ex = 0
                for i, a in enumerate(alts):
                    if not hit[i] and n_ex < max_exempt and a[4] and \
                            all(any(s_[0] == "p" and s_[1] == el and tuple(s_[2][:len(ep)]) == ep for (el, ep) in ex if el) for s_ in a[4]):
                        n_ex += 1
                        hit[i] = "exempt"
                if not any(h is True for h in hit):
                    hit = [False if h == "exempt" else h for h in hit]
            ok = all(hit) if mode == "each" else any(hit)
            if ok:
                rep.ok(rule, k, how="%d alternative(s), %s" % (len(alts), mode), loc=loc)
            else:
                bad = [a for a, h in zip(alts, hit) if not h]
                lines = sorted({str(a[3]) for a in bad if a[3]})
                guard = sorted({("%s.%s" % ((fd.fn["locals"][s_[1]] or {}).get("n"), ".".join(s_[2]))) for a in bad for s_ in a[4] if s_[0] == "p"})
                rep.violation(rule, k, "%s: the %s of %s does not depend on `%s`%s (%s); the guard of that return reads %s" % (
                    props[0], "text written to the writer" if out.startswith("out:") else "value returned",
                    path, spec, (" on the return at line " + ", ".join(lines)) if lines else "", why, guard[:12] or "nothing"),
                    "%s:%s" % (fd.fn.file, lines[0] if lines else ""))
    rep.floor(rule + " rows", n, 1)
    return n


def run_eq_hash(ctx, rep, cfg="Q", rule="EQ-HASH", select=None, floor=20):
    """k1 == k2 must imply hash(k1) == hash(k2): whatever a Hash impl feeds to the hasher must be something the PartialEq impl
    of the same type compares"""
    import re
    rep.rule(rule, "for every type of the crate with both a Hash and a PartialEq impl, every field path of `self` that the Hash impl "
                   "feeds to the hasher (may-dependence of the hasher state, followed through the field types' own impls) is also a "
                   "field path the PartialEq impl's result depends on: a hashed-but-not-compared field (for instance the debug-only "
                   "min/max tracking fields of the ranged integers) makes equal values hash differently")
    prog = ctx.prog(cfg)
    eng = getattr(ctx, "_dep_" + cfg, None)
    if eng is None:
        eng = dep.Engine(prog)
        setattr(ctx, "_dep_" + cfg, eng)
    n = 0
    for k in sorted(prog.fns):
        f = prog.fns[k]
        if f.crate != "jiff" or f.is_closure:
            continue
        m = re.match(r"^jiff::<(.+) as core::hash::Hash>::hash$", k)
        if not m:
            continue
        ty = m.group(1)
        if select is not None and not select(ty):
            continue
        base = ty.split("<")[0]
        eqs = [kk for kk in prog.fns if kk.startswith("jiff::<" + base) and re.search(r" as core::cmp::PartialEq(<.*>)?>::eq$", kk)
               and kk[len("jiff::<"):].split(" as ")[0].split("<")[0] == base]
        if not eqs:
            continue
        n += 1
        fh = eng.fndeps(k)
        hd = set()
        for l, d in fh.out_params().items():
            hd |= {s[2] for s in d if s[0] == "p" and s[1] == 1}
        ed = set()
        for ek in eqs:
            fe = eng.fndeps(ek)
            for (_bi, _kind, deps, _ln, _c) in fe.alternatives(((),)):
                ed |= {s[2] for s in deps[()] if s[0] == "p" and s[1] in (1, 2)}
        # a hashed path is fine if it, a prefix of it, or an extension of it is compared
        def covered(p):
            for q in ed:
                m_ = min(len(p), len(q))
                if p[:m_] == q[:m_]:
                    return True
            return False
        extra = sorted(".".join(p) for p in hd if not covered(p))
        key = ty.split("::")[-1] if "::" in ty else ty
        key = re.sub(r"<.*$", "", ty)
        if extra:
            rep.violation(rule, key, "Hash for %s feeds %s to the hasher, which PartialEq for the same type does not compare: values that "
                          "are == can have different hashes" % (ty, extra[:6]), f.loc())
        else:
            rep.ok(rule, key, how="%d hashed field path(s), all compared" % len(hd), loc=f.loc())
    rep.floor(rule + " types", n, floor)


# binary checked operations: (properties, function, (operand a, operand b), exempt one-operand failures)
ERR_BOTH = [
    (("C12",), "signed_duration::SignedDuration::checked_add", ("self", "rhs"), ()),
    (("C12",), "signed_duration::SignedDuration::checked_sub", ("self", "rhs"), ()),
    (("C12",), "signed_duration::SignedDuration::checked_mul", ("self", "rhs"), ()),
    (("C12",), "signed_duration::SignedDuration::checked_div", ("self", "rhs"), ("rhs",)),      # division by zero
    # a delta beyond the distance between Date::MIN and Date::MAX (7_304_483 days) is out of range from every start:
    # a one-operand range check of the delta is sound iff its bounds admit at least +-7_304_483 (validated below)
    (("C08",), "civil::date::Date::checked_add_duration", ("self", "duration"), (("duration", 7_304_483),)),
    (("C08",), "civil::datetime::DateTime::checked_add_duration", ("self", "duration"), ()),
    (("C08", "C06"), "timestamp::Timestamp::checked_add_duration", ("self", "duration"), ()),
    (("C08",), "civil::time::Time::checked_add_duration", ("self", "duration"), ()),
    # offsets: a delta beyond the distance between Offset::MIN and Offset::MAX (2 * 93_599 s) is out of range from every start
    (("C02",), "tz::offset::Offset::checked_add_span", ("self", "span"), (("span", 187_198),)),
    (("C02",), "tz::offset::Offset::checked_add_duration", ("self", "duration"), (("duration", 187_198),)),
]


def _range_checks_admit(fd, operand_local, halfwidth):
    """every checked ranged conversion (try_new / try_rfrom ..) in the function that is applied to a value depending on the
    given operand only has bounds that admit [-halfwidth, halfwidth]; at least one such conversion exists"""
    import re
    fd.run()
    n = 0
    for bi, b in enumerate(fd.fn.blocks):
        t = b["term"]
        if t["t"] != "call" or not re.search(r"::(try_new|try_new128|try_rfrom|try_rinto)$", t.get("path", "")):
            continue
        st = fd.out_state.get(bi) or fd.in_state.get(bi)
        if st is None:
            continue
        deps = set()
        for a in t.get("args", []):
            deps |= fd.read_op(st, a)
        params = {s_[1] for s_ in deps if s_[0] == "p"}
        if params != {operand_local}:
            continue
        m = re.search(r"ri\d+::?<(-?\d+), (-?\d+)>", t.get("fn", "")) or re.search(r"ri\d+<(-?\d+), (-?\d+)>", t.get("fn", ""))
        if not m:
            return False
        lo, hi = int(m.group(1)), int(m.group(2))
        if lo > -halfwidth or hi < halfwidth:
            return False
        n += 1
    return n > 0


def run_err_both(ctx, rep, prop, cfg="Q", rule="ERR-BOTH"):
    """`a op b` fails "exactly when the true result is unrepresentable": whether it is depends on both operands"""
    rep.rule(rule, "in the listed checked binary operations every failing return (None / Err, including `?` propagation) is selected by "
                   "a condition that depends on BOTH operands (may-dependence of the guard, data and control): the result of a + b "
                   "or a - b is out of range for some a and in range for others, so a failure decided by looking at one operand "
                   "alone (negating the right-hand side first, range-checking a delta as if it were an absolute position) rejects "
                   "representable results; listed one-operand failures (division by zero) are exempt")
    prog = ctx.prog(cfg)
    eng = getattr(ctx, "_dep_" + cfg, None)
    if eng is None:
        eng = dep.Engine(prog)
        setattr(ctx, "_dep_" + cfg, eng)
    n = 0
    for (props, path, (pa, pb), exempt) in ERR_BOTH:
        if prop not in props:
            continue
        key0 = path.split("::")[-2] + "::" + path.split("::")[-1]
        fd = eng.fndeps("jiff::" + path)
        if fd is None:
            rep.violation(rule, key0, "anchor missing: function %s not found" % path, "")
            continue
        la, _ = _needs(fd, pa)
        lb, _ = _needs(fd, pb)
        if la is None or lb is None:
            rep.violation(rule, key0, "anchor missing: operands %s/%s of %s not found" % (pa, pb, path), fd.fn.file)
            continue
        errs = [a for a in fd.alternatives(((),)) if a[1] in ("err", "none")]
        n += 1
        bad = []
        for (bi, kind, deps, ln, ctrl) in errs:
            ha = any(s_[0] == "p" and s_[1] == la for s_ in ctrl)
            hb = any(s_[0] == "p" and s_[1] == lb for s_ in ctrl)
            if ha and hb:
                continue
            only = pa if ha else (pb if hb else "neither operand")
            if only in exempt:
                continue
            wide = [e for e in exempt if isinstance(e, tuple) and e[0] == only]
            if wide and _range_checks_admit(fd, lb if only == pb else la, wide[0][1]):
                continue
            bad.append((ln, only))
        if not errs:
            rep.violation(rule, key0, "anchor missing: no failing return found in %s" % path, fd.fn.file)
        elif bad:
            rep.violation(rule, key0, "%s: the failing return(s) at line(s) %s are decided by %s alone; a failure of `a op b` that does not "
                          "look at the other operand rejects results that are representable" % (
                              props[0], sorted({str(b[0]) for b in bad}), sorted({b[1] for b in bad})),
                          "%s:%s" % (fd.fn.file, bad[0][0]))
        else:
            rep.ok(rule, key0, how="%d failing return(s), each guarded by both operands" % len(errs), loc=fd.fn.file)
    rep.floor(rule + " functions", n, 1)
