"""SIGN-PAIR: seconds and nanoseconds of one instant / duration never have opposite signs.

Sites: every aggregate construction of shared::util::itime::ITimestamp, timestamp::Timestamp and
signed_duration::SignedDuration, every write to one of the two fields of an existing value of these types (the pair
is then the untouched field and the new value), and every call of SignedDuration::new_unchecked (the pub(crate)
constructor that takes the pair on trust).  At each site the pair (seconds, nanoseconds) must be shown sign-consistent by one of:

  CONST-ZERO   one component is the constant 0 / has the interval [0, 0]
  SAME-SIGN    the intervals of both components lie on the same side of 0
  COPY-PAIR    both components are the two fields of one value of a carrier type (the invariant is inherited)
  DIVREM-PAIR  seconds = a / k and nanoseconds = a % k for the same a and k with Rust's truncating operators
               (quotient and remainder of truncating division share the dividend's sign)
  PATH         on every acyclic CFG path to the site (path-restricted interval analysis: the branch conditions along the
               path refine the intervals) CONST-ZERO or SAME-SIGN holds - this is what decides sign fix-up code such as
               `if second < 0 && nanosecond != 0 { second += 1; nanosecond -= 1_000_000_000 }`

otherwise the site needs a reviewed reason (reviewed/signpair.tsv).  No jiff code is run.
"""
import re
from . import mir
from .absint import Analyzer, AV
from .term import Terms, walk, show
from .report import load_tsv
from .e1 import norm_key

CARRIERS = {
    "shared::util::itime::ITimestamp": ("second", "nanosecond"),
    "timestamp::Timestamp": ("second", "nanosecond"),
    "signed_duration::SignedDuration": ("secs", "nanos"),
}
NEW_UNCHECKED = "signed_duration::SignedDuration::new_unchecked"
MAX_PATHS = 400
TRANSPARENT = ("::get", "::rinto", "::rfrom", "::get_unchecked", "::into", "::from", "::without_bounds", "::clone")


def _sites(fn):
    for bi, b in enumerate(fn.blocks):
        for si, s in enumerate(b["st"]):
            if s["s"] == "=" and s["rv"]["k"] == "agg" and s["rv"].get("adt") in CARRIERS:
                rv = s["rv"]
                names = CARRIERS[rv["adt"]]
                ops = dict(zip(rv.get("fields") or [], rv["ops"]))
                if names[0] in ops and names[1] in ops:
                    yield (bi, si, "%s{..}" % rv["adt"].split("::")[-1], ops[names[0]], ops[names[1]], s.get("ln"))
            # a write to one field of an existing carrier value builds the pair (other field as it is, new value)
            if s["s"] == "=" and "p" in s.get("lhs", {}):
                e = s["lhs"]["p"][-1]
                if isinstance(e, dict) and e.get("adt") in CARRIERS and e.get("n") in CARRIERS[e["adt"]]:
                    names = CARRIERS[e["adt"]]
                    oi = 1 - names.index(e["n"])
                    other = {"o": "cp", "l": s["lhs"]["l"], "p": list(s["lhs"]["p"][:-1]) + [{"f": oi, "n": names[oi], "adt": e["adt"]}]}
                    new = s["rv"]["a"] if s["rv"]["k"] == "use" else None
                    pair = (other, new) if oi == 0 else (new, other)
                    yield (bi, si, "%s.%s=" % (e["adt"].split("::")[-1], e["n"]), pair[0], pair[1], s.get("ln"))
        t = b["term"]
        if t["t"] == "call" and t.get("path") == NEW_UNCHECKED and len(t.get("args", [])) == 2:
            yield (bi, "term", "new_unchecked", t["args"][0], t["args"][1], (t.get("span") or {}).get("line"))


S_NAMES = {"second": "s", "secs": "s", "nanosecond": "n", "nanos": "n"}
GETTERS = {"as_second": "s", "as_secs": "s", "subsec_nanosecond": "n", "subsec_nanos": "n"}
WRAP1 = ("::get", "::rinto", "::rfrom", "::get_unchecked", "::into", "::from", "::without_bounds", "::clone",
         "::new_unchecked", "::to_rint", "::try_to_rint", "::new")
WRAP2 = ("::try_new", "::try_new128")       # (name, value)


def _const_pos(t):
    """is the term a positive constant (literal or named constant)?"""
    while t[0] == "cast":
        t = t[1]
    if t[0] == "const":
        v = t[1]
        if isinstance(v, int):
            return v > 0
        return isinstance(v, str) and ("_PER_" in v)       # util::t::NANOS_PER_SECOND etc. are positive unit ratios
    if t[0] == "call" and t[1].endswith("::value") and t[2]:
        return _const_pos(t[2][0])
    return False


def _sig(t, depth=0):
    """sign signature of a term: ('zero',) | ('nonneg',) | ('pair', X, 's'|'n', polarity) |
    ('divrem', A, K, 'q'|'r', polarity) | None - the term has the same sign as the named source"""
    if depth > 24:
        return None
    k = t[0]
    if k == "const":
        return ("zero",) if t[1] == 0 else None
    if k in ("cast", "try"):
        return _sig(t[1], depth + 1)
    if k == "variant":
        return _sig(t[1], depth + 1)
    if k == "un" and t[1] == "Neg":
        r = _sig(t[2], depth + 1)
        return _flip(r)
    if k == "field":
        base, name = t[1], t[2]
        if name in ("0",) and base[0] in ("bin", "call", "variant", "try"):
            return _sig(base, depth + 1)            # .0 of a checked operation / Some payload
        if name in ("val", "min", "max"):
            return _sig(base, depth + 1) if base[0] == "field" else None
        if name in S_NAMES:
            return ("pair", base, S_NAMES[name], 1)
        return None
    if k == "agg":
        # Composite{val: X, min:.., max:..}
        for (fname, ft) in t[3]:
            if fname == "val":
                return _sig(ft, depth + 1)
        return None
    if k == "bin":
        op, a, b = t[1], t[2], t[3]
        if op == "Div" and _const_pos(b):
            return ("divrem", _norm(a), _norm(b), "q", 1)
        if op == "Rem" and _const_pos(b):
            return ("divrem", _norm(a), _norm(b), "r", 1)
        if op in ("Mul", "MulWithOverflow"):
            if _const_pos(b):
                return _sig(a, depth + 1)
            if _const_pos(a):
                return _sig(b, depth + 1)
        return None
    if k == "call":
        path, args = t[1], t[2]
        name = path.rsplit("::", 1)[-1]
        if path.endswith("Default>::default") or path.endswith("Default::default"):
            return ("zero",)
        if name in ("unsigned_abs", "checked_abs") and len(args) == 1:
            return ("nonneg",)
        if name == "abs" and len(args) == 1:
            # iN::abs wraps to iN::MIN in builds without overflow checks (it inherits the caller's setting), so it
            # is non-negative only for narrower sources (an i32 widened to i64, a ranged value)
            a0 = args[0]
            widened = a0[0] == "cast" or "rangeint" in path or not re.search(r"<impl i\d+>::abs$", path)
            return ("nonneg",) if widened else None
        if name in ("checked_neg", "neg", "wrapping_neg") and len(args) == 1:
            return _flip(_sig(args[0], depth + 1))
        if name in GETTERS and len(args) == 1:
            return ("pair", args[0], GETTERS[name], 1)
        if name in ("div_ceil",) and len(args) == 2 and _const_pos(args[1]):
            return ("divrem", _norm(args[0]), _norm(args[1]), "q", 1)
        if name in ("rem_ceil",) and len(args) == 2 and _const_pos(args[1]):
            return ("divrem", _norm(args[0]), _norm(args[1]), "r", 1)
        if name == "mul" and len(args) == 2 and _const_pos(args[1]):
            return _sig(args[0], depth + 1)
        if path.endswith(WRAP2) and len(args) == 2:
            return _sig(args[1], depth + 1)
        if path.endswith(WRAP1) and len(args) >= 1:
            return _sig(args[0], depth + 1)
    return None


def _norm(t):
    while t[0] == "cast":
        t = t[1]
    return t


def _flip(r):
    if r is None:
        return None
    if r[0] in ("zero",):
        return r
    if r[0] == "nonneg":
        return None
    return r[:-1] + (-r[-1],)


def _pair_ok(a, b):
    """both signatures describe sign-consistent values"""
    if a is None or b is None:
        return None
    if a[0] == "zero" or b[0] == "zero":
        return "one component is 0"
    if a[0] == "nonneg" and b[0] == "nonneg":
        return "both components are absolute values"
    if a[0] == "pair" and b[0] == "pair" and a[1] == b[1] and {a[2], b[2]} == {"s", "n"} and a[3] == b[3]:
        return "COPY-PAIR: the two fields of one carrier value%s" % (" (both negated)" if a[3] < 0 else "")
    if a[0] == "divrem" and b[0] == "divrem" and a[1] == b[1] and a[2] == b[2] and {a[3], b[3]} == {"q", "r"} and a[4] == b[4]:
        return "DIVREM-PAIR: truncating quotient and remainder of one dividend"
    return None


def _same_sign(a, b):
    if a is None or b is None:
        return False
    if a == (0, 0) or b == (0, 0):
        return True
    return (a[0] >= 0 and b[0] >= 0) or (a[1] <= 0 and b[1] <= 0)


def _paths(cfg, target, cap):
    """acyclic paths (as edge sets) from block 0 to `target`; None if more than `cap`"""
    can = {target}
    stack = [target]
    while stack:
        v = stack.pop()
        for u in cfg.pred[v]:
            if u not in can:
                can.add(u); stack.append(u)
    if 0 not in can:
        return []
    out = []
    path = [0]
    onpath = {0}

    def rec(v):
        if len(out) > cap:
            return
        if v == target:
            out.append(list(path))
            return
        for s in dict.fromkeys(cfg.succ[v]):
            if s in can and s not in onpath:
                path.append(s); onpath.add(s)
                rec(s)
                path.pop(); onpath.discard(s)
    rec(0)
    return None if len(out) > cap else out


class _PathAnalyzer(Analyzer):
    allowed = None      # set of CFG edges the run may follow (one acyclic path)
    assume = None       # {place key: (lo, hi)} intersected with the initial state (one sign case of the inputs)

    def initial_state(self):
        st = super().initial_state()
        for k, iv in (self.assume or {}).items():
            cur = st.vals.get(k)
            civ = cur.iv if cur is not None and cur.iv is not None else None
            if civ is None:
                base = self._key_range(k)
                civ = base
            if civ is None:
                continue
            lo, hi = max(civ[0], iv[0]), min(civ[1], iv[1])
            if lo > hi:
                return None
            st.vals[k] = AV(iv=(lo, hi))
        return st

    def _key_range(self, k):
        from .absint import PRIM
        l = k[0]
        ty = self.local_ty(l).lstrip("&").replace("mut ", "").strip()
        if len(k) == 1:
            return PRIM.get(ty)
        if not isinstance(k[-1], tuple):
            return None
        fname, fty = self._field(ty, k[-1][1])
        return self.contracts.get((ty, None, fname)) or PRIM.get(fty)

    def _field(self, ty, idx):
        adt = None
        for key, v in self.prog.adts.items():
            if key.endswith("::" + ty) or key == ty:
                adt = v
                break
        try:
            fd = adt["variants"][0]["fields"][idx]
            return fd["name"], fd["ty"]
        except Exception:
            return None, None

    split_at = None     # {block: (lo, hi)}: sign case of the argument of the `signum` call that ends the block

    def block_out(self, bi, st):
        if self.split_at and bi in self.split_at:
            # exhaustive 3-way case split on the sign of signum's argument, applied to the argument temp and to the
            # local it was copied from in this block
            t = self.fn.blocks[bi]["term"]
            st2 = st.copy()
            for s_i, s in enumerate(self.fn.blocks[bi]["st"]):
                self.transfer_stmt(st2, s, (bi, s_i))
            keys = []
            a = t["args"][0]
            if a.get("o") != "c" and "l" in a and not a.get("p"):
                keys.append((a["l"],))
                for s in reversed(self.fn.blocks[bi]["st"]):
                    if s["s"] == "=" and s["lhs"] == {"l": a["l"]} and s["rv"]["k"] == "use" and s["rv"]["a"].get("o") != "c" \
                            and not s["rv"]["a"].get("p"):
                        keys.append((s["rv"]["a"]["l"],))
                        break
            iv = self.split_at[bi]
            for k in keys:
                cur = st2.vals.get(k)
                civ = cur.iv if cur is not None and cur.iv is not None else self._key_range(k)
                if civ is None:
                    continue
                lo, hi = max(civ[0], iv[0]), min(civ[1], iv[1])
                if lo > hi:
                    return st2, {}          # this sign case cannot occur on this path
            # re-run the block with the refined source local (the copy is re-made from it)
            st3 = st.copy()
            for k in keys[1:]:
                cur = st3.vals.get(k)
                civ = cur.iv if cur is not None and cur.iv is not None else self._key_range(k)
                if civ is not None:
                    st3.vals[k] = AV(iv=(max(civ[0], iv[0]), min(civ[1], iv[1])))
            st = st3
        pre, outs = super().block_out(bi, st)
        if self.allowed is not None:
            outs = {tg: s for tg, s in outs.items() if (bi, tg) in self.allowed}
        return pre, outs

    def run(self):
        if self.assume is not None and self.initial_state() is None:
            self.done = True
            self.infeasible_case = True
            self.pre = {}
            self.entry = {}
            return self
        return super().run()


NEG, ZERO, POS = (-(1 << 127), -1), (0, 0), (1, (1 << 127))
PRIM_INTS = ("i8", "i16", "i32", "i64", "i128", "isize")


def _sign_cases(fn, prog):
    """sign case split of the integer inputs: integer parameters, and the (seconds, nanoseconds) fields of carrier-typed
    parameters (only sign-consistent combinations: the invariant is assumed for inputs and guaranteed for outputs)"""
    dims = []
    for i in range(1, (fn.get("argc") or 0) + 1):
        ty = (fn["locals"][i] or {}).get("ty", "")
        base = ty.lstrip("&").replace("mut ", "").strip()
        deref = ("*",) if ty.startswith("&") else ()
        if base in PRIM_INTS:
            dims.append([{(i,): c} for c in (NEG, ZERO, POS)])
        elif base in CARRIERS and base != "timestamp::Timestamp":
            ks, kn = (i,) + deref + (("f", 0),), (i,) + deref + (("f", 1),)
            dims.append([{ks: a, kn: b} for a in (NEG, ZERO, POS) for b in (NEG, ZERO, POS)
                         if not ((a is NEG and b is POS) or (a is POS and b is NEG))])
    if not dims or len(dims) > 4:
        return [None]
    cases = [{}]
    for d in dims:
        cases = [{**c, **x} for c in cases for x in d]
    return cases


def _show_case(case):
    if not case:
        return "(no split)"
    nm = {NEG: "<0", ZERO: "=0", POS: ">0"}
    return ", ".join("%s%s" % ("_%d%s" % (k[0], "".join(".%s" % (e[1] if isinstance(e, tuple) else "") for e in k[1:] if e != "*")), nm.get(v, v)) for k, v in sorted(case.items(), key=str))


def _iv_at(an, bi, si, op):
    if op.get("o") == "c":
        v = op.get("v")
        return (v, v) if isinstance(v, int) else None
    st = an.state_before_term(bi) if si == "term" else an.state_at(bi, si)
    if st is None:
        return "infeasible"
    v = an.read_op(st, op)
    return v.iv if v is not None else None


def run_signpair(ctx, rep, cfg="Q", rule="SIGN-PAIR", select=None, floor=10):
    rep.rule(rule, "at every construction of an ITimestamp, Timestamp or SignedDuration, every write to one of their two fields and every call of "
                   "SignedDuration::new_unchecked the (seconds, nanoseconds) pair is sign-consistent: a component is 0, both "
                   "intervals lie on one side of 0, both are the fields of one carrier value, they are quotient and remainder "
                   "of one truncating division, or one of these holds on every acyclic path to the site under "
                   "path-restricted interval analysis (sign fix-up code); otherwise a reviewed reason is required")
    prog = ctx.prog(cfg)
    A = ctx.auto(cfg)
    reviewed = load_tsv("signpair")
    n = 0
    for f in sorted(prog.fns.values(), key=lambda f: f.key):
        if f.crate != "jiff" or (select is not None and not select(f)):
            continue
        sites = list(_sites(f))
        if not sites:
            continue
        an = A.analyzer(f)
        T = None
        ords = {}
        for (bi, si, what, sop, nop, ln) in sites:
            n += 1
            ords[what] = ords.get(what, 0) + 1
            key = norm_key("%s | %s#%d" % (f.key, what, ords[what]))
            loc = "%s:%s" % (f.file, ln)
            if sop is None or nop is None:
                rep.classify(rule, key, reviewed, loc=loc, detail="a field of the pair is overwritten with a computed value (not a plain operand)")
                continue
            a, b = _iv_at(an, bi, si, sop), _iv_at(an, bi, si, nop)
            if a == "infeasible" or b == "infeasible":
                rep.ok(rule, key, how="infeasible block", loc=loc, nontrivial=False)
                continue
            if a == (0, 0) or b == (0, 0):
                rep.ok(rule, key, how="CONST-ZERO", loc=loc, nontrivial=False)
                continue
            if _same_sign(a, b):
                rep.ok(rule, key, how="SAME-SIGN %s %s" % (a, b), loc=loc)
                continue
            # provenance patterns
            T = T or Terms(f)
            pos = (bi, si)
            ts, tn = T.operand(sop, pos=pos), T.operand(nop, pos=pos)
            why = _pair_ok(_sig(ts), _sig(tn))
            if why is None and f.path == NEW_UNCHECKED and ts[0] == "param" and tn[0] == "param":
                why = "PARAM-PAIR: the constructor stores its own arguments (each call site is a site of this rule)"
            if why:
                rep.ok(rule, key, how=why, loc=loc)
                continue
            # sign case split of the inputs, then (only where needed) path-restricted interval analysis
            cases = _sign_cases(f, prog)
            paths = None
            verdict = None
            runs = 0
            n_path_cases = 0
            for case in cases:
                ca = _PathAnalyzer(f, A.prog, A.contracts, A.summary, A.hooks, A.param_contracts)
                ca.assume = case
                try:
                    ca.run()
                except RecursionError:
                    verdict = "analysis bailed"
                    break
                runs += 1
                if getattr(ca, "infeasible_case", False) or ca.bailed:
                    if ca.bailed:
                        verdict = "analysis bailed"
                        break
                    continue
                ca_a, ca_b = _iv_at(ca, bi, si, sop), _iv_at(ca, bi, si, nop)
                if ca_a == "infeasible" or ca_b == "infeasible" or _same_sign(ca_a, ca_b):
                    continue
                # this sign case needs the per-path view
                n_path_cases += 1
                if paths is None:
                    paths = _paths(an.cfg, bi, MAX_PATHS)
                    if paths is None:
                        verdict = "more than %d acyclic paths to the site" % MAX_PATHS
                        break
                if runs + len(paths) > 20000:
                    verdict = "too many (sign case, path) combinations"
                    break
                for p in paths:
                    # blocks of this path that end in a call of `signum`: split on the sign of its argument (<=3 of them)
                    sg = [b_ for b_ in p[:-1] if f.blocks[b_]["term"]["t"] == "call"
                          and f.blocks[b_]["term"].get("path", "").endswith("::signum")][:3]
                    subs = [{}]
                    for b_ in sg:
                        subs = [{**c_, b_: sgn} for c_ in subs for sgn in (NEG, ZERO, POS)]
                    for sub in subs:
                        pa = _PathAnalyzer(f, A.prog, A.contracts, A.summary, A.hooks, A.param_contracts)
                        pa.allowed = set(zip(p, p[1:]))
                        pa.assume = case
                        pa.split_at = sub or None
                        try:
                            pa.run()
                        except RecursionError:
                            verdict = "analysis bailed"
                            break
                        runs += 1
                        if pa.bailed:
                            verdict = "analysis bailed"
                            break
                        pa_a, pa_b = _iv_at(pa, bi, si, sop), _iv_at(pa, bi, si, nop)
                        if pa_a == "infeasible" or pa_b == "infeasible":
                            continue
                        if not _same_sign(pa_a, pa_b):
                            verdict = "under the input signs %s%s, on the path %s the pair has intervals seconds=%s nanoseconds=%s" % (
                                _show_case(case), (" and signum-argument signs %s" % sorted((b_, {NEG: "<0", ZERO: "=0", POS: ">0"}[v]) for b_, v in sub.items())) if sub else "",
                                "->".join("bb%d" % x for x in p[-6:]), pa_a, pa_b)
                            break
                    if verdict or runs > 20000:
                        verdict = verdict or "too many analysis runs"
                        break
                if verdict:
                    break
            if verdict is None:
                rep.ok(rule, key, how="PATH: %d sign case(s) of the inputs, %d needed the per-path view, %d analysis runs, all sign-consistent"
                       % (len(cases), n_path_cases, runs), loc=loc)
                continue
            rep.classify(rule, key, reviewed, loc=loc,
                         detail="(seconds, nanoseconds) = (%s, %s) not shown sign-consistent: %s" % (a, b, verdict))
    rep.floor(rule + " sites", n, floor)


# ------------------------------------------------------------------------------------------------------------------
SIGN_READS = ("is_negative", "is_positive", "signum", "checked_neg", "is_zero")
CMP_OPS = ("Eq", "Ne", "Lt", "Le", "Gt", "Ge")
ABS_NAMES = ("abs", "unsigned_abs", "wrapping_abs", "checked_abs")


def run_loneabs(ctx, rep, cfg="Q", rule="LONE-ABS", floor=8):
    """abs() of ONE component of a (seconds, nanoseconds) carrier discards sign information that the other component may
    not carry (-0.5s has seconds == 0): every such site must be accompanied, in the same function, by a read of the
    whole value's sign, by abs of the other component as well, or by a test of the component's own / the seconds
    component's sign."""
    rep.rule(rule, "wherever abs/unsigned_abs is applied to a single component (seconds or nanoseconds) of a SignedDuration, "
                   "Timestamp or offset-like carrier, the same function also reads the sign of the whole value (is_negative, "
                   "is_positive, signum, checked_neg, is_zero on the carrier), takes the absolute value of the other component "
                   "too, or compares that component / the seconds component with a constant: the sign of a two-component value "
                   "cannot be recovered from one component (a sub-second negative duration has seconds == 0)")
    prog = ctx.prog(cfg)
    n = 0
    for f in sorted(prog.fns.values(), key=lambda f: f.key):
        if f.crate != "jiff":
            continue
        sites = [(bi, b["term"]) for bi, b in enumerate(f.blocks) if b["term"]["t"] == "call" and b["term"].get("args")
                 and b["term"].get("path", "").rsplit("::", 1)[-1] in ABS_NAMES]
        if not sites:
            continue
        T = Terms(f)
        found = []
        for bi, t in sites:
            sg = _sig(T.operand(t["args"][0], pos=(bi, "term")))
            if sg and sg[0] == "pair":
                found.append((bi, t, sg))
        if not found:
            continue
        # what the function reads about signs
        whole, comp_tests, abs_comps = set(), set(), set()
        for bi, b in enumerate(f.blocks):
            t = b["term"]
            if t["t"] == "call" and t.get("args"):
                name = t.get("path", "").rsplit("::", 1)[-1]
                a0 = T.operand(t["args"][0], pos=(bi, "term"))
                if name in SIGN_READS:
                    whole.add(_root(a0))
                    sg0 = _sig(a0)
                    if sg0 and sg0[0] == "pair":
                        comp_tests.add((_root(sg0[1]), sg0[2]))
                if name in ABS_NAMES:
                    sg0 = _sig(a0)
                    if sg0 and sg0[0] == "pair":
                        abs_comps.add((_root(sg0[1]), sg0[2]))
                if name in ("lt", "le", "gt", "ge", "eq", "ne", "cmp", "partial_cmp"):
                    for a in t["args"][:2]:
                        ta = T.operand(a, pos=(bi, "term"))
                        whole.add(_root(ta))
                        sga = _sig(ta)
                        if sga and sga[0] == "pair":
                            comp_tests.add((_root(sga[1]), sga[2]))
            for si, s in enumerate(b["st"]):
                if s["s"] == "=" and s["rv"]["k"] == "bin" and s["rv"]["op"] in CMP_OPS:
                    for a in (s["rv"]["a"], s["rv"]["b"]):
                        sga = _sig(T.operand(a, pos=(bi, si)))
                        if sga and sga[0] == "pair":
                            comp_tests.add((_root(sga[1]), sga[2]))
        ords = {}
        for bi, t, sg in found:
            n += 1
            x, comp = _root(sg[1]), sg[2]
            ords[comp] = ords.get(comp, 0) + 1
            key = norm_key("%s | abs(%s component)#%d" % (f.key, {"s": "seconds", "n": "nanoseconds"}[comp], ords[comp]))
            loc = "%s:%s" % (f.file, (t.get("span") or {}).get("line"))
            other = "n" if comp == "s" else "s"
            if x in whole:
                rep.ok(rule, key, how="the whole value's sign is read in the same function", loc=loc)
            elif (x, other) in abs_comps:
                rep.ok(rule, key, how="absolute value of both components (pair-wise abs)", loc=loc)
            elif (x, comp) in comp_tests or (x, "s") in comp_tests:
                rep.ok(rule, key, how="the sign of the %s component is tested in the same function" % ("same" if (x, comp) in comp_tests else "seconds"), loc=loc)
            else:
                rep.violation(rule, key, "abs() of the %s component of a signed value, but the function never reads the sign of the "
                              "whole value nor of the seconds component: the sign of a value with seconds == 0 is lost"
                              % {"s": "seconds", "n": "nanoseconds"}[comp], loc)
    rep.floor(rule + " sites", n, floor)


def _root(t):
    """the carrier a term denotes, through clones, derefs, variants and try payloads"""
    for _ in range(12):
        if t[0] in ("cast", "try", "variant"):
            t = t[1]
        elif t[0] == "field" and t[2] in ("0",):
            t = t[1]
        elif t[0] == "call" and t[2] and t[1].endswith(("::clone", "::deref", "::borrow", "::as_ref", "::into", "::from")):
            t = t[2][0]
        else:
            break
    return t


# ------------------------------------------------------------------------------------------------------------------
CHECKED_CONV = ("::try_rfrom", "::try_new", "::try_new128", "::try_from", "::try_rinto", "::try_into", "::checked_add", "::checked_sub")


def _euclid_parts(t, depth=0):
    """(dividend, divisor, 'q'|'r', passed_checked_conversion) if the term is the quotient/remainder of the ranged integers'
    `/` or `%` operator (Euclidean: the remainder is never negative), possibly wrapped in conversions"""
    checked = False
    for _ in range(12):
        if t[0] in ("cast", "try", "variant"):
            t = t[1]
        elif t[0] == "field" and t[2] in ("0", "val"):
            t = t[1]
        elif t[0] == "call" and t[1].endswith(("::unwrap", "::expect", "::get", "::rinto", "::rfrom", "::from", "::into")) and t[2]:
            t = t[2][0]
        elif t[0] == "call" and t[1].endswith(CHECKED_CONV) and t[2]:
            checked = True
            t = t[2][-1]
        else:
            break
    if t[0] == "call" and "util::rangeint::ri" in t[1] and len(t[2]) == 2:
        if re.search(r" as core::ops::Div(<.*>)?>::div$", t[1]):
            return (t[2][0], t[2][1], "q", checked)
        if re.search(r" as core::ops::Rem(<.*>)?>::rem$", t[1]):
            return (t[2][0], t[2][1], "r", checked)
    return None


def run_truncsplit(ctx, rep, cfg="Q", rule="TRUNC-SPLIT", floor=2):
    """SignedDuration keeps seconds and nanoseconds of one sign; the ranged integers' `/` and `%` are Euclidean"""
    rep.rule(rule, "where SignedDuration::new(secs, nanos) receives quotient and remainder of one nanosecond count computed with the "
                   "ranged integers' Euclidean `/` and `%` (remainder never negative), the quotient has not been range-checked on the "
                   "way: for a negative count with a fraction the Euclidean quotient is one below the seconds of the value, so a check "
                   "of it rejects values down to one second above the minimum that the normalising constructor would have accepted "
                   "(e.g. SignedDuration::MIN itself); truncating div_ceil/rem_ceil splits are always fine")
    prog = ctx.prog(cfg)
    n = 0
    for f in sorted(prog.fns.values(), key=lambda f: f.key):
        if f.crate != "jiff":
            continue
        calls = [(bi, t) for bi, t in mir.iter_calls(f) if t.get("path") == "signed_duration::SignedDuration::new" and len(t.get("args", [])) == 2]
        if not calls:
            continue
        T = Terms(f)
        ords = 0
        for bi, t in calls:
            q, r = _euclid_parts(T.at_call(bi, t, 0)), _euclid_parts(T.at_call(bi, t, 1))
            if not (q and r and q[2] == "q" and r[2] == "r" and q[0] == r[0] and q[1] == r[1]):
                continue
            n += 1
            ords += 1
            key = norm_key("%s | euclid-split#%d" % (f.key, ords))
            loc = "%s:%s" % (t["span"]["file"], t["span"]["line"])
            if q[3]:
                rep.violation(rule, key, "the Euclidean quotient of the nanosecond count is range-checked before SignedDuration::new "
                              "normalises the pair: a representable negative value with a fraction whose seconds are the minimum is "
                              "rejected (its floor is minimum - 1)", loc)
            else:
                rep.ok(rule, key, how="Euclidean split handed to the normalising constructor unchecked", loc=loc)
    rep.floor(rule + " sites", n, floor)


# ---------------------------------------------------------------------------------------------------------------------
# MIN-PAIR: the one pair that is sign-consistent and still not an instant

def run_minpair(ctx, rep, cfg="Q", rule="MIN-PAIR", floor=9):
    """Timestamp::MIN is (MIN seconds, 0 ns): the pair (MIN seconds, negative nanoseconds) is sign-consistent, so SIGN-PAIR accepts it,
    but it denotes an instant below the minimum.  Every function that assembles a Timestamp has to exclude it."""
    from .guards import strip_not
    reviewed = load_tsv("signpair")
    rep.rule(rule, "every function that builds a `Timestamp { second, nanosecond }` from non-constant parts excludes the pair (minimal "
                   "second, negative nanosecond), an instant below Timestamp::MIN that both components' own range checks admit: "
                   "either the nanosecond operand is the constant 0, or the function tests `second == <constant>` and, on the "
                   "true edge of that test, `nanosecond < 0` on exactly the terms it stores, and the true edge of the second test "
                   "cannot reach a successful return (it panics or returns Err); otherwise a reviewed reason says why the pair "
                   "cannot arise. A comparison of whole instants built with as_nanosecond_ranged() does not count: that function "
                   "clamps exactly this pair to Timestamp::MIN")
    prog = ctx.prog(cfg)
    n = 0
    for f in sorted(prog.fns.values(), key=lambda f: f.key):
        if f.crate != "jiff":
            continue
        aggs = [(bi, si, s) for bi, b in enumerate(f.blocks) for si, s in enumerate(b["st"])
                if s["s"] == "=" and s["rv"]["k"] == "agg" and s["rv"].get("adt") == "timestamp::Timestamp"]
        if not aggs:
            continue
        T = Terms(f)
        cfg_ = mir.CFG(f)
        # success blocks: assignments of the return place that are not an Err / residual
        success = set()
        for bi, b in enumerate(f.blocks):
            for s in b["st"]:
                if s["s"] == "=" and s["lhs"]["l"] == 0 and not s["lhs"].get("p"):
                    rv = s["rv"]
                    if rv["k"] == "agg" and rv.get("variant") in ("Err", "None"):
                        continue
                    success.add(bi)
            t = b["term"]
            if t["t"] == "call" and t.get("dest") is not None and t["dest"]["l"] == 0 and not t["dest"].get("p") and \
                    not (t.get("path", "").endswith("::from_residual") or "FromResidual" in t.get("path", "")):
                success.add(bi)
        sw = []
        for bi, b in enumerate(f.blocks):
            t = b["term"]
            if t["t"] == "switch" and t.get("op_ty") == "bool" and bi in cfg_.reachable():
                c = T.operand(t["op"], 0, (bi, "term"))
                c2, truth = strip_not(c, True)
                vals = list(t["vals"])
                if vals == [0]:
                    tru, fal = t["otherwise"], t["targets"][0]
                elif vals == [1]:
                    tru, fal = t["targets"][0], t["otherwise"]
                else:
                    continue
                if truth is False:
                    tru, fal = fal, tru
                sw.append((bi, c2, tru, fal))

        def cmp_parts(c, names, ops):
            if c[0] == "call" and c[1].rsplit("::", 1)[-1] in names and len(c[2]) == 2:
                return c[2][0], c[2][1]
            if c[0] == "bin" and c[1] in ops:
                return c[2], c[3]
            return None

        def is_zero(t_):
            return t_ == ("const", 0) or (t_[0] == "call" and t_[1].rsplit("::", 1)[-1] in ("C", "C128", "N") and (not t_[2] or t_[2][0] == ("const", 0)))

        def is_const(t_):
            return t_[0] == "const" or (t_[0] == "call" and t_[1].rsplit("::", 1)[-1] in ("C", "N", "MIN_SELF"))

        ords = 0
        for (bi, si, s) in aggs:
            ords += 1
            n += 1
            key = norm_key("%s | Timestamp{..} min#%d" % (f.key, ords))
            loc = "%s:%s" % (f.file, s.get("ln"))
            fields = dict(zip(s["rv"]["fields"], s["rv"]["ops"]))
            S = T.operand(fields["second"], pos=(bi, si))
            N = T.operand(fields["nanosecond"], pos=(bi, si))
            if is_zero(N):
                rep.ok(rule, key, how="the nanosecond is the constant 0", loc=loc, nontrivial=False)
                continue
            found = None
            for (b1, c1, t1, _f1) in sw:
                p1 = cmp_parts(c1, ("eq",), ("Eq",))
                if not p1:
                    continue
                a1, k1 = p1 if is_const(p1[1]) else (p1[1], p1[0])
                if not is_const(k1) or is_zero(k1):
                    continue
                for (b2, c2, t2, _f2) in sw:
                    p2 = cmp_parts(c2, ("lt",), ("Lt",))
                    if not p2 or not is_zero(p2[1]):
                        continue
                    if not (b2 == t1 or cfg_.can_reach(t1, b2)):
                        continue
                    if any(t2 == sb or cfg_.can_reach(t2, sb) for sb in success):
                        continue
                    found = (a1, p2[0], b1, b2)
                    if a1 == S and p2[0] == N:
                        break
                if found and found[0] == S and found[1] == N:
                    break
            if found and found[0] == S and found[1] == N:
                rep.ok(rule, key, how="guarded: second == <const> and nanosecond < 0 leave the function without success (blocks %d, %d)" % (found[2], found[3]), loc=loc)
            elif found and (S == found[0] or any(x == found[0] for x in walk(S))) and (N == found[1] or any(x == found[1] for x in walk(N))):
                rep.ok(rule, key, how="guarded on the inputs the stored pair is computed from (blocks %d, %d)" % (found[2], found[3]), loc=loc)
            elif len(f.get("params") or []) == 1 and re.match(r"^util::rangeint::ri(64|128)<\{\s*UnixSeconds::MIN \* (MILLIS|MICROS|NANOS)_PER_SECOND\.bound\(\)\s*\},", f["params"][0]) \
                    and any(isinstance(x, tuple) and x and x[0] == "call" and x[1].endswith("::div_ceil") for x in walk(S)) \
                    and any(isinstance(x, tuple) and x and x[0] == "call" and x[1].endswith("::rem_ceil") for x in walk(N)):
                rep.ok(rule, key, how="second = x / unit and nanosecond from x % unit (truncating) of a parameter whose type's lower bound is "
                       "UnixSeconds::MIN * unit: the minimal second is reached only by the bound itself, whose remainder is 0", loc=loc)
            else:
                rep.classify(rule, key, reviewed, loc=loc, detail="the pair stored here (second = %s, nanosecond = %s) is not excluded from being (minimal second, negative "
                              "nanosecond): no test `second == <constant>` followed on its true edge by `nanosecond < 0` on these terms leaves "
                              "the function without success, so an instant up to one second below Timestamp::MIN can be returned as Ok"
                              % (show(S, maxd=3)[:80], show(N, maxd=3)[:80]))
    rep.floor(rule + " sites", n, floor)


# ---------------------------------------------------------------------------------------------------------------------
# REM-CARRY: piecewise division of a two-limb value

def run_remcarry(ctx, rep, cfg="Q", rule="REM-CARRY"):
    """SignedDuration is a two-limb number (seconds, nanoseconds); dividing it limb by limb is exact only when every remainder is
    carried into the next smaller limb"""
    rep.rule(rule, "SignedDuration::checked_div divides the seconds and the nanoseconds separately by the same divisor; the quotient is "
                   "the exact truncated quotient of the whole value only if the remainder of each limb is carried down: the "
                   "nanosecond of the result is a term that contains, for every limb L that is divided by the divisor, the "
                   "remainder `L % divisor` (seconds scaled by 10^9). A dropped `nanos % rhs` loses up to one nanosecond "
                   "(1s 2ns / 3 = 333_333_333 instead of 333_333_334)")
    prog = ctx.prog(cfg)
    f = prog.fns.get("jiff::signed_duration::SignedDuration::checked_div")
    if f is None:
        rep.anchor_missing("signed_duration::SignedDuration::checked_div")
        return
    T = Terms(f)
    sites = [(bi, t) for bi, t in mir.iter_calls(f) if t.get("path", "").endswith("SignedDuration::new_unchecked") or t.get("path", "").endswith("SignedDuration::new")]
    aggs = [(bi, si, s) for bi, b in enumerate(f.blocks) for si, s in enumerate(b["st"])
            if s["s"] == "=" and s["rv"]["k"] == "agg" and s["rv"].get("adt") == "signed_duration::SignedDuration"]
    pairs = [(T.at_call(bi, t, 0), T.at_call(bi, t, 1), t["span"]["line"]) for bi, t in sites if len(t.get("args", [])) >= 2]
    for (bi, si, s) in aggs:
        d = dict(zip(s["rv"]["fields"], s["rv"]["ops"]))
        if "secs" in d and "nanos" in d:
            pairs.append((T.operand(d["secs"], pos=(bi, si)), T.operand(d["nanos"], pos=(bi, si)), s.get("ln")))
    if not pairs:
        rep.violation(rule, "checked_div", "anchor missing: no construction of the result found", f.loc())
        return

    def strip(t_):
        while isinstance(t_, tuple) and t_ and t_[0] == "cast":
            t_ = t_[1]
        return t_

    for (S, N, ln) in pairs:
        divs = set()
        for x in list(walk(S)) + list(walk(N)):
            if isinstance(x, tuple) and x and x[0] == "bin" and x[1] == "Div":
                a = strip(x[2])
                if a[0] == "field" and a[2] in ("secs", "nanos"):
                    divs.add((a[2], strip(x[3])))
        rems = set()
        for x in walk(N):
            if isinstance(x, tuple) and x and x[0] == "bin" and x[1] == "Rem":
                a = strip(x[2])
                if a[0] == "field" and a[2] in ("secs", "nanos"):
                    rems.add((a[2], strip(x[3])))
        loc = "%s:%s" % (f.file, ln)
        limbs = {l for (l, _d) in divs}
        if limbs != {"secs", "nanos"}:
            rep.violation(rule, "checked_div", "shape not recognised: expected self.secs and self.nanos each divided by the divisor, found %s" % sorted(limbs), loc)
        elif divs <= rems:
            rep.ok(rule, "checked_div", how="the result's nanosecond contains secs %% rhs and nanos %% rhs", loc=loc)
        else:
            rep.violation(rule, "checked_div", "the remainder of %s is not carried into the result's nanosecond: the quotient is not the exact "
                          "truncated quotient of the whole duration (1s 2ns / 3 gives 333_333_333 ns instead of 333_333_334)"
                          % sorted(l for (l, d_) in divs - rems), loc)


# ---------------------------------------------------------------------------------------------------------------------
# NEG-MAGNITUDE: -(checked conversion of an unsigned magnitude) can never be the signed minimum

def run_negmagnitude(ctx, rep, cfg="Q", rule="NEG-MAGNITUDE", floor=1):
    from .guards import guards, strip_not
    rep.rule(rule, "a signed value produced by negating the Ok payload of a checked unsigned-to-signed conversion (`-T::try_from(u)?`, "
                   "`T::try_from(u)?.checked_neg()`) cannot be T::MIN, whose magnitude the conversion rejects although the negated value "
                   "is representable: every such negation in the crate is on a path that has tested the magnitude against |MIN| (a "
                   "comparison with 2^63 / i64::MIN.unsigned_abs()) and handles that case separately; otherwise results in "
                   "[T::MIN, -(2^63) s] are reported as overflow (SignedDuration::system_until for times 2^63 s apart)")
    prog = ctx.prog(cfg)
    n = 0
    TWO63 = 1 << 63
    for f in sorted(prog.fns.values(), key=lambda f: f.key):
        if f.crate != "jiff":
            continue
        negs = [(bi, t) for bi, t in mir.iter_calls(f) if re.search(r"::(checked_neg|neg|wrapping_neg|saturating_neg)$", t.get("path", ""))]
        if not negs:
            continue
        T = Terms(f)
        cfg_ = mir.CFG(f)
        ords = 0
        for bi, t in negs:
            a = T.at_call(bi, t, 0)
            conv = [x for x in walk(a) if isinstance(x, tuple) and x and x[0] == "call"
                    and re.search(r"TryFrom<core::time::Duration>.*::try_from$|TryFrom<u(64|128|size|32)>.*::try_from$", x[1])]
            if not conv:
                continue
            n += 1
            ords += 1
            key = norm_key("%s | NEG-MAGNITUDE#%d" % (f.key, ords))
            loc = "%s:%s" % (f.file, t["span"]["line"])
            tested = False
            for (c, _truth, _sb) in guards(f, cfg_, T, bi):
                for x in walk(c):
                    if x == ("const", TWO63) or (isinstance(x, tuple) and x and x[0] == "call" and x[1].endswith("::unsigned_abs")):
                        tested = True
            if tested:
                rep.ok(rule, key, how="the path has compared the magnitude with |MIN| and handles it separately", loc=loc)
            else:
                rep.violation(rule, key, "the Ok payload of %s is negated on a path that never compared the magnitude with |MIN|: a result "
                              "equal to the signed minimum (magnitude 2^63 s) is rejected by the conversion although it is representable"
                              % conv[0][1].split(" as ")[0][-60:], loc)
    rep.floor(rule + " sites", n, floor)


# ------------------------------------------------------------------------------------------------------------------
_SEC_GET = ("as_secs", "as_second", "as_second_ranged")
_NANO_GET = ("subsec_nanos", "subsec_nanosecond", "subsec_nanosecond_ranged")
_WHOLE = ("is_negative", "is_positive", "is_zero", "signum")
_UNWRAP = ("get", "rinto", "rfrom", "into", "from", "get_unchecked", "without_bounds", "clone")


def _component(t, in_carrier=False):
    """('s'|'n', carrier term) if t is the seconds / nanoseconds component of a SignedDuration / Timestamp / ITimestamp value"""
    while isinstance(t, tuple) and t and ((t[0] == "call" and t[1].rsplit("::", 1)[-1] in _UNWRAP and t[2]) or t[0] == "cast"):
        t = t[2][0] if t[0] == "call" else t[1]
    if isinstance(t, tuple) and t and t[0] == "call" and t[2] and ("SignedDuration" in t[1] or "Timestamp" in t[1]):
        last = t[1].rsplit("::", 1)[-1]
        if last in _SEC_GET:
            return ("s", t[2][0])
        if last in _NANO_GET:
            return ("n", t[2][0])
    if in_carrier and isinstance(t, tuple) and t and t[0] == "field" and t[2] in S_NAMES:
        return (S_NAMES[t[2]], t[1])
    return None


def _is_zero_const(t):
    while isinstance(t, tuple) and t and t[0] == "cast":
        t = t[1]
    if t == ("const", 0):
        return True
    return isinstance(t, tuple) and t and t[0] == "call" and t[1].rsplit("::", 1)[-1] in ("C", "N", "rfrom", "rinto", "new_unchecked") \
        and len(t[2]) == 1 and _is_zero_const(t[2][0])


def run_partsign(ctx, rep, cfg="Q", rule="PART-SIGN", floor=1):
    """the sign of a (seconds, nanoseconds) value is not the sign of its seconds"""
    rep.rule(rule, "wherever the whole-seconds component of a SignedDuration / Timestamp / ITimestamp is compared with zero, the same "
                   "function also reads the nanosecond component (or is_negative/is_positive/is_zero/signum) of the same value: "
                   "the seconds of -0.5s are 0, so `as_secs() < 0` is false for a negative value - a direction decided by it "
                   "(saturating arithmetic, clamping, printing a sign) is wrong for every value in (-1s, 0)")
    prog = ctx.prog(cfg)
    n = 0
    for f in sorted(prog.fns.values(), key=lambda f: f.key):
        if f.crate != "jiff":
            continue
        T = None
        tests = []
        inc = any(x in f.path for x in ("SignedDuration", "timestamp::Timestamp", "ITimestamp"))   # field reads count only inside the carriers' own impls
        for bi, b in enumerate(f.blocks):
            for si, s in enumerate(b["st"]):
                if s["s"] == "=" and s["rv"]["k"] == "bin" and s["rv"].get("op") in ("Lt", "Le", "Gt", "Ge"):
                    T = T or Terms(f)
                    x, y = T.operand(s["rv"]["a"], pos=(bi, si)), T.operand(s["rv"]["b"], pos=(bi, si))
                    tests.append((x, y, s.get("ln")))
            t = b["term"]
            if t["t"] == "call" and re.search(r"PartialOrd.*::(lt|le|gt|ge)$", t.get("path", "")) and len(t.get("args", [])) == 2:
                T = T or Terms(f)
                tests.append((T.at_call(bi, t, 0), T.at_call(bi, t, 1), (t.get("span") or {}).get("line")))
        k = 0
        for (x, y, ln) in tests:
            for a, z in ((x, y), (y, x)):
                c = _component(a, inc)
                if not (c and c[0] == "s" and _is_zero_const(z)):
                    continue
                n += 1
                k += 1
                key = norm_key("%s | seconds vs 0 #%d" % (f.key, k))
                loc = "%s:%s" % (f.file, ln)
                carrier = c[1]
                other = False
                for bi, b in enumerate(f.blocks):
                    for si, s in enumerate(b["st"]):
                        if s["s"] == "=" and s["rv"]["k"] in ("use", "bin", "cast"):
                            for opk in ("a", "b"):
                                if opk in s["rv"] and isinstance(s["rv"][opk], dict) and s["rv"][opk].get("o") in ("cp", "mv"):
                                    c2 = _component(T.operand(s["rv"][opk], pos=(bi, si)), inc)
                                    if c2 and c2[0] == "n" and c2[1] == carrier:
                                        other = True
                    t = b["term"]
                    if t["t"] == "call" and t.get("args"):
                        last = t.get("path", "").rsplit("::", 1)[-1]
                        if (last in _NANO_GET or last in _WHOLE) and T.at_call(bi, t, 0) == carrier:
                            other = True
                if other:
                    rep.ok(rule, key, how="the nanoseconds (or the whole value's sign) of the same value are read as well", loc=loc)
                else:
                    rep.violation(rule, key, "the seconds component of %s is compared with zero and nothing else of that value is "
                                  "consulted: wrong for values strictly between -1s and 0" % show(carrier, maxd=2)[:60], loc)
    rep.floor(rule + " sites", n, floor)
