"""Result collection, reviewed tables, known findings, evidence and exit
protocol shared by all property checks."""
import json, os, sys, time, hashlib

VERIF = os.path.dirname(os.path.dirname(os.path.abspath(__file__)))


def load_tsv(name):
    """reviewed/<name>.tsv: `key<TAB>reason`; '#' comments."""
    path = os.path.join(VERIF, "reviewed", name + ".tsv")
    out = {}
    if not os.path.exists(path):
        return out
    with open(path) as fh:
        for line in fh:
            line = line.rstrip("\n")
            if not line.strip() or line.startswith("#"):
                continue
            parts = line.split("\t")
            if len(parts) < 2 or not parts[1].strip():
                raise SystemExit("reviewed/%s.tsv: entry without a reason: %r" % (name, line[:80]))
            out[parts[0]] = parts[1].strip()
    return out


def load_known():
    path = os.path.join(VERIF, "known_findings.json")
    if not os.path.exists(path):
        return {"findings": [], "fixed": []}
    with open(path) as fh:
        return json.load(fh)


class Obligation:
    __slots__ = ("rule", "key", "status", "how", "loc", "detail", "nontrivial")

    def to_json(self):
        return {"rule": self.rule, "key": self.key, "status": self.status, "how": self.how,
                "loc": self.loc, "detail": self.detail}


class Report:
    """status: auto | reviewed | known | violation"""

    def __init__(self, prop, tier):
        self.prop = prop
        self.tier = tier
        self.t0 = time.time()
        self.obs = []
        self.analysed = {}
        self.rules = {}        # rule -> clause text
        self.notes = []
        self.configs = []
        self.floors = []       # (name, measured, floor)
        self.reviewed_used = set()
        self.known = load_known()
        self.trusted = [
            "rustc type checker, MIR construction at -Zmir-opt-level=0, Instance::try_resolve, const-eval of constant items",
            "jv-driver fact extraction and the Python rule packs under /verif/jv",
            "std panic table (E1-b): unlisted std functions assumed not to panic except on allocation failure",
        ]
        self.assumptions = []

    # ------------------------------------------------------------------
    def rule(self, name, clause):
        self.rules[name] = clause

    def add(self, rule, key, status, how, loc="", detail="", nontrivial=True):
        o = Obligation()
        o.rule, o.key, o.status, o.how, o.loc, o.detail, o.nontrivial = rule, key, status, how, loc, detail, nontrivial
        self.obs.append(o)
        return o

    def ok(self, rule, key, how="auto", loc="", detail="", nontrivial=True):
        return self.add(rule, key, "auto", how, loc, detail, nontrivial)

    def violation(self, rule, key, detail, loc=""):
        """Report a rule violation unless it is a listed known finding."""
        for f in self.known.get("findings", []):
            if f.get("property") == self.prop and f.get("key") == key:
                return self.add(rule, key, "known", f.get("what", ""), loc, detail)
        return self.add(rule, key, "violation", "", loc, detail)

    def classify(self, rule, key, reviewed, loc="", detail=""):
        """For residue sites: reviewed table -> known finding -> violation."""
        if key in reviewed:
            self.reviewed_used.add(key)
            return self.add(rule, key, "reviewed", reviewed[key], loc, detail)
        return self.violation(rule, key, detail, loc)

    def floor(self, name, measured, floor):
        self.floors.append((name, measured, floor))
        if measured < floor:
            self.add("FLOOR", name, "violation", "",
                     detail="analysed count %d fell below the floor %d counted on the pinned tree "
                            "(a rule that matches nothing passes vacuously)" % (measured, floor))

    def anchor_missing(self, what):
        self.add("ANCHOR", what, "violation", "", detail="named anchor not found in the type-checked program: " + what)

    # ------------------------------------------------------------------
    def finish(self):
        wall = time.time() - self.t0
        viol = [o for o in self.obs if o.status == "violation"]
        known = [o for o in self.obs if o.status == "known"]
        auto = [o for o in self.obs if o.status == "auto"]
        rev = [o for o in self.obs if o.status == "reviewed"]
        out_dir = os.path.join(VERIF, "out")
        os.makedirs(out_dir, exist_ok=True)
        # developer aid (tools/unused_reviewed.py): record which reviewed keys this run relied on
        if os.environ.get("JV_USED_OUT"):
            with open(os.environ["JV_USED_OUT"], "a") as fh:
                for o in rev:
                    fh.write(o.key + "\n")
        for f in os.listdir(out_dir):
            if f.startswith("violation-%s-" % self.prop):
                os.unlink(os.path.join(out_dir, f))
        # replay files
        lines = []
        for o in known:
            lines.append("KNOWN-FINDING: property=%s %s [%s] %s" % (self.prop, o.how, o.rule, o.key))
        for i, o in enumerate(viol):
            h = hashlib.sha1((o.rule + o.key).encode()).hexdigest()[:10]
            path = os.path.join(out_dir, "violation-%s-%s.json" % (self.prop, h))
            with open(path, "w") as fh:
                json.dump({"property": self.prop, "rule": o.rule, "clause": self.rules.get(o.rule, ""),
                           "instance": o.key, "loc": o.loc, "detail": o.detail, "tier": self.tier}, fh, indent=1)
            lines.append("VIOLATION property=%s replay=%s" % (self.prop, path))
            if i < 12:
                lines.append("  rule=%s at %s\n  instance: %s\n  %s" % (o.rule, o.loc, o.key, o.detail))
            elif i == 12:
                lines.append("  (details of further violations are in their replay files)")
        # evidence
        per_rule = {}
        for o in self.obs:
            d = per_rule.setdefault(o.rule, {"obligations": 0, "auto": 0, "reviewed": 0, "known": 0, "violation": 0})
            d["obligations"] += 1
            d[o.status] += 1
        samples = []
        seen_rules = set()
        for o in self.obs:
            if o.rule not in seen_rules or (o.status != "auto" and len(samples) < 40):
                seen_rules.add(o.rule)
                samples.append(o.to_json())
            if len(samples) >= 60:
                break
        distinct_nontrivial = len({(o.rule, o.key) for o in self.obs if o.nontrivial})
        ev = {
            "property_id": self.prop,
            "tier": self.tier,
            "seed": int(os.environ.get("VERIF_SEED", "0") or 0),
            "level": "other",
            "coverage": {
                "explanation": "Static analysis of the type-checked program (rustc MIR facts of /repo's working tree, "
                               "extracted on this run). Rules and the clause each decides: "
                               + "; ".join("%s: %s" % kv for kv in self.rules.items())
                               + (" Notes: " + " ".join(self.notes) if self.notes else ""),
                "obligations": len(self.obs),
                "discharged": len(auto) + len(rev) + len(known),
                "discharged_auto": len(auto),
                "discharged_reviewed": len(rev),
                "known_findings": len(known),
                "evaluations": len(self.obs),
                "distinct_nontrivial": max(distinct_nontrivial, 0),
                "rule": "one obligation per rule instance generated from the tree on this run; non-trivial = "
                        "needed more than type information to discharge (dataflow/interval/guard/table "
                        "reasoning, a reviewed reason, or a known finding); distinct by (rule, site key)",
                "samples": samples,
                "per_rule": per_rule,
                "analysed": self.analysed,
                "configurations": self.configs,
                "floors": [{"name": n, "measured": m, "floor": f} for (n, m, f) in self.floors],
                "checker_cmd": "./check %s --tier %s" % (self.prop, self.tier),
                "trusted_base": self.trusted,
                "exhaustive": False,
            },
            "assumptions": self.assumptions,
            "wall_s": round(wall, 2),
            "violations": len(viol),
        }
        os.makedirs(os.path.join(VERIF, "evidence"), exist_ok=True)
        with open(os.path.join(VERIF, "evidence", self.prop + ".json"), "w") as fh:
            json.dump(ev, fh, indent=1)
        out = ["[%s/%s] obligations=%d auto=%d reviewed=%d known=%d violations=%d wall=%.1fs" %
               (self.prop, self.tier, len(self.obs), len(auto), len(rev), len(known), len(viol), wall)]
        for r, d in sorted(per_rule.items()):
            out.append("   %-22s %s" % (r, " ".join("%s=%d" % kv for kv in d.items() if kv[1])))
        out += lines
        try:
            sys.stdout.write("\n".join(out) + "\n")
            sys.stdout.flush()
        except BrokenPipeError:
            # the reader went away (e.g. `| head`): the verdict is still the exit status and the evidence file
            try:
                sys.stdout = open(os.devnull, "w")
            except OSError:
                pass
        return 1 if viol else 0
