"""Rules written after the fifth round of seeded changes (DESIGN 9.6, round 5).

SPAN-CARRY       quotient and remainder that become units of one Span come from a truncating division
CANON-NAME       a zone found by a database is named by the database's entry, never by the caller's query
LOOKAHEAD-AGREE  the first-byte pre-check of the optional-offset parser admits exactly what the offset parser starts with
DUMMY-GUARD      Tzif::previous_transition never yields the dummy entry 0: the index is tested after its last change
SIBLING-SOURCE   the variants of one strftime directive family read the same calendar fact
CLAMP-GUARD      a clamp of a ranged value against a constant applies only under its reviewed conditions
TYPE-WRITERS     the local time type of a TZif transition is written only by the decoder of the type block

All of them read the MIR facts of /repo's working tree; none runs jiff code.
"""
import re
from . import mir
from .term import Terms, walk, show, is_call
from .guards import guards, strip_not
from .report import load_tsv

_SETTER = re.compile(r"span::Span::(try_)?(years|months|weeks|days|hours|minutes|seconds|milliseconds|microseconds|nanoseconds)_ranged$")
_EUCLID = ("div", "rem", "div_floor", "rem_floor", "div_assign", "rem_assign")
_TRUNC = ("div_ceil", "rem_ceil")

# functions that set Span units and divide with the Euclidean flavour on purpose: fn path -> reason
SPAN_CARRY_REVIEWED = {
    "jiff::fmt::util::fractional_time_to_span":
        "divides the magnitude of a parsed fraction: every `nanos / K; nanos %= K` is inside `if .. && nanos > C(0)`, value and "
        "fraction are unsigned parser outputs (the parser applies the sign to the finished span), so Euclidean = truncating here",
    "jiff::civil::time::Time::overflowing_add":
        "wall-clock wrap-around: the sum of the time of day and the span is floored into (days, time of day); the quotient is "
        "returned as a separate day count, only the result's own span is built with setters, from that one quotient",
}


def span_carry(rep, prog, rule="SPAN-CARRY", floor=12):
    rep.rule(rule, "in a function that stores units of a Span (the <unit>_ranged / try_<unit>_ranged setters), every division of a ranged "
                   "integer is the truncating pair div_ceil / rem_ceil (which, on jiff's ranged integers, truncate toward zero): a Span "
                   "is magnitudes plus ONE sign, so the quotient carried up and the remainder left behind must have the sign of the "
                   "dividend. The ranged `/` and `%` are Euclidean: -10 days become -2 weeks and +4 days, which the setters store as "
                   "-2w 4d = -18 days. Functions that divide a known non-negative magnitude are listed with a reason")
    n_trunc = n_fn = 0
    seen_fns = []
    for name, g in sorted(prog.fns.items()):
        if not name.startswith("jiff::") or "rangeint" in name:
            continue
        calls = [t for _bi, t in mir.iter_calls(g)]
        if not any(_SETTER.search(t.get("path", "")) for t in calls):
            continue
        eu = [t for t in calls if "rangeint" in t.get("path", "") and t["path"].rsplit("::", 1)[-1] in _EUCLID]
        tr = [t for t in calls if "rangeint" in t.get("path", "") and t["path"].rsplit("::", 1)[-1] in _TRUNC]
        if not eu and not tr:
            continue
        n_fn += 1
        n_trunc += len(tr)
        seen_fns.append(name)
        if not eu:
            rep.ok(rule, name, how="%d truncating divisions, no Euclidean one" % len(tr), loc=g.loc())
        elif name in SPAN_CARRY_REVIEWED:
            rep.add(rule, name, "reviewed", SPAN_CARRY_REVIEWED[name], g.loc(), "%d Euclidean ranged divisions" % len(eu))
        else:
            t = eu[0]
            rep.violation(rule, name, "%d Euclidean ranged division(s) (`/`, `%%`, div_floor/rem_floor; first at line %s) in a function "
                          "that stores Span units: for a negative dividend the quotient is rounded down and the remainder is "
                          "non-negative, so the two units get different signs and the span denotes another duration"
                          % (len(eu), t["span"]["line"]), "%s:%s" % (t["span"]["file"], t["span"]["line"]))
    # 56 on the pinned tree (28 + 28 in Span::from_invariant_nanoseconds alone); the floor is far lower because sharing the arm
    # prefixes through helpers (a behaviour-preserving refactor) removes most of the duplicates
    rep.floor(rule + " truncating divisions in unit-storing functions", n_trunc, floor)
    if not any(n.startswith("jiff::span::Span::from_invariant_nanoseconds") for n in seen_fns):
        rep.violation(rule, "anchor", "anchor missing: Span::from_invariant_nanoseconds (or a helper named after it) no longer both "
                      "divides and stores units", "src/span.rs")
    return n_fn


# ------------------------------------------------------------------------------------------------------------------
_STRIP = ("unwrap", "as_str", "deref", "as_ref", "borrow", "clone", "to_string", "into", "from", "as_bytes", "from_utf8", "to_owned", "expect")


def _strip(t):
    while isinstance(t, tuple) and t:
        if t[0] == "call" and t[1].rsplit("::", 1)[-1] in _STRIP and t[2]:
            t = t[2][0]
        elif t[0] in ("try", "cast", "variant", "ref", "deref"):
            t = t[1]
        else:
            break
    return t


def _arg_at_callers(prog, callee_name, param_local):
    """(caller name, argument term) for every call of `callee_name` (a `crate::path` key of prog.fns) inside the program; the
    MIR local of a parameter is its 1-based position"""
    short = callee_name.split("::", 1)[1]
    for cn, cg in prog.fns.items():
        T = None
        for bi, t in mir.iter_calls(cg):
            if t.get("path") == short and len(t.get("args", [])) >= param_local:
                T = T or Terms(cg)
                yield (cn, T.at_call(bi, t, param_local - 1))


def _is_query(prog, fn_name, term, depth):
    """does `term` (evaluated in fn_name) come down to a string parameter handed in from outside the crate?"""
    s = _strip(term)
    if not (isinstance(s, tuple) and s and s[0] == "param"):
        return False
    if depth >= 3:
        return True
    up = list(_arg_at_callers(prog, fn_name, s[1]))
    if not up:
        return True
    return any(_is_query(prog, cn, ct, depth + 1) for (cn, ct) in up)


def _canon_sites(prog, prefix, skip=(), depth=0):
    """yield (fn name, ordinal, loc, name term, verdict) for every call of TimeZone::tzif in functions under `prefix`;
    verdict is None when fine, else a text"""
    for name, g in sorted(prog.fns.items()):
        if not name.startswith(prefix) or any(name.startswith(x) for x in skip):
            continue
        T = None
        k = 0
        for bi, t in mir.iter_calls(g):
            if not t.get("path", "").endswith("TimeZone::tzif"):
                continue
            T = T or Terms(g)
            k += 1
            a = T.at_call(bi, t, 0)
            loc = "%s:%s" % (t["span"]["file"], t["span"]["line"])
            s = _strip(a)
            bad = None
            if isinstance(s, tuple) and s and s[0] == "param" and depth < 3:
                # a string parameter: when the function has callers inside the crate (a private helper that is handed the
                # entry's name), the question moves to those call sites; a function without callers in the crate is the lookup
                # entry point and its string parameter is the query
                up = list(_arg_at_callers(prog, name, s[1]))
                if up and all(not _is_query(prog, cn, ct, depth + 1) for (cn, ct) in up):
                    yield (name, k, loc, a, None)
                    continue
            if isinstance(s, tuple) and s and s[0] == "param":
                ty = ""
                try:
                    ty = g.r.get("locals", [])[s[1]].get("ty", "")
                except Exception:
                    pass
                if "str" in ty or "String" in ty or not ty:
                    bad = ("the zone is built with the name `%s`, which is the function's own string parameter (the caller's "
                           "query), not the database's spelling of the name" % show(a, maxd=3)[:60])
            elif isinstance(s, tuple) and s and s[0] == "phi" and any(isinstance(_strip(x), tuple) and _strip(x)[:1] == ("param",)
                                                                     for x in s[1:] if isinstance(x, tuple)):
                bad = "on some path the zone is built with a string parameter of the function: %s" % show(a, maxd=3)[:80]
            yield (name, k, loc, a, bad)


def canon_name(rep, prog, rule="CANON-NAME", floor=2):
    from . import facts
    rep.rule(rule, "every database back-end builds the zone it found with the name recorded by the database (the index entry of the "
                   "concatenated file, the canonical name returned by the bundled table, the name collected by the directory walk), "
                   "never with the caller's query: lookup is ASCII-case-insensitive, so the query is only equal to the name up to "
                   "case; a zone named by the query prints and compares by whatever spelling was asked first, and the cache (keyed "
                   "case-insensitively) hands that spelling to every later caller")
    ctl = {n.rsplit("::", 1)[-1]: bad for (n, _k, _l, _a, bad) in _canon_sites(facts.load_controls(), "controls::")}
    if ctl.get("bad_canon_name") and "good_canon_name" in ctl and not ctl["good_canon_name"] \
            and ctl.get("build_zone_from_query") and "build_zone" in ctl and not ctl["build_zone"]:
        rep.ok(rule, "_controls", how="reports bad_canon_name and the helper handed the query, accepts good_canon_name and the helper "
                                      "handed the entry's name (fixtures/controls)")
    else:
        rep.violation(rule, "_controls", "the matcher no longer separates the control functions: %s" % sorted(ctl.items(), key=str), "fixtures/controls/src/lib.rs")
    n = 0
    for (name, k, loc, a, bad) in _canon_sites(prog, "jiff::tz::", skip=("jiff::tz::timezone",)):
        n += 1
        key = "%s | tzif#%d" % (name, k)
        if bad:
            rep.violation(rule, key, bad, loc)
        else:
            rep.ok(rule, key, how="name = %s" % show(a, maxd=4)[:70], loc=loc)
    rep.floor(rule + " zone construction sites in database back-ends", n, floor)
    return n


# ------------------------------------------------------------------------------------------------------------------
def _u8set(g):
    out = set()
    for b in g.blocks:
        for s in b["st"]:
            if s["s"] == "=" and s["rv"]["k"] == "bin" and s["rv"]["op"] in ("Eq", "Ne") and s["rv"].get("ty") == "u8":
                for side in ("a", "b"):
                    o = s["rv"][side]
                    if o.get("o") == "c" and "v" in o:
                        out.add(o["v"])
        t = b["term"]
        if t["t"] == "switch" and t.get("op_ty") == "u8":
            out |= set(t["vals"])
    return out


def lookahead_agree(rep, prog, rule="LOOKAHEAD-AGREE"):
    rep.rule(rule, "fmt::offset::Parser::parse_optional decides from the first byte whether an offset follows, then calls Parser::parse: "
                   "the bytes its pre-check admits are exactly the bytes parse can start with - the Zulu designators tested by parse "
                   "and the signs tested by parse_sign. A byte missing from the pre-check makes text that the printer emits (the "
                   "lowercase `z` of DateTimePrinter::lowercase) unparseable although parse itself accepts it; an extra byte turns "
                   "'no offset' into an error")
    po = prog.jiff("fmt::offset::Parser::parse_optional")
    pa = prog.jiff("fmt::offset::Parser::parse")
    ps = prog.jiff("fmt::offset::Parser::parse_sign")
    a, b, c = _u8set(po), _u8set(pa), _u8set(ps)
    fmt = lambda s: "{" + ", ".join(repr(chr(x)) for x in sorted(s)) + "}"
    if not b or not c:
        rep.violation(rule, "first bytes", "anchor missing: parse compares %s, parse_sign compares %s" % (fmt(b), fmt(c)), pa.loc())
    elif a == (b | c):
        rep.ok(rule, "first bytes", how="parse_optional admits %s = parse %s + parse_sign %s" % (fmt(a), fmt(b), fmt(c)), loc=po.loc())
    else:
        rep.violation(rule, "first bytes", "parse_optional admits %s but Parser::parse starts with %s (Zulu) or %s (sign): missing %s, extra %s"
                      % (fmt(a), fmt(b), fmt(c), fmt((b | c) - a), fmt(a - (b | c))), po.loc())
    # the printer's Zulu bytes are among them
    zs = set()
    for name, g in prog.fns.items():
        if name.startswith("jiff::fmt::temporal::printer::DateTimePrinter::print_timestamp"):
            for bi, t in mir.iter_calls(g):
                for o in t.get("args", []):
                    if o.get("o") == "c" and o.get("s") in ("Z", "z"):
                        zs.add(ord(o["s"]))
            for blk in g.blocks:
                for s in blk["st"]:
                    if s["s"] == "=":
                        for o in mir.rvalue_operands(s["rv"]):
                            if isinstance(o, dict) and o.get("o") == "c" and o.get("s") in ("Z", "z"):
                                zs.add(ord(o["s"]))
    if zs:
        if zs <= a:
            rep.ok(rule, "printed Zulu designators", how="print_timestamp writes %s, all admitted" % fmt(zs))
        else:
            rep.violation(rule, "printed Zulu designators", "print_timestamp writes %s but parse_optional admits only %s" % (fmt(zs), fmt(a)), po.loc())


# ------------------------------------------------------------------------------------------------------------------
def _dummy_uses(f, prog=None):
    """yield (call, ok) for every local_time_type(index) call of f: ok = a dominating test excludes 0 on the same value of index"""
    T, cfg = Terms(f), mir.CFG(f)
    for bi, t in mir.iter_calls(f):
        p = t.get("path", "")
        if not p.endswith("local_time_type"):
            # a private helper that is handed the index and reads the entry there (Tzif::transition_at(index))
            h = prog.fns.get(f.crate + "::" + p) if prog is not None else None
            if h is None or len(t.get("args", [])) != 2 or not any(tt.get("path", "").endswith("local_time_type") for _b, tt in mir.iter_calls(h)):
                continue
        use = T.at_call(bi, t, 1)
        ok = False
        for (c, tr, _sb) in guards(f, cfg, T, bi):
            c2, tr2 = strip_not(c, tr)
            if not (isinstance(c2, tuple) and c2[0] == "bin" and len(c2) >= 4):
                continue
            op, x, y = c2[1], c2[2], c2[3]
            zero = isinstance(y, tuple) and y[:1] == ("const",) and y[1] == 0
            if not zero or x != use:
                continue
            if (op == "Eq" and tr2 is False) or (op in ("Ne", "Gt") and tr2 is True):
                ok = True
        yield (t, ok)


def dummy_guard(rep, prog, rule="DUMMY-GUARD"):
    rep.rule(rule, "Tzif::previous_transition reads the table entry it yields (local_time_type(index), timestamps()[index]) only under a "
                   "test that excludes index 0 made on the SAME value of `index` (same reaching definitions): entry 0 is the dummy "
                   "transition jiff inserts at the minimal timestamp, and the loop that skips no-op entries can walk the index "
                   "down to it after an earlier test has passed (Europe/Lisbon: the first recorded transition changes nothing), "
                   "so a test made before the last decrement does not count")
    f = [g for n, g in prog.fns.items() if n.startswith("jiff::tz::tzif::Tzif::<") and n.endswith(">::previous_transition")]
    if len(f) != 1:
        rep.violation(rule, "anchor", "anchor missing: Tzif::previous_transition (%d candidates)" % len(f), "src/tz/tzif.rs")
        return
    f = f[0]
    from . import facts
    ctl = {g.path.rsplit("::", 1)[-1]: [ok for (_t, ok) in _dummy_uses(g)] for n_, g in facts.load_controls().fns.items()
           if n_.endswith("_dummy_guard")}
    if ctl.get("bad_dummy_guard") == [False] and ctl.get("good_dummy_guard") == [True]:
        rep.ok(rule, "_controls", how="reports bad_dummy_guard, accepts good_dummy_guard (fixtures/controls)")
    else:
        rep.violation(rule, "_controls", "the matcher no longer separates the control functions: %s" % ctl, "fixtures/controls/src/lib.rs")
    n = 0
    for (t, ok) in _dummy_uses(f, prog):
        n += 1
        key = "previous_transition | local_time_type#%d" % n
        loc = "%s:%s" % (t["span"]["file"], t["span"]["line"])
        if ok:
            rep.ok(rule, key, how="dominated by `index != 0` on the value used", loc=loc)
        else:
            rep.violation(rule, key, "the entry read here is not excluded from being entry 0: no dominating test `index == 0` / `index > 0` "
                          "is made on the value of `index` that reaches this use (a test made before the no-op skipping loop does "
                          "not cover the decrements of that loop); the dummy transition at the minimal timestamp can be yielded", loc)
    if n == 0:
        rep.violation(rule, "anchor", "anchor missing: no local_time_type(index) in Tzif::previous_transition", f.loc())


# ------------------------------------------------------------------------------------------------------------------
FAMILIES = [
    ("%G / %g (ISO week-based year)", ("fmt_iso_week_year", "fmt_iso_week_year2")),
    ("%Y / %y / %C (calendar year)", ("fmt_year", "fmt_year2", "fmt_century")),
    ("%d / %e (day of month)", ("fmt_day_zero", "fmt_day_space")),
    ("%m / %b / %B (month)", ("fmt_month", "fmt_month_abbrev", "fmt_month_full")),
    ("%a / %A (weekday name)", ("fmt_weekday_abbrev", "fmt_weekday_full")),
    ("%I / %l (12-hour clock)", ("fmt_hour12_zero", "fmt_hour12_space")),
    ("%H / %k (24-hour clock)", ("fmt_hour24_zero", "fmt_hour24_space")),
    ("%p / %P (AM/PM)", ("fmt_ampm_upper", "fmt_ampm_lower")),
    ("%U / %W (week of year)", ("fmt_week_sun", "fmt_week_mon")),
]
ISO_FAMILY = ("fmt_iso_week_year", "fmt_iso_week_year2", "fmt_week_iso")
_MEMBERS = {m for _t, ms in FAMILIES for m in ms} | set(ISO_FAMILY)


def sibling_source(rep, prog, rule="SIBLING-SOURCE"):
    rep.rule(rule, "the strftime formatters of one directive family (%G and %g; %Y, %y and %C; %d and %e; %m, %b and %B; ..) differ in "
                   "padding, width or spelling only, so they read the same facts: the set of civil/BrokenDownTime accessors each of "
                   "them calls (closures included) is identical within a family, and every ISO-week directive (%G, %g, %V) derives "
                   "its value through Date::iso_week_date. `%g` printing the calendar year is right on all but the few days around "
                   "New Year whose ISO year differs")
    acc = {}
    for n, g in prog.fns.items():
        m = re.match(r"jiff::fmt::strtime::format::Formatter::<.*?>::(fmt_\w+)", n)
        if not m:
            continue
        s = acc.setdefault(m.group(1), set())
        seen, work = set(), [(g, 0)]
        while work:
            h, d = work.pop()
            for _bi, t in mir.iter_calls(h):
                p = t.get("path", "")
                if p.startswith("civil::") or "BrokenDownTime" in p or p.startswith(("zoned::", "timestamp::", "tz::")):
                    s.add(re.sub(r"<.*?>", "", p))
                elif p.startswith("fmt::strtime::format::") and p.rsplit("::", 1)[-1] not in _MEMBERS and d < 2 and p not in seen:
                    # a private helper of the formatter module: what it reads counts as read by the directive
                    seen.add(p)
                    for hn, hh in prog.fns.items():          # the helper and its closures
                        if hn == "jiff::" + p or hn.startswith("jiff::" + p + "::{closure"):
                            work.append((hh, d + 1))
    nfam = 0
    for title, members in FAMILIES:
        missing = [m for m in members if m not in acc]
        if missing:
            rep.violation(rule, title, "anchor missing: formatter(s) %s not found" % missing, "src/fmt/strtime/format.rs")
            continue
        nfam += 1
        ref = acc[members[0]]
        if not ref:
            rep.violation(rule, title, "anchor missing: %s calls no civil/BrokenDownTime accessor (the matcher sees nothing)" % members[0], "src/fmt/strtime/format.rs")
            continue
        diff = [(m, sorted(acc[m] ^ ref)) for m in members[1:] if acc[m] != ref]
        if diff:
            rep.violation(rule, title, "; ".join("%s and %s read different facts: %s" % (members[0], m, [d.rsplit("::", 2)[-2] + "::" + d.rsplit("::", 1)[-1] for d in dd])
                                                 for m, dd in diff), "src/fmt/strtime/format.rs")
        else:
            rep.ok(rule, title, how="all read %s" % sorted(x.rsplit("::", 1)[-1] for x in ref))
    for m in ISO_FAMILY:
        if m in acc and not any(x.endswith("Date::iso_week_date") for x in acc[m]):
            rep.violation(rule, "ISO directive %s" % m, "%s does not derive its value through Date::iso_week_date" % m, "src/fmt/strtime/format.rs")
        elif m in acc:
            rep.ok(rule, "ISO directive %s" % m, how="reads Date::iso_week_date")
    rep.floor(rule + " families compared", nfam, len(FAMILIES))


# ------------------------------------------------------------------------------------------------------------------
def _atom(c, tr):
    c2, tr2 = strip_not(c, tr)
    s = show(c2, maxd=4)
    while True:                                               # drop generic arguments, innermost first
        s2 = re.sub(r"<[^<>]*>", "", s)
        if s2 == s:
            break
        s = s2
    s = re.sub(r"[\w>]*::", "", s)
    return ("" if tr2 is True else "!" if tr2 is False else str(tr2) + " ") + s[:80]


def clamp_guard(rep, prog, rule="CLAMP-GUARD", floor=5):
    rep.rule(rule, "outside the saturating APIs, `x.min(C(k))` / `x.max(C(k))` on a ranged integer is there to narrow the static range "
                   "(\"no, ranged integer, it truly won't exceed 9999-W52-4\"), not to change the value: each such clamp is keyed "
                   "with the branch conditions that dominate it, and the pair (clamp, conditions) carries a reviewed reason why the "
                   "clamp is the identity for every valid input under those conditions. Applying the same clamp under weaker "
                   "conditions (the weekday cap of 9999-W52 in every week of 9999) is a new key. This is a reviewed-site rule: a "
                   "rewrite of the conditions in another spelling has to be re-read")
    reviewed = load_tsv("clamps")
    n = 0
    for name, g in sorted(prog.fns.items()):
        if not name.startswith("jiff::") or "rangeint" in name or "saturating" in name:
            continue
        T = cfg = None
        for bi, t in mir.iter_calls(g):
            p = t.get("path", "")
            if "rangeint" not in p or p.rsplit("::", 1)[-1] not in ("min", "max") or len(t.get("args", [])) != 2:
                continue
            T = T or Terms(g)
            cfg = cfg or mir.CFG(g)
            a, b = T.at_call(bi, t, 0), T.at_call(bi, t, 1)
            if not (is_call(b, "C") or is_call(b, "N") or (isinstance(b, tuple) and b[:1] == ("const",))):
                continue
            n += 1
            gs = sorted({_atom(c, tr) for (c, tr, _sb) in guards(g, cfg, T, bi)
                         if not any(is_call(x, "branch") for x in walk(c))})
            key = "%s | %s(%s, %s) | under %s" % (name, p.rsplit("::", 1)[-1], re.sub(r"\b\w+::", "", show(a, maxd=3)[:50]),
                                                 show(b, maxd=2)[:12], " & ".join(gs) if gs else "no condition")
            rep.classify(rule, key, reviewed, loc="%s:%s" % (t["span"]["file"], t["span"]["line"]),
                         detail="a clamp against a constant is applied here under conditions for which no reviewed reason says that it "
                                "leaves every valid value unchanged")
    rep.floor(rule + " constant clamps of ranged values", n, floor)
    return n


# ------------------------------------------------------------------------------------------------------------------
def type_writers(rep, prog, rule="TYPE-WRITERS"):
    rep.rule(rule, "the local time type of a TZif transition (TzifTransitionInfo.type_index) is stored by exactly two functions of the "
                   "shared parser: the decoder of the transition-type block (one store per recorded transition, of the byte read, "
                   "after its range check) and TzifTransitionsOwned::add_with_type_index (which builds a new entry: the dummy entry "
                   "at the minimal timestamp with type 0, and the entries generated from the footer). RFC 8536: instants before the "
                   "first transition are governed by local time type 0 - nothing may re-point the dummy entry afterwards")
    stores, aggs = {}, {}
    for f in prog.fns.values():
        if f.crate != "jiff":
            continue
        for b in f.blocks:
            for s in b["st"]:
                if s["s"] != "=":
                    continue
                ps = s["lhs"].get("p") or []
                if ps and isinstance(ps[-1], dict) and ps[-1].get("n") == "type_index" and "TzifTransitionInfo" in str(ps[-1].get("adt", "")):
                    stores.setdefault(f.path, s.get("ln"))
                if s["rv"]["k"] == "agg" and "TzifTransitionInfo" in str(s["rv"].get("adt", "")):
                    aggs.setdefault(f.path, s.get("ln"))
    ok_store = lambda p: p.endswith("parse_transition_types")
    ok_agg = lambda p: p.endswith("add_with_type_index")
    extra = [p for p in stores if not ok_store(p)] + [p for p in aggs if not ok_agg(p)]
    if not stores or not aggs:
        rep.violation(rule, "writers", "anchor missing: stores %s, constructions %s" % (sorted(stores), sorted(aggs)), "src/shared/tzif.rs")
    elif extra:
        rep.violation(rule, "writers", "TzifTransitionInfo.type_index is written outside the decoder of the type block / "
                      "add_with_type_index: %s" % sorted(extra), "src/shared/tzif.rs")
    else:
        rep.ok(rule, "writers", how="stores in %s; entries built in %s" % (sorted(x.rsplit("::", 1)[-1] for x in stores), sorted(x.rsplit("::", 1)[-1] for x in aggs)))
    # the dummy entry is created with the constant type 0
    n0 = 0
    for name, g in prog.fns.items():
        if not name.startswith("jiff::shared::tzif"):
            continue
        for bi, t in mir.iter_calls(g):
            if t.get("path", "").endswith("add_with_type_index") and len(t.get("args", [])) == 3:
                ts, ty = t["args"][1], t["args"][2]
                if ty.get("o") == "c" and ty.get("v") == 0:
                    n0 += 1
    if n0 >= 1:
        rep.ok(rule, "dummy entry type", how="%d call(s) of add_with_type_index with the constant type 0" % n0)
    else:
        rep.violation(rule, "dummy entry type", "no call of add_with_type_index passes the constant type 0: the dummy entry at the minimal "
                      "timestamp must carry local time type 0", "src/shared/tzif.rs")


# ------------------------------------------------------------------------------------------------------------------
def _path_conds(f, T, path):
    """[(condition term, truth)] of the switches taken along a block path (bool switches only)"""
    out = []
    for u, v in zip(path, path[1:]):
        t = f.blocks[u]["term"]
        if t["t"] != "switch" or t.get("op_ty") != "bool":
            continue
        vals, tg = list(t["vals"]), list(t["targets"])
        if v in tg and v != t["otherwise"]:
            truth = bool(vals[tg.index(v)])
        elif v == t["otherwise"] and v not in tg:
            truth = not bool(vals[0]) if len(vals) == 1 else None
        else:
            truth = None
        if truth is None:
            continue
        c, tr = strip_not(T.operand(t["op"], 0, (u, "term")), truth)
        out.append((c, tr))
    return out


def _succ_sites(f):
    """(block, call, base term, k) for every <ranged>::new_unchecked(X + k), k > 0, in f"""
    T = Terms(f)
    for bi, t in mir.iter_calls(f):
        if not t.get("path", "").endswith("new_unchecked") or not t.get("args"):
            continue
        a = T.at_call(bi, t, 0)
        while isinstance(a, tuple) and a and (a[0] in ("cast",) or (a[0] == "field" and a[2] in ("0", "val"))):
            a = a[1]
        if isinstance(a, tuple) and a and a[0] == "bin" and a[1].startswith("Add") and isinstance(a[3], tuple) and a[3][:1] == ("const",) \
                and isinstance(a[3][1], int) and a[3][1] > 0:
            yield (bi, t, a[2], a[3][1], T)


def day_succ(rep, prog, rule="DAY-SUCC", crate="jiff", fn_filter=lambda n: n.startswith("jiff::civil::date::Date::"), floor=1):
    from .rules_signpair import _paths
    rep.rule(rule, "where a civil date is built from the receiver's own year and month and its day plus a constant through the unchecked "
                   "constructors (Date::tomorrow), every path to that construction establishes either that the day is below 28 (the "
                   "length of the shortest month: day + 1 exists in every month) or that the day is not the last of its month "
                   "(`day == days_in_month` false). A pre-filter `day > 28` lets February 28 of a common year through to a "
                   "February 29 that the unchecked constructor does not refuse")
    if crate == "jiff":
        from . import facts
        from .report import Report

        class _Probe:                                    # collects the verdicts on the control crate without reporting them
            def __init__(self): self.v = {}
            def rule(self, *a, **k): pass
            def ok(self, rule, key, **k): self.v[key.split(" | ")[0].rsplit("::", 1)[-1]] = True
            def violation(self, rule, key, *a, **k): self.v[key.split(" | ")[0].rsplit("::", 1)[-1]] = False
            def floor(self, *a, **k): pass
        pr = _Probe()
        day_succ(pr, facts.load_controls(), rule, crate="controls", fn_filter=lambda n: n.endswith("_day_succ"), floor=0)
        if pr.v.get("bad_day_succ") is False and pr.v.get("good_day_succ") is True:
            rep.ok(rule, "_controls", how="reports bad_day_succ (`day > 28`), accepts good_day_succ (fixtures/controls)")
        else:
            rep.violation(rule, "_controls", "the matcher no longer separates the control functions: %s" % pr.v, "fixtures/controls/src/lib.rs")
    n = 0
    for name, f in sorted(prog.fns.items()):
        if not fn_filter(name):
            continue
        for (bi, t, base, k, T) in _succ_sites(f):
            if not (is_call(base, "day") or is_call(base, "Date::day") or (isinstance(base, tuple) and base[:1] == ("field",) and base[2] == "day")):
                continue
            cfg = mir.CFG(f)
            paths = _paths(cfg, bi, 400)
            key = "%s | day + %d" % (name, k)
            loc = "%s:%s" % (t["span"]["file"], t["span"]["line"])
            n += 1
            if paths is None:
                rep.violation(rule, key, "too many paths to decide", loc)
                continue
            bad = None
            for p in paths:
                ok = False
                for (c, tr) in _path_conds(f, T, p):
                    if not (isinstance(c, tuple) and c and c[0] == "bin" and len(c) >= 4):
                        continue
                    op, x, y = c[1], c[2], c[3]
                    if x != base:
                        continue
                    if isinstance(y, tuple) and y[:1] == ("const",) and isinstance(y[1], int):
                        K = y[1]
                        # conditions that bound the day by 28 - k from above (so day + k <= 28)
                        lim = 28 - k
                        if (op == "Ge" and tr is False and K - 1 <= lim) or (op == "Gt" and tr is False and K <= lim) or \
                           (op == "Lt" and tr is True and K - 1 <= lim) or (op == "Le" and tr is True and K <= lim):
                            ok = True
                    elif any(is_call(z, "days_in_month") for z in walk(y)) and k == 1:
                        if (op == "Eq" and tr is False) or (op == "Ne" and tr is True) or (op == "Lt" and tr is True):
                            ok = True
                if not ok:
                    bad = p
                    break
            if bad is None:
                rep.ok(rule, key, how="%d path(s), each with day <= %d or day != days_in_month" % (len(paths), 28 - k), loc=loc)
            else:
                conds = "; ".join(("" if tr else "!") + show(c, maxd=3)[:50] for (c, tr) in _path_conds(f, T, bad)) or "no condition"
                rep.violation(rule, key, "a path reaches this construction knowing only [%s]: that neither bounds the day by %d nor excludes the "
                              "last day of the month, so day + %d can exceed the month's length" % (conds, 28 - k, k), loc)
    rep.floor(rule + " day-successor constructions", n, floor)
    return n


# ------------------------------------------------------------------------------------------------------------------
def mul_factor(rep, prog, rule="MUL-FACTOR"):
    rep.rule(rule, "Span::checked_mul multiplies every one of the ten unit magnitudes by |rhs| (the factor handed to try_checked_mul is an "
                   "`abs` of the converted rhs) and folds signum(rhs) into the single sign field exactly once: a Span is magnitudes "
                   "plus one sign, so a unit multiplied by the signed rhs flips its sign twice and ends up opposite to the others")
    f = prog.jiff("span::Span::checked_mul")
    T = Terms(f)
    n_abs = n_sign = 0
    bad = []
    for bi, t in mir.iter_calls(f):
        p = t.get("path", "")
        if p.endswith("try_checked_mul") and len(t.get("args", [])) == 3:
            a = T.at_call(bi, t, 2)
            unit = show(T.at_call(bi, t, 0), maxd=2)
            if is_call(a, "abs") and any(isinstance(x, tuple) and x[:1] == ("param",) for x in walk(a)):
                n_abs += 1
            else:
                bad.append((unit, show(a, maxd=3)[:60], t["span"]["line"]))
        elif re.search(r"Mul(Assign)?<.*>>::mul(_assign)?$", p) and len(t.get("args", [])) == 2:
            if any(is_call(x, "signum") for x in walk(T.at_call(bi, t, 1))):
                n_sign += 1
    if bad:
        rep.violation(rule, "factors", "; ".join("%s is multiplied by %s (line %s), not by abs(rhs)" % b for b in bad), f.loc())
    elif n_abs != 10 or n_sign != 1:
        rep.violation(rule, "factors", "expected ten magnitudes multiplied by abs(rhs) and one sign update by signum(rhs); found %d and %d"
                      % (n_abs, n_sign), f.loc())
    else:
        rep.ok(rule, "factors", how="10 magnitudes x abs(rhs), sign x signum(rhs) once", loc=f.loc())


def utc_whole(rep, prog, rule="UTC-WHOLE"):
    rep.rule(rule, "TimeZone::fixed hands out the shared UTC handle only under a comparison of the WHOLE offset (its seconds) with zero: "
                   "the guard of that return is `seconds == 0` on a term without division or remainder. A test of components "
                   "(hours == 0 && minutes == 0) sends the 118 offsets below one minute to UTC, so a fixed-offset handle no longer "
                   "reproduces its offset")
    g = prog.jiff("tz::timezone::TimeZone::fixed")
    T, cfg = Terms(g), mir.CFG(g)
    found = False
    for bi, b in enumerate(g.blocks):
        for si, s in enumerate(b["st"]):
            if s["s"] != "=" or s["lhs"]["l"] != 0 or s["lhs"].get("p"):
                continue
            if "TimeZone::UTC" not in show(T.rvalue(s["rv"], 0, (bi, si)), maxd=3):
                continue
            found = True
            ok = False
            why = []
            for (c, tr, _sb) in guards(g, cfg, T, bi):
                c2, tr2 = strip_not(c, tr)
                why.append(("" if tr2 else "!") + show(c2, maxd=4)[:70])
                if isinstance(c2, tuple) and c2[0] == "bin" and c2[1] == "Eq" and tr2 is True and len(c2) >= 4:
                    x, y = c2[2], c2[3]
                    if isinstance(y, tuple) and y[:1] == ("const",) and y[1] == 0 \
                            and not any(isinstance(z, tuple) and z[:1] == ("bin",) and z[1] in ("Div", "Rem", "Shr", "BitAnd") for z in walk(x)) \
                            and any(is_call(z, "seconds_ranged") or is_call(z, "seconds") for z in walk(x)):
                        ok = True
            loc = "%s:%s" % (g.file, s.get("ln", g.line))
            if ok:
                rep.ok(rule, "UTC return", how="guarded by %s" % " & ".join(why), loc=loc)
            else:
                rep.violation(rule, "UTC return", "the UTC handle is returned under [%s]: no comparison of the whole offset in seconds with "
                              "zero" % " & ".join(why), loc)
    if not found:
        rep.violation(rule, "UTC return", "anchor missing: TimeZone::fixed no longer returns TimeZone::UTC on any path", g.loc())


# ------------------------------------------------------------------------------------------------------------------
_NONADV = ("byte", "maybe_byte", "is_done", "pos", "remaining", "new")


def _cursor_analyse(f, T, cfg, requires, entry, prefix):
    """forward must-analysis of `the cursor is known not to be at the end` over the blocks of f.
    Returns the list of (block, call, what) where byte() or a callee that needs a byte is reached without that knowledge."""
    nb = len(f.blocks)
    IN = [True] * nb
    IN[0] = entry
    idom_ok = cfg.dominates

    def callee(t):
        p = t.get("path", "")
        return p[len(prefix):] if p.startswith(prefix) else None

    adv_blocks = [bi for bi, t in mir.iter_calls(f) if callee(t) is not None and callee(t) not in _NONADV]

    def fresh(d, u):
        """no advancing call strictly between the test's call block d and the switch block u"""
        for a in adv_blocks:
            if a != d and a in cfg.reachable_from(d) and u in cfg.reachable_from(a) and not (a == u):
                # a lies on some path d -> u ; only harmful when it does not pass d again (loops re-run the test)
                if u in cfg.reachable_from(a, avoid=(d,)):
                    return False
        return True

    def test_block(u, name):
        best = None
        for bi, t in mir.iter_calls(f):
            if callee(t) == name and idom_ok(bi, u):
                if best is None or idom_ok(best, bi):
                    best = bi
        return best

    def edge_state(u, v, s_out):
        t = f.blocks[u]["term"]
        if t["t"] != "switch":
            return s_out
        vals, tg = list(t["vals"]), list(t["targets"])
        c = T.operand(t["op"], 0, (u, "term"))
        if t.get("op_ty") == "bool":
            if v in tg and v != t["otherwise"]:
                truth = bool(vals[tg.index(v)])
            elif v == t["otherwise"] and v not in tg and len(vals) == 1:
                truth = not bool(vals[0])
            else:
                return s_out
            c, truth = strip_not(c, truth)
            if is_call(c, "is_done") and truth is False and (d := test_block(u, "is_done")) is not None and fresh(d, u):
                return True
            if is_call(c, "bump") and truth is True and (d := test_block(u, "bump")) is not None and fresh(d, u):
                return True
            if isinstance(c, tuple) and c and c[0] == "call" and c[1].rsplit("::", 1)[-1] in ("eq", "ne") and len(c[2]) == 2:
                is_eq = c[1].rsplit("::", 1)[-1] == "eq"
                has_mb = any(is_call(x, "maybe_byte") for a in c[2] for x in walk(a))
                has_some = any(isinstance(x, tuple) and x and ((x[0] == "agg" and "Some" in str(x[1:3])) or (x[0] == "variant" and "Some" in str(x)))
                               for a in c[2] for x in walk(a)) or "Some" in show(c, maxd=4)
                if has_mb and has_some and truth == is_eq and (d := test_block(u, "maybe_byte")) is not None and fresh(d, u):
                    return True
            return s_out
        # discriminant of Option<u8> returned by maybe_byte(): variant 1 = Some
        if any(is_call(x, "maybe_byte") for x in walk(c)) and isinstance(c, tuple) and c and c[0] in ("disc", "call", "un"):
            if v in tg and vals[tg.index(v)] == 1 and v != t["otherwise"]:
                if (d := test_block(u, "maybe_byte")) is not None and fresh(d, u):
                    return True
            if v == t["otherwise"] and v not in tg and vals == [0]:
                if (d := test_block(u, "maybe_byte")) is not None and fresh(d, u):
                    return True
        return s_out

    def out_state(b, s_in):
        t = f.blocks[b]["term"]
        if t["t"] != "call":
            return s_in
        m = callee(t)
        if m is None or m in _NONADV:
            return s_in
        return False

    changed = True
    it = 0
    while changed and it < 200:
        changed = False
        it += 1
        for b in range(1, nb):
            preds = [p for p in cfg.pred[b] if p in reach]
            if not preds:
                continue
            s = all(edge_state(p, b, out_state(p, IN[p])) for p in preds)
            if s != IN[b]:
                IN[b] = s
                changed = True
    bad = []
    for bi, t in mir.iter_calls(f):
        if bi not in reach:
            continue
        m = callee(t)
        if m == "byte" and not IN[bi]:
            bad.append((bi, t, "byte()"))
        elif m is not None and requires.get(m) and not IN[bi]:
            bad.append((bi, t, m + "(), which reads a byte before testing for the end"))
    return bad


def byte_guard(rep, prog, rule="BYTE-GUARD", crate="jiff", floor=15):
    rep.rule(rule, "typestate of the POSIX TZ parser's cursor (shared::posix::Parser): `byte()` indexes the input at the cursor and panics "
                   "at the end of the input, so every call of byte() - and of every parser method that calls byte() before testing for "
                   "the end - is reached only with the knowledge `not at the end`, established on every path by `!is_done()`, a "
                   "`bump()` that returned true, or `maybe_byte()` being Some, with no cursor-advancing call in between. The "
                   "requirement of a method that reads first and tests later moves to each of its call sites, up to the entry "
                   "points. (This replaces a reviewed reason on byte()'s bounds check that said 'every caller checks first': it "
                   "silently covered a caller that ignored the result of bump().)")
    prefix = "shared::posix::Parser::<'s>::"
    full = crate + "::" + prefix
    fns = {n[len(full):]: g for n, g in prog.fns.items() if n.startswith(full) and "{closure" not in n}
    if "byte" not in fns or "bump" not in fns:
        rep.violation(rule, "anchor", "anchor missing: shared::posix::Parser::byte / bump", "src/shared/posix.rs")
        return
    # the primitives the typestate relies on are what it takes them for
    prim = {m: show(Terms(fns[m]).returns(), maxd=6) for m in ("bump", "is_done", "maybe_byte", "byte") if m in fns}
    want = {"bump": ("un(Not, is_done(self))",), "is_done": ("bin(Eq, pos(self), len(self.tz))",),
            "maybe_byte": ("get(self.tz, pos(self))",), "byte": ("index(self.tz, pos(self))",)}
    off = [m for m, ws in want.items() if not all(w in prim.get(m, "").replace("bin(Ge, pos(self)", "bin(Eq, pos(self)") for w in ws)]
    if off:
        rep.violation(rule, "_primitives", "the cursor primitives are no longer what the typestate assumes (bump returns false or "
                      "!is_done() after moving; is_done is pos == len; maybe_byte is tz.get(pos); byte is tz[pos]): %s"
                      % {m: prim.get(m) for m in off}, "src/shared/posix.rs")
    else:
        rep.ok(rule, "_primitives", how="bump -> false | !is_done(); is_done = (pos == len); maybe_byte = tz.get(pos); byte = tz[pos]")
    ctx = {}
    for m, g in fns.items():
        cfg = mir.CFG(g)
        ctx[m] = (g, Terms(g), cfg)
    global reach
    requires = {}
    for _round in range(6):
        new = {}
        for m, (g, T, cfg) in ctx.items():
            if m in _NONADV or m == "bump":
                continue
            reach = cfg.reachable()
            hard = _cursor_analyse(g, T, cfg, requires, True, prefix)
            soft = _cursor_analyse(g, T, cfg, requires, False, prefix)
            new[m] = (not hard) and bool(soft)
        if new == requires:
            break
        requires = new
    n = 0
    for m, (g, T, cfg) in sorted(ctx.items()):
        if m in _NONADV or m == "bump":
            continue
        reach = cfg.reachable()
        hard = {id(t): what for (_b, t, what) in _cursor_analyse(g, T, cfg, requires, True, prefix)}
        k = {}
        for bi, t in mir.iter_calls(g):
            p = t.get("path", "")
            if not p.startswith(prefix):
                continue
            c = p[len(prefix):]
            if c != "byte" and not requires.get(c):
                continue
            k[c] = k.get(c, 0) + 1
            n += 1
            key = "%s | %s#%d" % (m, c, k[c])
            loc = "%s:%s" % (t["span"]["file"], t["span"]["line"])
            if id(t) in hard:
                rep.violation(rule, key, "%s calls %s on a path that does not establish `not at the end of the input` after the last "
                              "cursor movement: an input that ends here makes byte() index past the end (panic)" % (m, hard[id(t)]), loc)
            else:
                rep.ok(rule, key, how="not-at-end known on every path" + (" (given the method's own entry requirement)" if requires.get(m) else ""), loc=loc)
    # entry points: methods with an entry requirement that are called from outside the parser
    for name, g in sorted(prog.fns.items()):
        if name.startswith(full) or not name.startswith(crate + "::"):
            continue
        for bi, t in mir.iter_calls(g):
            p = t.get("path", "")
            if p.startswith(prefix) and requires.get(p[len(prefix):]):
                n += 1
                rep.violation(rule, "%s | %s" % (name, p[len(prefix):]), "%s is called from outside the parser although it reads a byte before "
                              "testing for the end of the input" % p[len(prefix):], "%s:%s" % (t["span"]["file"], t["span"]["line"]))
    if not any(requires.values()):
        rep.violation(rule, "_positive", "the analysis finds no method that reads a byte before testing for the end (on the pinned tree "
                      "parse_posix_date, parse_posix_datetime, parse_rule and the two abbreviation parsers do): the matcher is blind", "src/shared/posix.rs")
    rep.floor(rule + " byte()-dependent call sites", n, floor)
    rep.ok(rule, "_summary", how="methods that need a byte at entry: %s" % sorted(m for m, v in requires.items() if v), nontrivial=False)
    return n


# ------------------------------------------------------------------------------------------------------------------
def _callers_of(prog, fn_name):
    short = fn_name.split("::", 1)[1]
    out = set()
    for cn, cg in prog.fns.items():
        if not cn.startswith("jiff::"):
            continue
        for _bi, t in mir.iter_calls(cg):
            if t.get("path") == short:
                out.add(cn)
                break
    return out


def caller_ratchet(rep, prog, rule="CALLER-SET"):
    rep.rule(rule, "a reviewed reason in reviewed/panics.tsv that argues from the callers of the function (\"all four callers pass ..\", "
                   "\"every caller checks ..\") is valid for the callers that existed when it was written: reviewed/callers.tsv "
                   "freezes, per such site, the set of functions that call it, and a caller that is not in that set is reported - "
                   "the reason has to be re-read for it. (Four seeded changes slipped through reasons of this form; the sites they "
                   "used are call-site obligations now, this rule covers the remaining ones against NEW callers. A changed guard in "
                   "an existing caller is not seen by it.)")
    reviewed = load_tsv("panics")
    frozen = load_tsv("callers")
    n = 0
    for key, reason in sorted(reviewed.items()):
        if not re.search(r"\bcallers?\b", reason):
            continue
        fn = key.split(" | ", 1)[0]
        if fn not in prog.fns:
            continue                      # not in this configuration
        n += 1
        now = _callers_of(prog, fn)
        if key not in frozen:
            rep.violation(rule, key, "the reviewed reason argues from the callers but reviewed/callers.tsv has no frozen caller set for it "
                          "(current callers: %s)" % sorted(now), prog.fns[fn].loc())
            continue
        was = set(x for x in frozen[key].split(" ; ") if x and x != "-")
        new = sorted(now - was)
        if new:
            rep.violation(rule, key, "new caller(s) %s of a function whose panic site is discharged by a reason about its callers: %s"
                          % (new, reason[:160]), prog.fns[fn].loc())
        else:
            rep.ok(rule, key, how="%d caller(s), all in the reviewed set" % len(now), loc=prog.fns[fn].loc())
    rep.floor(rule + " caller-dependent reviewed sites", n, 10)
    return n
