"""CONTRACT / PRECOND: the field and parameter contracts assumed by the
interval analysis (contracts.py) are checked at every aggregate construction,
field store and call site, in every workspace crate."""
from . import mir
from . import contracts as C
from .report import load_tsv
from .e1 import norm_key


def run_contracts(ctx, rep, cfg=None, rule="CONTRACT", select=None, floor=60):
    """quick: configuration Q; thorough: every configuration of the tier."""
    seen = {}
    best = 0
    for c_ in ([cfg] if cfg else ctx.configs):
        best = max(best, _run_contracts(ctx, rep, c_, rule, seen, select))
    rep.rule("PRECOND", "see CONTRACT: parameter contracts are checked at every call site")
    rep.floor(rule + " stores and calls", best, floor)
    if select is None:
        public_precond(ctx, rep)


def public_precond(ctx, rep, cfg="Q", rule="PUBLIC-PRECOND"):
    """a parameter contract is an assumption about callers; callers outside the crate promise nothing"""
    from . import e2, e1_auto
    rep.rule(rule, "every exported function that carries a parameter contract establishes that contract itself: analysed WITHOUT its "
                   "own contract (arguments unconstrained, as an external caller may pass them) it has no failing ranged-integer "
                   "obligation - its own range tests (riN::contains, explicit comparisons followed by panic!) must cover the contract; "
                   "otherwise a release build, where the ranged integers' debug assertions are gone, accepts out-of-range arguments "
                   "that the documentation says panic")
    prog = ctx.prog(cfg)
    A2 = e1_auto.Auto(prog)
    A2.infer_params(ctx.e1(cfg).cg)
    pub = [p for p in C.PARAM if ("jiff::" + p) in prog.fns and prog.fns["jiff::" + p].get("vis") == "pub" and prog.fns["jiff::" + p].get("reachable")]
    for p in pub:
        A2.param_contracts.pop(p, None)
    n = 0
    for p in sorted(pub):
        f = prog.fns["jiff::" + p]
        A2._an.pop(f.key, None)
        _an, obl = e2.analyse(f, A2)
        n += 1
        bad = [(k, d, ln) for (k, _bi, ok, d, ln, _tag) in obl if not ok]
        key = p.split("::")[-2] + "::" + p.split("::")[-1] if "::" in p else p
        if bad:
            rep.violation(rule, key, "without its parameter contract %s has %d failing obligation(s), e.g. %s: %s - the function does not "
                          "validate what its documentation says it rejects" % (p, len(bad), bad[0][0], bad[0][1][:110]),
                          "%s:%s" % (f.file, bad[0][2]))
        else:
            rep.ok(rule, key, how="%d ranged obligation(s) hold for unconstrained arguments" % len(obl), loc=f.loc())
    rep.floor(rule + " functions", n, 5)


class _Dedup:
    """report a key once: an automatic discharge in an earlier configuration does not hide a failure in a later one"""
    def __init__(self, rep, seen):
        self.rep, self.seen = rep, seen

    def ok(self, rule, key, **kw):
        if (rule, key) not in self.seen:
            self.seen[(rule, key)] = "auto"
            self.rep.ok(rule, key, **kw)

    def classify(self, rule, key, reviewed, **kw):
        if self.seen.get((rule, key)) != "classified":
            self.seen[(rule, key)] = "classified"
            self.rep.classify(rule, key, reviewed, **kw)


def _run_contracts(ctx, rep0, cfg, rule, seen, select=None):
    rep = _Dedup(rep0, seen)
    rep0.rule(rule, "every aggregate construction and field store of a contract-carrying type (shared::util::itime I*, "
                   "shared::Posix*/TzifLocalTimeType, SignedDuration) stores a value whose interval lies inside the field's "
                   "contract, and every call of a function with a parameter contract passes an argument inside it; the "
                   "contracts are what the INTERVAL discharge rule assumes when it reads those fields (checked in crate jiff; the generated copy in jiff-static is token-identical by rule E5)")
    prog = ctx.prog(cfg)
    A = ctx.auto(cfg)
    reviewed = load_tsv("contracts")
    adts = {k[0] for k in C.FIELD}
    n = 0
    for f in prog.fns.values():
        if f.crate != "jiff" or (select is not None and not select(f)):
            continue   # the generated copy is token-identical (rule E5)
        an = None
        ords = {}
        for bi, b in enumerate(f.blocks):
            for si, s in enumerate(b["st"]):
                if s["s"] != "=":
                    continue
                checks = []
                rv = s["rv"]
                if rv["k"] == "agg" and rv.get("adt") in adts:
                    for fname, op in zip(rv["fields"], rv["ops"]):
                        c = C.FIELD.get((rv["adt"], rv["variant"], fname)) or C.FIELD.get((rv["adt"], None, fname))
                        if c is not None:
                            checks.append(("%s.%s" % (rv["adt"].split("::")[-1] + ("::" + rv["variant"] if rv["variant"] != rv["adt"].split("::")[-1] else ""), fname), op, c, True))
                ps = s["lhs"].get("p") or []
                if ps and isinstance(ps[-1], dict) and "f" in ps[-1] and ps[-1].get("adt") in adts:
                    var = ps[-2]["d"] if len(ps) >= 2 and isinstance(ps[-2], dict) and "d" in ps[-2] else None
                    c = C.FIELD.get((ps[-1]["adt"], var, ps[-1].get("n"))) or C.FIELD.get((ps[-1]["adt"], None, ps[-1].get("n")))
                    if c is not None:
                        checks.append(("%s.%s (store)" % (ps[-1]["adt"].split("::")[-1], ps[-1].get("n")), None, c, False))
                for (what, op, c, is_agg) in checks:
                    an = an or A.analyzer(f)
                    n += 1
                    ords[what] = ords.get(what, 0) + 1
                    key = norm_key("%s::%s | %s#%d" % (f.crate, f.path, what, ords[what]))
                    loc = "%s:%s" % (f.file, s.get("ln"))
                    st = an.state_at(bi, si)
                    if st is None:
                        rep.ok(rule, key, how="infeasible block", loc=loc, nontrivial=False)
                        continue
                    if is_agg:
                        v = an.read_op(st, op)
                    else:
                        r = an.eval_rvalue(st.copy(), rv, s["lhs"], (bi, si))
                        v = r if not isinstance(r, tuple) else None
                    iv = v.iv if v is not None else None
                    if iv is not None and c[0] <= iv[0] and iv[1] <= c[1]:
                        rep.ok(rule, key, how="%s within %s" % (iv, c), loc=loc)
                    else:
                        rep.classify(rule, key, reviewed, loc=loc,
                                     detail="value %s stored into %s is not shown to lie in its contract %s" % (iv, what, c))
            t = b["term"]
            if t["t"] == "call" and t.get("path") in C.PARAM and t.get("rkrate") == f.crate:
                pc = C.PARAM[t["path"]]
                an = an or A.analyzer(f)
                st = an.state_before_term(bi)
                for idx, c in pc.items():
                    n += 1
                    what = "call %s arg%d" % (t["path"].split("::")[-1], idx)
                    ords[what] = ords.get(what, 0) + 1
                    key = norm_key("%s::%s | %s#%d" % (f.crate, f.path, what, ords[what]))
                    loc = "%s:%s" % (t["span"]["file"], t["span"]["line"])
                    if st is None:
                        rep.ok("PRECOND", key, how="infeasible block", loc=loc, nontrivial=False)
                        continue
                    v = an.read_op(st, t["args"][idx - 1])
                    if v.iv is not None and c[0] <= v.iv[0] and v.iv[1] <= c[1]:
                        rep.ok("PRECOND", key, how="%s within %s" % (v.iv, c), loc=loc)
                    else:
                        rep.classify("PRECOND", key, reviewed, loc=loc,
                                     detail="argument %s passed to %s is not shown to satisfy its parameter contract %s" % (v.iv, t["path"], c))
    return n


# ------------------------------------------------------------------------------------------------------------------
# TRANSIENT: producers whose result may break a field contract until the caller re-validates it.  The reviewed reason on
# the producer's own CONTRACT obligation can only say "the callers re-check": that sentence silently covers a caller
# that does not (seed C17-d).  So every call site is an obligation of its own, discharged structurally.
TRANSIENT = {
    "shared::util::itime::IDateTime::to_timestamp":
        "the unchecked half of to_timestamp_checked: its ITimestamp may lie outside the Timestamp range (one day + offset)",
}
_CHECKERS = ("::try_new", "::try_new128", "::from_itimestamp", "::try_rfrom", "::try_from", "::try_rinto")
_CMP = ("Lt", "Le", "Gt", "Ge")


def transient_callers(rep, prog, rule="TRANSIENT", floor=3):
    from .term import Terms, walk
    rep.rule(rule, "every call of a producer whose result may transiently break a field contract (IDateTime::to_timestamp: the "
                   "second may lie outside the Timestamp range) re-validates the result in the calling function before it can "
                   "escape: the result's seconds reach a comparison or a checked conversion (try_new, from_itimestamp) in the "
                   "caller; a caller that hands the value on unchecked yields instants outside the Timestamp range (a panic in "
                   "Timestamp::from_itimestamp_const in debug builds, an out-of-range Timestamp in release builds)")
    n = 0
    for name, g in sorted(prog.fns.items()):
        T = None
        k = 0
        for bi, t in mir.iter_calls(g):
            p = t.get("path", "")
            if p not in TRANSIENT:
                continue
            n += 1
            k += 1
            T = T or Terms(g)
            key = "%s | call %s#%d" % (name, p.rsplit("::", 1)[-1], k)
            loc = "%s:%s" % (t["span"]["file"], t["span"]["line"])
            me = T.call_term(t)
            checked = None
            for bj, u in mir.iter_calls(g):
                if u is t:
                    continue
                up = u.get("path", "")
                if up.endswith(_CHECKERS) or "PartialOrd" in up or up.endswith("::cmp"):
                    for i in range(len(u.get("args", []))):
                        a = T.at_call(bj, u, i)
                        if any(y == me for y in walk(a)):
                            checked = up.rsplit("::", 2)[-2] + "::" + up.rsplit("::", 1)[-1] if "::" in up else up
                            break
                if checked:
                    break
            if not checked:
                for bj, b in enumerate(g.blocks):
                    for si, s in enumerate(b["st"]):
                        if s["s"] == "=" and s["rv"]["k"] == "bin" and s["rv"].get("op") in _CMP:
                            for side in ("a", "b"):
                                a = T.operand(s["rv"][side], pos=(bj, si))
                                if any(y == me for y in walk(a)):
                                    checked = "comparison %s" % s["rv"]["op"]
                    if checked:
                        break
            if not checked and "::{closure#" in name:
                # the closure returns the value to an adapter (Composite::map): the enclosing function must check it
                parent = prog.fns.get(name.rsplit("::{closure#", 1)[0])
                ret = Terms(g).returns()
                if parent is not None and any(y == me for y in walk(ret)):
                    PT = Terms(parent)
                    cpath = name.split("::", 1)[1]
                    for bj, u in mir.iter_calls(parent):
                        up = u.get("path", "")
                        if up.endswith(_CHECKERS):
                            for i in range(len(u.get("args", []))):
                                a = PT.at_call(bj, u, i)
                                if any(isinstance(y, tuple) and y and y[0] == "closure" and y[1] == cpath for y in walk(a)):
                                    checked = "%s in the enclosing function" % up.rsplit("::", 1)[-1]
            if checked:
                rep.ok(rule, key, how="re-validated in the caller by %s" % checked, loc=loc)
            else:
                rep.violation(rule, key, "the result of %s (%s) is not compared or converted with a checked conversion in this "
                              "function: it escapes unvalidated" % (p.rsplit("::", 1)[-1], TRANSIENT[p]), loc)
    rep.floor(rule + " call sites", n, floor)
