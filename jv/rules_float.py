"""FLOAT-SIGN: two floating-point sign pitfalls, checked crate-wide.

FLOAT-SIGNUM  f64::signum / f32::signum never return 0 (signum(+0.0) == 1.0, signum(-0.0) == -1.0).  Using the result
              as a three-valued sign - comparing it with another sign - treats "no change" as "positive change".  Every
              float signum whose result reaches a comparison needs the function to test its argument against 0 as well.
              (Using it as a multiplicative factor is fine.)
FLOAT-TIE     Rust's `%` keeps the sign of the dividend: `x % 1.0 == 0.5` detects positive ties only (-2.5 % 1.0 == -0.5).
              A comparison of a float remainder with a positive constant needs the dividend (or the remainder) to be an
              absolute value.
"""
import re
from . import mir
from .term import Terms, walk, show
from .e1 import norm_key

CMP = ("Eq", "Ne", "Lt", "Le", "Gt", "Ge")


def _is_fsignum(x):
    return isinstance(x, tuple) and x and x[0] == "call" and re.search(r"core::f(32|64)::<impl f(32|64)>::signum$", x[1])


def _fconst(t):
    if t[0] == "const" and isinstance(t[1], str):
        m = re.match(r"^(-?[0-9.]+(?:e-?\d+)?)f(32|64)$", t[1])
        if m:
            return float(m.group(1))
    return None


def run_float(ctx, rep, cfg="Q", rule="FLOAT-SIGN", floor=4):
    rep.rule(rule, "FLOAT-SIGNUM: the result of f64/f32::signum (which is never 0) is compared with another value only in functions "
                   "that also compare its argument with 0; FLOAT-TIE: a float remainder compared with a positive constant (the tie "
                   "test `x % 1.0 == 0.5`) has an absolute value as dividend or is itself made absolute, because `%` keeps the "
                   "dividend's sign (checked in every function of the crate)")
    prog = ctx.prog(cfg)
    n = 0
    for f in sorted(prog.fns.values(), key=lambda f: f.key):
        if f.crate != "jiff":
            continue
        has_f = any(t.get("path", "").endswith("::signum") and re.search(r"f(32|64)", t.get("path", "")) for _, t in mir.iter_calls(f))
        has_rem = any(s["s"] == "=" and s["rv"]["k"] == "bin" and s["rv"]["op"] == "Rem" and s["rv"].get("ty") in ("f64", "f32")
                      for b in f.blocks for s in b["st"])
        if not (has_f or has_rem):
            continue
        T = Terms(f)
        cmps = []
        for bi, b in enumerate(f.blocks):
            for si, s in enumerate(b["st"]):
                if s["s"] == "=" and s["rv"]["k"] == "bin" and s["rv"]["op"] in CMP:
                    cmps.append((bi, si, s, T.operand(s["rv"]["a"], pos=(bi, si)), T.operand(s["rv"]["b"], pos=(bi, si))))
        zero_tested = set()
        for (_bi, _si, _s, a, b) in cmps:
            if _fconst(b) == 0.0:
                zero_tested.add(a)
            if _fconst(a) == 0.0:
                zero_tested.add(b)
        ords = {}
        for (bi, si, s, a, b) in cmps:
            loc = "%s:%s" % (f.file, s.get("ln"))
            for side in (a, b):
                sg = [x for x in walk(side) if _is_fsignum(x)]
                for x in sg:
                    n += 1
                    ords["signum"] = ords.get("signum", 0) + 1
                    key = norm_key("%s | FLOAT-SIGNUM#%d" % (f.key, ords["signum"]))
                    arg = x[2][0] if x[2] else None
                    if arg in zero_tested:
                        rep.ok(rule, key, how="the argument of signum is also compared with 0", loc=loc)
                    else:
                        rep.violation(rule, key, "signum(%s) is compared as if it could be 0, but float signum maps +0.0 to 1.0: "
                                      "an exact result (difference 0) is classified as a positive change" % show(arg, maxd=3)[:120], loc)
            # tie test
            for (lhs, rhs) in ((a, b), (b, a)):
                c = _fconst(rhs)
                if c is not None and c > 0 and lhs[0] == "bin" and lhs[1] == "Rem" and s["rv"]["op"] in ("Eq", "Ne"):
                    n += 1
                    ords["tie"] = ords.get("tie", 0) + 1
                    key = norm_key("%s | FLOAT-TIE#%d" % (f.key, ords["tie"]))
                    dividend = lhs[2]
                    is_abs = dividend[0] == "call" and dividend[1].endswith("::abs")
                    if is_abs:
                        rep.ok(rule, key, how="the dividend is an absolute value", loc=loc)
                    else:
                        rep.violation(rule, key, "`%s %% %s == %s` is true only for non-negative dividends (the remainder of a negative "
                                      "dividend is negative), so negative ties are not detected" % (show(dividend, maxd=2)[:80], show(lhs[3])[:12], c), loc)
            # remainder made absolute: abs(x % k) == c
            for (lhs, rhs) in ((a, b), (b, a)):
                c = _fconst(rhs)
                if c is not None and c > 0 and lhs[0] == "call" and lhs[1].endswith("::abs") and lhs[2] and lhs[2][0][0] == "bin" and lhs[2][0][1] == "Rem":
                    n += 1
                    ords["tie"] = ords.get("tie", 0) + 1
                    rep.ok(rule, norm_key("%s | FLOAT-TIE#%d" % (f.key, ords["tie"])), how="the remainder is made absolute", loc=loc)
    rep.floor(rule + " sites", n, floor)


def run_floatdiv(ctx, rep, cfg="Q", rule="FLOAT-DIV", floor=8):
    """a float division by zero does not panic - it silently produces inf or NaN, which then flows into the result or is
    cast to an integer; every float division needs a divisor that cannot be zero"""
    from .guards import guards, strip_not
    from .report import load_tsv
    rep.rule(rule, "every floating-point division in the crate has a divisor that is a non-zero constant, or is dominated by a branch "
                   "that compares the divisor (or the integer it was converted from) with zero and leaves on equality, or carries a "
                   "reviewed reason; division by a zero-length window yields NaN/inf (a zero span's total, a reference day that does "
                   "not exist in the zone)")
    prog = ctx.prog(cfg)
    reviewed = load_tsv("floatdiv")
    n = 0
    for f in sorted(prog.fns.values(), key=lambda f: f.key):
        if f.crate != "jiff":
            continue
        sites = [(bi, si, s) for bi, b in enumerate(f.blocks) for si, s in enumerate(b["st"])
                 if s["s"] == "=" and s["rv"]["k"] == "bin" and s["rv"]["op"] == "Div" and s["rv"].get("ty") in ("f64", "f32")]
        if not sites:
            continue
        T = Terms(f)
        cfg_ = mir.CFG(f)
        ords = 0
        for (bi, si, s) in sites:
            n += 1
            ords += 1
            key = norm_key("%s | FLOAT-DIV#%d" % (f.key, ords))
            loc = "%s:%s" % (f.file, s.get("ln"))
            d = T.operand(s["rv"]["b"], pos=(bi, si))
            core = d
            while core[0] == "cast" or (core[0] == "call" and core[1].endswith(("::get", "::rinto", "::rfrom")) and core[2]):
                core = core[1] if core[0] == "cast" else core[2][0]
            if core[0] == "const" and isinstance(core[1], int) and core[1] != 0:
                rep.ok(rule, key, how="non-zero constant divisor", loc=loc, nontrivial=False)
                continue
            fc = _fconst(core)
            if fc is not None and fc != 0.0:
                rep.ok(rule, key, how="non-zero constant divisor", loc=loc, nontrivial=False)
                continue
            guarded = False
            for (c, truth, _sb) in guards(f, cfg_, T, bi):
                c2, tr2 = strip_not(c, truth)
                if c2[0] == "call" and c2[1].rsplit("::", 1)[-1] in ("eq", "ne") and len(c2[2]) == 2:
                    a, b = c2[2]
                    zero = lambda t: (t[0] == "const" and t[1] == 0) or _fconst(t) == 0.0 or (t[0] == "call" and t[1].rsplit("::", 1)[-1] in ("C", "C128", "N") and (not t[2] or t[2][0] == ("const", 0)))
                    is_eq = c2[1].rsplit("::", 1)[-1] == "eq"
                    nonzero_edge = (is_eq and tr2 is False) or (not is_eq and tr2 is True)
                    if nonzero_edge and ((a in (d, core) and zero(b)) or (b in (d, core) and zero(a))):
                        guarded = True
                    # x1 != x0 for a divisor x1 - x0
                    if nonzero_edge and core[0] == "call" and core[1].endswith("::sub") and len(core[2]) == 2 and {a, b} == set(core[2]):
                        guarded = True
                if c2[0] == "bin" and c2[1] in ("Eq", "Ne"):
                    a, b = c2[2], c2[3]
                    nonzero_edge = (c2[1] == "Eq" and tr2 is False) or (c2[1] == "Ne" and tr2 is True)
                    if nonzero_edge and ((a in (d, core) and (_fconst(b) == 0.0 or b == ("const", 0))) or (b in (d, core) and (_fconst(a) == 0.0 or a == ("const", 0)))):
                        guarded = True
            if guarded:
                rep.ok(rule, key, how="dominated by a test that the divisor is not zero", loc=loc)
            else:
                rep.classify(rule, key, reviewed, loc=loc,
                             detail="the divisor %s can be zero and nothing tests it: the quotient is NaN or infinite" % show(d, maxd=4)[:140])
    rep.floor(rule + " sites", n, floor)
