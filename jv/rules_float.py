"""FLOAT-SIGN: two floating-point sign pitfalls, checked crate-wide.

FLOAT-SIGNUM  f64::signum / f32::signum never return 0 (signum(+0.0) == 1.0, signum(-0.0) == -1.0).  Using the result
              as a three-valued sign - comparing it with another sign - treats "no change" as "positive change".  Every
              float signum whose result reaches a comparison needs the function to test its argument against 0 as well.
              (Using it as a multiplicative factor is fine.)
FLOAT-TIE     Rust's `%` keeps the sign of the dividend: `x % 1.0 == 0.5` detects positive ties only (-2.5 % 1.0 == -0.5).
              A comparison of a float remainder with a positive constant needs the dividend (or the remainder) to be an
              absolute value.
"""
import re
from . import mir
from .term import Terms, walk, show
from .e1 import norm_key

CMP = ("Eq", "Ne", "Lt", "Le", "Gt", "Ge")


def _is_fsignum(x):
    return isinstance(x, tuple) and x and x[0] == "call" and re.search(r"core::f(32|64)::<impl f(32|64)>::signum$", x[1])


def _fconst(t):
    if t[0] == "const" and isinstance(t[1], str):
        m = re.match(r"^(-?[0-9.]+(?:e-?\d+)?)f(32|64)$", t[1])
        if m:
            return float(m.group(1))
    return None


def _float_sign_sites(f):
    """yields (ok: bool, kind, ordinal, text, loc) for every FLOAT-SIGNUM / FLOAT-TIE site of one function"""
    has_f = any(t.get("path", "").endswith("::signum") and re.search(r"f(32|64)", t.get("path", "")) for _, t in mir.iter_calls(f))
    has_rem = any(s["s"] == "=" and s["rv"]["k"] == "bin" and s["rv"]["op"] == "Rem" and s["rv"].get("ty") in ("f64", "f32")
                  for b in f.blocks for s in b["st"])
    if not (has_f or has_rem):
        return
    T = Terms(f)
    cmps = []
    for bi, b in enumerate(f.blocks):
        for si, s in enumerate(b["st"]):
            if s["s"] == "=" and s["rv"]["k"] == "bin" and s["rv"]["op"] in CMP:
                cmps.append((bi, si, s, T.operand(s["rv"]["a"], pos=(bi, si)), T.operand(s["rv"]["b"], pos=(bi, si))))
    zero_tested = set()
    for (_bi, _si, _s, a, b) in cmps:
        if _fconst(b) == 0.0:
            zero_tested.add(a)
        if _fconst(a) == 0.0:
            zero_tested.add(b)
    ords = {}
    for (bi, si, s, a, b) in cmps:
        loc = "%s:%s" % (f.file, s.get("ln"))
        for side in (a, b):
            for x in [x for x in walk(side) if _is_fsignum(x)]:
                ords["signum"] = ords.get("signum", 0) + 1
                arg = x[2][0] if x[2] else None
                if arg in zero_tested:
                    yield (True, "FLOAT-SIGNUM", ords["signum"], "the argument of signum is also compared with 0", loc)
                else:
                    yield (False, "FLOAT-SIGNUM", ords["signum"], "signum(%s) is compared as if it could be 0, but float signum maps +0.0 to "
                           "1.0: an exact result (difference 0) is classified as a positive change" % show(arg, maxd=3)[:120], loc)
        for (lhs, rhs) in ((a, b), (b, a)):
            c = _fconst(rhs)
            if c is not None and c > 0 and lhs[0] == "bin" and lhs[1] == "Rem" and s["rv"]["op"] in ("Eq", "Ne"):
                ords["tie"] = ords.get("tie", 0) + 1
                dividend = lhs[2]
                if dividend[0] == "call" and dividend[1].endswith("::abs"):
                    yield (True, "FLOAT-TIE", ords["tie"], "the dividend is an absolute value", loc)
                else:
                    yield (False, "FLOAT-TIE", ords["tie"], "`%s %% %s == %s` is true only for non-negative dividends (the remainder of a "
                           "negative dividend is negative), so negative ties are not detected" % (show(dividend, maxd=2)[:80], show(lhs[3])[:12], c), loc)
        for (lhs, rhs) in ((a, b), (b, a)):
            c = _fconst(rhs)
            if c is not None and c > 0 and lhs[0] == "call" and lhs[1].endswith("::abs") and lhs[2] and lhs[2][0][0] == "bin" and lhs[2][0][1] == "Rem":
                ords["tie"] = ords.get("tie", 0) + 1
                yield (True, "FLOAT-TIE", ords["tie"], "the remainder is made absolute", loc)


WIDE_INT = ("i64", "u64", "i128", "u128", "isize", "usize")


def _float_exact_sites(f):
    """(ordinal, from type, loc) of every conversion of an integer wider than the f64 mantissa into a float"""
    n = 0
    for b in f.blocks:
        for s in b["st"]:
            if s["s"] == "=" and s["rv"]["k"] == "cast" and s["rv"].get("kind") == "IntToFloat" and s["rv"].get("from") in WIDE_INT:
                n += 1
                yield (n, s["rv"]["from"], "%s:%s" % (f.file, s.get("ln")))


def _controls(rep, rule, what, got, want):
    """positive/negative control on the committed control crate: the matcher must report exactly the bad examples"""
    if got == want:
        rep.ok(rule, "matcher control", how="on fixtures/controls.jsonl the matcher reports %s and nothing else" % sorted(want), nontrivial=False)
    else:
        rep.violation(rule, "matcher control", "positive control failed: on the control crate the %s matcher reports %s, expected %s "
                      "(a rule that has no instance on the repository must still find its tiny bad example)" % (what, sorted(got), sorted(want)),
                      "fixtures/controls/src/lib.rs")


def run_float(ctx, rep, cfg="Q", rule="FLOAT-SIGN", floor=0):
    from . import facts
    rep.rule(rule, "FLOAT-SIGNUM: the result of f64/f32::signum (which is never 0) is compared with another value only in functions "
                   "that also compare its argument with 0; FLOAT-TIE: a float remainder compared with a positive constant (the tie "
                   "test `x % 1.0 == 0.5`) has an absolute value as dividend or is itself made absolute, because `%` keeps the "
                   "dividend's sign (checked in every function of the crate). Since the repair of F47 the calendar rounding uses "
                   "no floats and the crate has no instance of either pattern; the matcher is kept alive by a control crate "
                   "(fixtures/controls) whose two bad examples it must report and whose two good ones it must accept")
    prog = ctx.prog(cfg)
    n = 0
    for f in sorted(prog.fns.values(), key=lambda f: f.key):
        if f.crate != "jiff":
            continue
        for (ok, kind, o, text, loc) in _float_sign_sites(f):
            n += 1
            key = norm_key("%s | %s#%d" % (f.key, kind, o))
            if ok:
                rep.ok(rule, key, how=text, loc=loc)
            else:
                rep.violation(rule, key, text, loc)
    rep.floor(rule + " sites", n, floor)
    ctl = facts.load_controls()
    bad = {"%s:%s" % (f.path, kind) for f in ctl.fns.values() for (ok, kind, _o, _t, _l) in _float_sign_sites(f) if not ok}
    good = {"%s:%s" % (f.path, kind) for f in ctl.fns.values() for (ok, kind, _o, _t, _l) in _float_sign_sites(f) if ok}
    _controls(rep, rule, "FLOAT-SIGNUM/FLOAT-TIE", bad, {"bad_signum:FLOAT-SIGNUM", "bad_tie:FLOAT-TIE"})
    if good != {"good_signum:FLOAT-SIGNUM", "good_tie:FLOAT-TIE"}:
        rep.violation(rule, "matcher control (accepting)", "on the control crate the matcher accepts %s, expected the two good examples" % sorted(good),
                      "fixtures/controls/src/lib.rs")


ROUND_ROOTS = ["span::Span::round", "span::SpanRound::<'a>::round", "zoned::Zoned::round", "zoned::Zoned::until", "zoned::Zoned::since",
               "timestamp::Timestamp::round", "timestamp::Timestamp::until", "timestamp::Timestamp::since",
               "civil::datetime::DateTime::round", "civil::datetime::DateTime::until", "civil::datetime::DateTime::since",
               "civil::date::Date::until", "civil::date::Date::since", "civil::time::Time::round", "civil::time::Time::until",
               "civil::time::Time::since", "signed_duration::SignedDuration::round", "tz::offset::Offset::round",
               "span::Span::checked_add", "span::Span::checked_sub", "span::Span::compare"]


def run_float_exact(ctx, rep, cfg="Q", rule="FLOAT-EXACT"):
    """a rounding decision must not be taken on a float made from a 64/128-bit count"""
    from . import facts
    rep.rule(rule, "in every function reachable from the rounding, difference, addition and comparison entry points (Span::round, "
                   "*::round, *::until/since, Span::checked_add/compare - not Span::total and the *_f64 conversions, whose results "
                   "are floats by contract) no integer wider than the 53-bit mantissa of f64 (i64, u64, i128, u128, isize, usize) is "
                   "converted to a float: a year is 3.15e16 ns > 2^53, so the float of a nanosecond count is inexact and every "
                   "discrete decision taken on it (which neighbour, which side of a tie) is wrong for inputs within a few "
                   "nanoseconds of the boundary. Expected count on the repository: 0; control: fixtures/controls bad_exact")
    E = ctx.e1(cfg)
    roots = [k for k in (("jiff::" + r) for r in ROUND_ROOTS) if k in E.prog.fns]
    rep.floor(rule + " roots", len(roots), 18)
    parent = E.cg.reach(roots)
    n_fn = 0
    for k in sorted(parent):
        f = E.prog.fns.get(k)
        if f is None or f.crate != "jiff":
            continue
        n_fn += 1
        sites = list(_float_exact_sites(f))
        for (o, ty, loc) in sites:
            chain = " -> ".join(x[0].split("::")[-1] for x in reversed(E.cg.path_to(parent, k)))
            rep.violation(rule, norm_key("%s | FLOAT-EXACT#%d" % (f.key, o)), "a %s is converted to a float in a function that takes part in "
                          "rounding/difference decisions (%s): the float of a count above 2^53 is inexact, so the neighbour or the "
                          "side of a tie is chosen wrongly for inputs within a few nanoseconds of a boundary" % (ty, chain[:160]), loc)
    rep.ok(rule, "functions reachable from the rounding entry points", how="%d functions, conversions of wide integers to floats are reported individually" % n_fn, nontrivial=False)
    rep.floor(rule + " functions", n_fn, 300)
    ctl = facts.load_controls()
    got = {f.path for f in ctl.fns.values() if list(_float_exact_sites(f))}
    _controls(rep, rule, "FLOAT-EXACT", got, {"bad_exact"})


def run_floatdiv(ctx, rep, cfg="Q", rule="FLOAT-DIV", floor=8):
    """a float division by zero does not panic - it silently produces inf or NaN, which then flows into the result or is
    cast to an integer; every float division needs a divisor that cannot be zero"""
    from .guards import guards, strip_not
    from .report import load_tsv
    rep.rule(rule, "every floating-point division in the crate has a divisor that is a non-zero constant, or is dominated by a branch "
                   "that compares the divisor (or the integer it was converted from) with zero and leaves on equality, or carries a "
                   "reviewed reason; division by a zero-length window yields NaN/inf (a zero span's total, a reference day that does "
                   "not exist in the zone)")
    prog = ctx.prog(cfg)
    reviewed = load_tsv("floatdiv")
    n = 0
    for f in sorted(prog.fns.values(), key=lambda f: f.key):
        if f.crate != "jiff":
            continue
        sites = [(bi, si, s) for bi, b in enumerate(f.blocks) for si, s in enumerate(b["st"])
                 if s["s"] == "=" and s["rv"]["k"] == "bin" and s["rv"]["op"] == "Div" and s["rv"].get("ty") in ("f64", "f32")]
        if not sites:
            continue
        T = Terms(f)
        cfg_ = mir.CFG(f)
        ords = 0
        for (bi, si, s) in sites:
            n += 1
            ords += 1
            key = norm_key("%s | FLOAT-DIV#%d" % (f.key, ords))
            loc = "%s:%s" % (f.file, s.get("ln"))
            d = T.operand(s["rv"]["b"], pos=(bi, si))
            core = d
            while core[0] == "cast" or (core[0] == "call" and core[1].endswith(("::get", "::rinto", "::rfrom")) and core[2]):
                core = core[1] if core[0] == "cast" else core[2][0]
            if core[0] == "const" and isinstance(core[1], int) and core[1] != 0:
                rep.ok(rule, key, how="non-zero constant divisor", loc=loc, nontrivial=False)
                continue
            fc = _fconst(core)
            if fc is not None and fc != 0.0:
                rep.ok(rule, key, how="non-zero constant divisor", loc=loc, nontrivial=False)
                continue
            guarded = False
            for (c, truth, _sb) in guards(f, cfg_, T, bi):
                c2, tr2 = strip_not(c, truth)
                if c2[0] == "call" and c2[1].rsplit("::", 1)[-1] in ("eq", "ne") and len(c2[2]) == 2:
                    a, b = c2[2]
                    zero = lambda t: (t[0] == "const" and t[1] == 0) or _fconst(t) == 0.0 or (t[0] == "call" and t[1].rsplit("::", 1)[-1] in ("C", "C128", "N") and (not t[2] or t[2][0] == ("const", 0)))
                    is_eq = c2[1].rsplit("::", 1)[-1] == "eq"
                    nonzero_edge = (is_eq and tr2 is False) or (not is_eq and tr2 is True)
                    if nonzero_edge and ((a in (d, core) and zero(b)) or (b in (d, core) and zero(a))):
                        guarded = True
                    # x1 != x0 for a divisor x1 - x0
                    if nonzero_edge and core[0] == "call" and core[1].endswith("::sub") and len(core[2]) == 2 and {a, b} == set(core[2]):
                        guarded = True
                if c2[0] == "bin" and c2[1] in ("Eq", "Ne"):
                    a, b = c2[2], c2[3]
                    nonzero_edge = (c2[1] == "Eq" and tr2 is False) or (c2[1] == "Ne" and tr2 is True)
                    if nonzero_edge and ((a in (d, core) and (_fconst(b) == 0.0 or b == ("const", 0))) or (b in (d, core) and (_fconst(a) == 0.0 or a == ("const", 0)))):
                        guarded = True
            if guarded:
                rep.ok(rule, key, how="dominated by a test that the divisor is not zero", loc=loc)
            else:
                rep.classify(rule, key, reviewed, loc=loc,
                             detail="the divisor %s can be zero and nothing tests it: the quotient is NaN or infinite" % show(d, maxd=4)[:140])
    rep.floor(rule + " sites", n, floor)


def run_total_exact(ctx, rep, cfg="Q", rule="TOTAL-EXACT"):
    """Span::total without a reference: the whole number of units is an integer quotient"""
    rep.rule(rule, "SpanTotal::total_invariant returns a float by contract, but the whole number of units it reports must be exact "
                   "whenever it is representable: the nanosecond total is divided by the unit's nanoseconds in integers (an integer "
                   "Div and Rem by the same divisor), and the only float division has the remainder - a value below one unit - as "
                   "its dividend. Casting the 128-bit total to f64 first loses its low bits above 2^53 ns (104 days), so "
                   "20_496_383.hours().total(Hour) came out as 20496383.000000004")
    prog = ctx.prog(cfg)
    f = prog.fns.get("jiff::span::SpanTotal::<'a>::total_invariant")
    if f is None:
        rep.anchor_missing("span::SpanTotal::total_invariant")
        return
    T = Terms(f)
    fdivs = [(bi, si, s) for bi, b in enumerate(f.blocks) for si, s in enumerate(b["st"])
             if s["s"] == "=" and s["rv"]["k"] == "bin" and s["rv"]["op"] == "Div" and s["rv"].get("ty") in ("f64", "f32")]
    if not fdivs:
        rep.violation(rule, "total_invariant", "anchor missing: no float division found", f.loc())
        return
    for (bi, si, s) in fdivs:
        dividend = T.operand(s["rv"]["a"], pos=(bi, si))
        loc = "%s:%s" % (f.file, s.get("ln"))
        has_rem = any(isinstance(x, tuple) and x and ((x[0] == "bin" and x[1] == "Rem") or (x[0] == "call" and re.search(r"::(rem|rem_ceil|rem_floor|rem_euclid)$", x[1]))) for x in walk(dividend))
        if has_rem:
            rep.ok(rule, "total_invariant", how="the float division's dividend is an integer remainder", loc=loc)
        else:
            rep.violation(rule, "total_invariant", "the float division's dividend is %s: the full nanosecond total is rounded to f64 before "
                          "the division, so totals that are exact integers come out off by an ulp" % show(dividend, maxd=4)[:120], loc)
