"""FLOAT-SIGN: two floating-point sign pitfalls, checked crate-wide.

FLOAT-SIGNUM  f64::signum / f32::signum never return 0 (signum(+0.0) == 1.0, signum(-0.0) == -1.0).  Using the result
              as a three-valued sign - comparing it with another sign - treats "no change" as "positive change".  Every
              float signum whose result reaches a comparison needs the function to test its argument against 0 as well.
              (Using it as a multiplicative factor is fine.)
FLOAT-TIE     Rust's `%` keeps the sign of the dividend: `x % 1.0 == 0.5` detects positive ties only (-2.5 % 1.0 == -0.5).
              A comparison of a float remainder with a positive constant needs the dividend (or the remainder) to be an
              absolute value.
"""
import re
from . import mir
from .term import Terms, walk, show
from .e1 import norm_key

CMP = ("Eq", "Ne", "Lt", "Le", "Gt", "Ge")


def _is_fsignum(x):
    return isinstance(x, tuple) and x and x[0] == "call" and re.search(r"core::f(32|64)::<impl f(32|64)>::signum$", x[1])


def _fconst(t):
    if t[0] == "const" and isinstance(t[1], str):
        m = re.match(r"^(-?[0-9.]+(?:e-?\d+)?)f(32|64)$", t[1])
        if m:
            return float(m.group(1))
    return None


def run_float(ctx, rep, cfg="Q", rule="FLOAT-SIGN", floor=4):
    rep.rule(rule, "FLOAT-SIGNUM: the result of f64/f32::signum (which is never 0) is compared with another value only in functions "
                   "that also compare its argument with 0; FLOAT-TIE: a float remainder compared with a positive constant (the tie "
                   "test `x % 1.0 == 0.5`) has an absolute value as dividend or is itself made absolute, because `%` keeps the "
                   "dividend's sign (checked in every function of the crate)")
    prog = ctx.prog(cfg)
    n = 0
    for f in sorted(prog.fns.values(), key=lambda f: f.key):
        if f.crate != "jiff":
            continue
        has_f = any(t.get("path", "").endswith("::signum") and re.search(r"f(32|64)", t.get("path", "")) for _, t in mir.iter_calls(f))
        has_rem = any(s["s"] == "=" and s["rv"]["k"] == "bin" and s["rv"]["op"] == "Rem" and s["rv"].get("ty") in ("f64", "f32")
                      for b in f.blocks for s in b["st"])
        if not (has_f or has_rem):
            continue
        T = Terms(f)
        cmps = []
        for bi, b in enumerate(f.blocks):
            for si, s in enumerate(b["st"]):
                if s["s"] == "=" and s["rv"]["k"] == "bin" and s["rv"]["op"] in CMP:
                    cmps.append((bi, si, s, T.operand(s["rv"]["a"], pos=(bi, si)), T.operand(s["rv"]["b"], pos=(bi, si))))
        zero_tested = set()
        for (_bi, _si, _s, a, b) in cmps:
            if _fconst(b) == 0.0:
                zero_tested.add(a)
            if _fconst(a) == 0.0:
                zero_tested.add(b)
        ords = {}
        for (bi, si, s, a, b) in cmps:
            loc = "%s:%s" % (f.file, s.get("ln"))
            for side in (a, b):
                sg = [x for x in walk(side) if _is_fsignum(x)]
                for x in sg:
                    n += 1
                    ords["signum"] = ords.get("signum", 0) + 1
                    key = norm_key("%s | FLOAT-SIGNUM#%d" % (f.key, ords["signum"]))
                    arg = x[2][0] if x[2] else None
                    if arg in zero_tested:
                        rep.ok(rule, key, how="the argument of signum is also compared with 0", loc=loc)
                    else:
                        rep.violation(rule, key, "signum(%s) is compared as if it could be 0, but float signum maps +0.0 to 1.0: "
                                      "an exact result (difference 0) is classified as a positive change" % show(arg, maxd=3)[:120], loc)
            # tie test
            for (lhs, rhs) in ((a, b), (b, a)):
                c = _fconst(rhs)
                if c is not None and c > 0 and lhs[0] == "bin" and lhs[1] == "Rem" and s["rv"]["op"] in ("Eq", "Ne"):
                    n += 1
                    ords["tie"] = ords.get("tie", 0) + 1
                    key = norm_key("%s | FLOAT-TIE#%d" % (f.key, ords["tie"]))
                    dividend = lhs[2]
                    is_abs = dividend[0] == "call" and dividend[1].endswith("::abs")
                    if is_abs:
                        rep.ok(rule, key, how="the dividend is an absolute value", loc=loc)
                    else:
                        rep.violation(rule, key, "`%s %% %s == %s` is true only for non-negative dividends (the remainder of a negative "
                                      "dividend is negative), so negative ties are not detected" % (show(dividend, maxd=2)[:80], show(lhs[3])[:12], c), loc)
            # remainder made absolute: abs(x % k) == c
            for (lhs, rhs) in ((a, b), (b, a)):
                c = _fconst(rhs)
                if c is not None and c > 0 and lhs[0] == "call" and lhs[1].endswith("::abs") and lhs[2] and lhs[2][0][0] == "bin" and lhs[2][0][1] == "Rem":
                    n += 1
                    ords["tie"] = ords.get("tie", 0) + 1
                    rep.ok(rule, norm_key("%s | FLOAT-TIE#%d" % (f.key, ords["tie"])), how="the remainder is made absolute", loc=loc)
    rep.floor(rule + " sites", n, floor)
