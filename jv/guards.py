"""Path conditions: the branch conditions that must hold to reach a block."""
from . import mir


def guards(fn, cfg, T, b):
    """[(condition term, truth)] for every SwitchInt that dominates block `b`
    and has exactly one successor from which `b` is reachable without passing
    the switch again. For bool switches truth is True/False; for integer /
    discriminant switches it is ('eq', v) or ('ne', [excluded...])."""
    out = []
    for sb in cfg.dominators(b):
        if sb == b:
            continue
        t = fn.blocks[sb]["term"]
        if t["t"] != "switch":
            continue
        succs = list(zip(t["vals"], t["targets"])) + [(None, t["otherwise"])]
        reach = [(v, tg) for (v, tg) in succs if tg == b or b in cfg.reachable_from(tg, avoid=(sb,))]
        tgts = {tg for _, tg in reach}
        if len(tgts) != 1:
            continue
        vs = [v for v, _ in reach]
        cond = T.operand(t["op"], 0, (sb, "term"))
        if t.get("op_ty") == "bool":
            if vs == [0]:
                truth = False
            elif vs == [None] and list(t["vals"]) == [0]:
                truth = True
            elif vs == [1]:
                truth = True
            elif vs == [None] and list(t["vals"]) == [1]:
                truth = False
            else:
                continue
        else:
            if None in vs:
                truth = ("ne", sorted(set(t["vals"]) - {v for v in vs if v is not None}))
            else:
                truth = ("eq", sorted(vs))
        out.append((cond, truth, sb))
    return out


def strip_not(cond, truth):
    while isinstance(cond, tuple) and cond and cond[0] == "un" and cond[1] == "Not" and isinstance(truth, bool):
        cond, truth = cond[2], not truth
    return cond, truth
