"""E1 - panic reachability (DESIGN.md section 3/E1).

Enumerates panic sites of every workspace function, computes which are
reachable from a root set over the resolved call graph, and classifies each
reachable site as auto-discharged / reviewed / known finding / violation.
"""
import os, re
from collections import defaultdict
from . import mir
from .callgraph import CallGraph

# (a) explicit panic entry points
PANIC_FNS = {
    "core::panicking::panic", "core::panicking::panic_fmt",
    "core::panicking::assert_failed", "core::panicking::panic_explicit",
    "core::panicking::unreachable_display", "core::panicking::panic_display",
    "core::panicking::panic_nounwind", "std::rt::begin_panic",
    "core::panicking::panic_str_2015", "core::panicking::assert_failed_inner",
    "core::panicking::panic_const::panic_const_add_overflow",
    "core::option::unwrap_failed", "core::option::expect_failed",
    "core::result::unwrap_failed", "core::slice::index::slice_index_fail",
}

# (b) std functions that may panic on some argument (the stated table; every
# other std function is assumed not to panic except on allocation failure)
PANICKY_STD = {
    "core::option::Option::<T>::unwrap": "Option::unwrap",
    "core::option::Option::<T>::expect": "Option::expect",
    "core::result::Result::<T, E>::unwrap": "Result::unwrap",
    "core::result::Result::<T, E>::expect": "Result::expect",
    "core::result::Result::<T, E>::unwrap_err": "Result::unwrap_err",
    "core::result::Result::<T, E>::expect_err": "Result::expect_err",
    "core::option::Option::<T>::unwrap_unchecked": "Option::unwrap_unchecked",
    "<std::string::String as core::ops::Index<I>>::index": "String::index",
    "<std::vec::Vec<T, A> as core::ops::Index<I>>::index": "Vec::index",
    "<std::vec::Vec<T, A> as core::ops::IndexMut<I>>::index_mut": "Vec::index_mut",
    "core::array::<impl core::ops::Index<I> for [T; N]>::index": "array::index",
    "core::array::<impl core::ops::IndexMut<I> for [T; N]>::index_mut": "array::index_mut",
    "core::slice::index::<impl core::ops::Index<I> for [T]>::index": "slice::index",
    "core::slice::index::<impl core::ops::IndexMut<I> for [T]>::index_mut": "slice::index_mut",
    "core::str::traits::<impl core::ops::Index<I> for str>::index": "str::index",
    "core::str::traits::<impl core::ops::IndexMut<I> for str>::index_mut": "str::index_mut",
    "core::slice::<impl [T]>::split_at": "slice::split_at",
    "core::slice::<impl [T]>::split_at_mut": "slice::split_at_mut",
    "core::str::<impl str>::split_at": "str::split_at",
    "core::slice::<impl [T]>::copy_from_slice": "slice::copy_from_slice",
    "core::slice::<impl [T]>::clone_from_slice": "slice::clone_from_slice",
    "core::slice::<impl [T]>::chunks_exact": "slice::chunks_exact",
    "core::slice::<impl [T]>::chunks": "slice::chunks",
    "core::slice::<impl [T]>::windows": "slice::windows",
    "core::slice::<impl [T]>::swap": "slice::swap",
    "core::slice::<impl [T]>::rotate_left": "slice::rotate_left",
    "core::slice::<impl [T]>::rotate_right": "slice::rotate_right",
    "std::vec::Vec::<T, A>::insert": "Vec::insert",
    "std::vec::Vec::<T, A>::remove": "Vec::remove",
    "std::vec::Vec::<T, A>::swap_remove": "Vec::swap_remove",
    "std::vec::Vec::<T, A>::drain": "Vec::drain",
    "std::vec::Vec::<T, A>::split_off": "Vec::split_off",
    "std::vec::Vec::<T, A>::truncate": None,
    "std::string::String::insert": "String::insert",
    "std::string::String::remove": "String::remove",
    "std::string::String::truncate": "String::truncate",
    "std::string::String::drain": "String::drain",
    "core::time::Duration::new": "Duration::new",
    "core::time::Duration::from_secs_f64": "Duration::from_secs_f64",
    "core::time::Duration::from_secs_f32": "Duration::from_secs_f32",
    "core::time::Duration::mul_f64": "Duration::mul_f64",
    "core::time::Duration::div_f64": "Duration::div_f64",
    "core::cell::RefCell::<T>::borrow": "RefCell::borrow",
    "core::cell::RefCell::<T>::borrow_mut": "RefCell::borrow_mut",
    "<T as std::string::ToString>::to_string": "ToString::to_string",
    "std::string::ToString::to_string": "ToString::to_string",
    "std::fmt::format": "fmt::format",
    "core::iter::range::<impl core::iter::Iterator for core::ops::RangeFrom<A>>::next": "RangeFrom::next",
    "core::iter::Iterator::step_by": "Iterator::step_by",
    "core::char::from_digit": "char::from_digit",
    "core::char::methods::<impl char>::from_digit": "char::from_digit",
    "core::char::methods::<impl char>::to_digit": "char::to_digit",
    "core::num::<impl u32>::pow": "u32::pow", "core::num::<impl u64>::pow": "u64::pow",
    "core::num::<impl i32>::pow": "i32::pow", "core::num::<impl i64>::pow": "i64::pow",
    "core::num::<impl i128>::pow": "i128::pow", "core::num::<impl usize>::pow": "usize::pow",
    "std::time::Instant::duration_since": None,
    "std::time::Instant::elapsed": None,
    "core::slice::<impl [T]>::binary_search_by": None,
}
PANICKY_STD = {k: v for k, v in PANICKY_STD.items() if v}
# integer methods that inherit overflow checks / trap on zero
for _t in ("i8", "i16", "i32", "i64", "i128", "isize"):
    for _m in ("abs", "div_euclid", "rem_euclid", "next_power_of_two", "ilog10", "ilog2", "ilog"):
        PANICKY_STD["core::num::<impl %s>::%s" % (_t, _m)] = "%s::%s" % (_t, _m)
for _t in ("u8", "u16", "u32", "u64", "u128", "usize"):
    for _m in ("div_euclid", "rem_euclid", "next_power_of_two", "ilog10", "ilog2", "ilog", "abs_diff_"):
        PANICKY_STD["core::num::<impl %s>::%s" % (_t, _m)] = "%s::%s" % (_t, _m)
# operator impls of std types that panic on overflow
for _op, _m in (("Add", "add"), ("Sub", "sub"), ("Mul", "mul"), ("Div", "div"),
                ("AddAssign", "add_assign"), ("SubAssign", "sub_assign")):
    PANICKY_STD["<core::time::Duration as core::ops::%s>::%s" % (_op, _m)] = "Duration::" + _m
    PANICKY_STD["<core::time::Duration as core::ops::%s<u32>>::%s" % (_op, _m)] = "Duration::" + _m
    PANICKY_STD["<std::time::Instant as core::ops::%s<core::time::Duration>>::%s" % (_op, _m)] = "Instant::" + _m
    PANICKY_STD["<std::time::SystemTime as core::ops::%s<core::time::Duration>>::%s" % (_op, _m)] = "SystemTime::" + _m

# modules E1 does not traverse: debug-only bound tracking of the ranged
# integers is E2's subject (accounted per call site there)
_PROG = None
def e1_skip(key):
    f = _PROG.fns.get(key) if _PROG else None
    if f is not None:
        return f.file == "src/util/rangeint.rs" or key in contract_panickers(_PROG)
    return "util::rangeint::" in key


_OPS = re.compile(r"^<(?P<ty>[^<>]+(?:<[^<>]*>)?) as core::ops::(?:Add|Sub|Mul|Div|Rem|Neg|AddAssign|SubAssign|MulAssign|DivAssign|RemAssign)(?:<.*>)?>::\w+$")
_CP_CACHE = {}
# public constructors / operations whose rustdoc has a `# Panics` section for out-of-domain arguments and whose
# arguments are not covered by a PARAM contract (contracts.py): like the operator impls, each CALL is an obligation
DOCUMENTED_PANICS = (
    "signed_duration::SignedDuration::abs",
    "signed_duration::SignedDuration::new",
    "span::Span::years", "span::Span::months", "span::Span::weeks", "span::Span::days", "span::Span::hours",
    "span::Span::minutes", "span::Span::seconds", "span::Span::milliseconds", "span::Span::microseconds",
    "span::Span::nanoseconds",
)


def contract_panickers(prog):
    """Operator impls of jiff's own value types (`a + b`, `a -= b`, `-a`, `span * n`) that panic on overflow by documented
    contract: their bodies contain an explicit panic / expect / unwrap (directly, or by delegating to another such operator).
    E1 does not descend into them; instead every CALL of one of them is a panic site of the caller, so a new use of a
    panicking operator on a fallible path is a new obligation (reviewing the operator's body once, with a list of today's
    callers, would silently cover tomorrow's)."""
    if id(prog) in _CP_CACHE:
        return _CP_CACHE[id(prog)]
    cands = {}
    for k, f in prog.fns.items():
        if f.crate != "jiff" or f.is_closure or f.file == "src/util/rangeint.rs" or f.file == "src/util/t.rs":
            continue
        if _OPS.match(f.path):
            cands[k] = f
    out = set(k for k in ("jiff::" + x for x in DOCUMENTED_PANICS) if k in prog.fns)
    changed = True
    while changed:
        changed = False
        for k, f in cands.items():
            if k in out:
                continue
            hit = False
            for b in f.blocks:
                t = b["term"]
                if t["t"] != "call" or "path" not in t:
                    continue
                p_ = t["path"]
                if p_ in PANIC_FNS or p_.startswith("core::panicking::") or \
                        (p_ in PANICKY_STD and PANICKY_STD[p_].rsplit("::", 1)[-1] in ("expect", "unwrap")):
                    hit = True
                elif t.get("rkrate") and (t["rkrate"] + "::" + p_) in out:
                    hit = True
            if hit:
                out.add(k)
                changed = True
    _CP_CACHE[id(prog)] = out
    return out


_src_cache = {}
def src_line(file, line, repo=None):
    from .facts import REPO
    p = file if os.path.isabs(file) else os.path.join(repo or REPO, file)
    if p not in _src_cache:
        try:
            with open(p, errors="replace") as fh:
                _src_cache[p] = fh.read().split("\n")
        except OSError:
            _src_cache[p] = []
    ls = _src_cache[p]
    return ls[line - 1].strip() if 0 < line <= len(ls) else ""


_str_lit = re.compile(r'"((?:[^"\\]|\\.)*)"')

def macro_name(span):
    for m in span.get("macros", []):
        mm = re.match(r"macro `?([A-Za-z_0-9:]+)`?", m) or re.match(r"([a-z_]+) macro", m)
        if m.startswith("macro `"):
            return m[len("macro `"):].rstrip("`")
        if mm:
            return mm.group(1)
    return None


_alloc = re.compile(r"\balloc::(string|vec|boxed|sync|borrow|fmt)::")


def norm_key(k):
    """site keys are configuration independent: no_std builds name the same
    types through `alloc::`"""
    return _alloc.sub(r"std::\1::", k)


class Site:
    __slots__ = ("fn", "bb", "kind", "detail", "ordinal", "term", "file", "line", "src", "extra")

    def key(self):
        return norm_key("%s | %s | %s#%d" % (self.fn.key, self.kind, self.detail, self.ordinal))

    def loc(self):
        return "%s:%s" % (self.file, self.line)

    def to_json(self):
        return {"key": self.key(), "loc": self.loc(), "fn": self.fn.key, "kind": self.kind,
                "detail": self.detail, "src": self.src}


def enumerate_sites(fn, debug_assertions=True):
    """All panic sites of one function body (reachable blocks, normal flow)."""
    cfg = mir.CFG(fn)
    reach = cfg.reachable()
    sites = []
    counts = defaultdict(int)
    for bi in sorted(reach):
        b = fn.blocks[bi]
        t = b["term"]
        tt = t["t"]
        site = None
        if tt == "call" and "path" in t:
            path = t["path"]
            if path in PANIC_FNS or path.startswith("core::panicking::"):
                span = t["span"]
                mac = None
                for m in span.get("macros", []):
                    if m.startswith("macro `"):
                        mac = m[len("macro `"):].rstrip("`")
                        # outermost user-visible macro wins (last in backtrace)
                line_src = src_line(span["file"], span["line"])
                msg = ""
                for a in t["args"]:
                    if a.get("o") == "c" and "s" in a:
                        msg = a["s"]
                        break
                if not msg:
                    mm = _str_lit.search(line_src)
                    if mm:
                        msg = mm.group(1)
                    else:
                        # message may start on the next line
                        nxt = src_line(span["file"], span["line"] + 1)
                        mm = _str_lit.search(nxt)
                        if mm and not line_src.rstrip().endswith(";"):
                            msg = mm.group(1)
                kind = "panic"
                detail = "%s!(%s)" % (mac or path.split("::")[-1], msg[:70])
                site = (kind, detail, span)
            elif _PROG is not None and t.get("rkrate") == "jiff" and ("jiff::" + path) in contract_panickers(_PROG):
                span = t["span"]
                site = ("op", "call %s" % path, span)
            elif path in PANICKY_STD:
                span = t["span"]
                short = PANICKY_STD[path]
                msg = ""
                if short.endswith("expect") and len(t["args"]) > 1 and "s" in t["args"][1]:
                    msg = t["args"][1]["s"][:70]
                kind = "std"
                detail = "%s(%s)" % (short, msg) if msg else short
                # type info for integer methods / index
                if short.split("::")[0] in ("slice", "str", "Vec", "array", "String") and "index" in short:
                    detail += " [" + t["arg_tys"][1] + "]" if len(t["arg_tys"]) > 1 else ""
                site = (kind, detail, span)
        elif tt == "assert":
            span = t["span"]
            kind = "assert"
            tys = t.get("op_tys") or [""]
            detail = "%s %s" % (t["kind"], tys[0])
            site = (kind, detail, span)
        if site is None:
            continue
        kind, detail, span = site
        s = Site()
        s.fn = fn; s.bb = bi; s.kind = kind; s.detail = detail; s.term = t
        s.file = span["file"]; s.line = span["line"]
        s.src = src_line(span["file"], span["line"])[:160]
        counts[(kind, detail)] += 1
        s.ordinal = counts[(kind, detail)]
        s.extra = {"macros": span.get("macros", []), "cfg": cfg}
        sites.append(s)
    return sites


def is_result_root(fn):
    if fn.is_closure:
        return False
    ret = fn.get("ret", "")
    return ret.startswith("core::result::Result<")


class E1:
    def __init__(self, prog):
        global _PROG
        _PROG = prog
        self.prog = prog
        self.cg = CallGraph(prog)
        self._sites = {}

    def sites(self, key):
        if key not in self._sites:
            self._sites[key] = enumerate_sites(self.prog.fns[key])
        return self._sites[key]

    def public_result_roots(self, crate="jiff"):
        out = []
        for f in self.prog.fns.values():
            if f.crate != crate or f.is_closure:
                continue
            if not f.get("reachable"):
                continue
            if is_result_root(f) and not e1_skip(f.key):
                out.append(f.key)
        return sorted(out)

    def reachable_sites(self, roots):
        parent = self.cg.reach(roots, skip=e1_skip)
        out = []
        for k in parent:
            if k not in self.prog.fns:
                continue
            for s in self.sites(k):
                out.append(s)
        return parent, out
