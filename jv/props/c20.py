"""C20 - TimeZone handles are memory-safe values (structural argument, E6).

The refcount/tag/alignment argument for `tz::timezone::repr::Repr`:
construct = +1, clone = +1, drop = -1, getters = 0, per tag and per pointee
type, decided by specialising the abstract interpreter on each tag value.
"""
from ..rules_r5 import utc_whole
import itertools, re
from .. import mir
from ..absint import Analyzer, AV
from ..pathcount import count_on_paths

REPR = "tz::timezone::repr::Repr"
TAGS = ["UTC", "UNKNOWN", "FIXED", "STATIC_TZIF", "ARC_TZIF", "ARC_POSIX"]
CTOR_TAG = {"utc": "UTC", "unknown": "UNKNOWN", "fixed": "FIXED", "static_tzif": "STATIC_TZIF",
            "arc_tzif": "ARC_TZIF", "arc_posix": "ARC_POSIX"}
GETTER_TAG = {"get_fixed": "FIXED", "get_static_tzif": "STATIC_TZIF", "get_arc_tzif": "ARC_TZIF",
              "get_arc_posix": "ARC_POSIX"}
ALLOWED_AGG = {REPR + "::" + n for n in CTOR_TAG} | {REPR + "::copy", "<%s as core::clone::Clone>::clone" % REPR}


def calls(fn, pred):
    return [(bi, t) for bi, t in mir.iter_calls(fn) if pred(t)]


def specialise(ctx_auto, fn, assign):
    """Analyse fn with every `Repr::tag()` call returning the tag assigned to
    its receiver (identified by reference provenance)."""
    def init(an, st):
        for i in range(1, fn["argc"] + 1):
            if an.local_ty(i).startswith("&"):
                st.vals[(i,)] = AV(ref=("param", i))

    def call(an, st, t, avs, where):
        if t.get("path") == REPR + "::tag":
            r = avs[0].ref if avs else None
            if r in assign:
                return AV(iv=(assign[r], assign[r]))
            return AV(iv=(0, 7))
        return None

    an = Analyzer(fn, ctx_auto.prog, ctx_auto.contracts, ctx_auto.summary,
                  {"init": init, "call": call}, ctx_auto.param_contracts)
    an.run()
    return an


def receivers(ctx_auto, fn):
    """reference provenance of the receiver of every tag()/getter call"""
    an = specialise(ctx_auto, fn, {})
    out = {}
    for bi, t in mir.iter_calls(fn):
        p = t.get("path", "")
        if p == REPR + "::tag" or p.startswith(REPR + "::get_"):
            st = an.pre.get(bi)
            if st is None:
                continue
            out[bi] = an.read_op(st, t["args"][0]).ref
    return out


def run(ctx, rep):
    rep.rule("TAG-TABLE", "the tag constants are pairwise distinct and <= BITS; BITS+1 <= ALIGN; each constructor ors "
                          "exactly its own tag (STATIC_TZIF == 0 is built without or-ing); fixed() shifts by k with 2^k > BITS, "
                          "get_fixed() shifts back by the same k through a signed 32-bit cast and MAX<<k fits i32")
    rep.rule("ALIGN", "the pointee types carry #[repr(align(n))] with n >= Repr::ALIGN (target independent)")
    rep.rule("PAIRING", "per Arc-backed tag t with pointee X: constructor = Arc::<X>::into_raw; under tag()==t Clone calls "
                        "Arc::<X>::increment_strong_count exactly once on every feasible path and Drop calls "
                        "decrement_strong_count::<X> exactly once; under every other tag neither is feasible; getters "
                        "rebuild Arc::<X>::from_raw only inside ManuallyDrop and mask with !BITS")
    rep.rule("DISPATCH", "for every function that reads a Repr through a getter: under every assignment of tags to the "
                         "receivers, a feasible get_* call matches its receiver's tag; no unreachable_unchecked is feasible "
                         "under a constructible tag")
    rep.rule("CONSTRUCT", "Repr{ptr} aggregates occur only in the enumerated constructors; Repr::copy is called only by "
                          "TimeZone::copy which has no caller in the workspace's type-checked code; no mem::forget/ManuallyDrop "
                          "of a TimeZone/Repr/Zoned (positive control: the matcher finds the ManuallyDrop<Arc<..>> getters)")
    rep.rule("SEND-SYNC", "every pointee type of an Arc operation in repr is Send + Sync (trait selection)")
    for cfg in ctx.configs:
        one_config(ctx, rep, cfg)
    utc_whole(rep, ctx.prog("Q"))


def one_config(ctx, rep, cfg):
    prog = ctx.prog(cfg)
    A = ctx.auto(cfg)
    sfx = "" if cfg == "Q" else " @" + cfg
    has_alloc = "alloc" in prog.crates["jiff"]["features"]
    K = lambda name: prog.consts.get("jiff::" + REPR + "::" + name, {}).get("v")
    tags = {n: K(n) for n in TAGS}
    bits, align = K("BITS"), K("ALIGN")
    loc = "src/tz/timezone.rs"
    if None in tags.values() or bits is None or align is None:
        rep.anchor_missing("Repr tag constants" + sfx)
        return
    # ---------------- TAG-TABLE
    vals = list(tags.values())
    if len(set(vals)) != len(vals):
        rep.violation("TAG-TABLE", "distinct" + sfx, "tag constants are not pairwise distinct: %s" % tags, loc)
    else:
        rep.ok("TAG-TABLE", "distinct" + sfx, how=str(tags))
    if any(v > bits or v < 0 for v in vals) or (bits & (bits + 1)) != 0:
        rep.violation("TAG-TABLE", "tags<=BITS" + sfx, "a tag exceeds BITS=%s or BITS is not a low-bit mask" % bits, loc)
    else:
        rep.ok("TAG-TABLE", "tags<=BITS" + sfx)
    if bits + 1 > align:
        rep.violation("TAG-TABLE", "BITS<ALIGN" + sfx, "BITS+1=%d exceeds ALIGN=%d" % (bits + 1, align), loc)
    else:
        rep.ok("TAG-TABLE", "BITS<ALIGN" + sfx)

    # ---------------- constructors
    valid_tags = set()
    pointee = {}
    for cname, tname in CTOR_TAG.items():
        f = prog.fns.get("jiff::" + REPR + "::" + cname)
        if f is None:
            if tname.startswith("ARC") and not has_alloc:
                continue
            rep.anchor_missing(REPR + "::" + cname + sfx)
            continue
        valid_tags.add(tags[tname])
        ored = set()
        bodies = [f] + [prog.fns[k] for k in ctx.e1(cfg).cg.closures_of.get(f.key, [])]
        for g in bodies:
            for b in g.blocks:
                for s in b["st"]:
                    if s["s"] == "=" and s["rv"]["k"] == "bin" and s["rv"]["op"] == "BitOr":
                        for o in (s["rv"]["a"], s["rv"]["b"]):
                            if o.get("o") == "c" and "v" in o:
                                ored.add(o["v"])
            for bi, t in mir.iter_calls(g):
                if t.get("path", "").endswith("without_provenance") and t["args"][0].get("o") == "c":
                    ored.add(t["args"][0].get("v"))
                if t.get("path") == "std::sync::Arc::<T>::into_raw":
                    pointee[tname] = t.get("pointee")
        want = {tags[tname]} if tname != "STATIC_TZIF" else set()
        if tname == "STATIC_TZIF" and tags[tname] != 0:
            rep.violation("TAG-TABLE", "ctor " + cname + sfx, "static_tzif is built without or-ing a tag, so STATIC_TZIF must be 0", f.loc())
        elif ored != want:
            rep.violation("TAG-TABLE", "ctor " + cname + sfx,
                          "constructor %s ors %s into the pointer; expected exactly its own tag %s=%s"
                          % (cname, sorted(ored, key=str), tname, tags[tname]), f.loc())
        else:
            rep.ok("TAG-TABLE", "ctor " + cname + sfx, how="ors %s" % (sorted(ored) or "nothing (tag 0)"))
    # shift amount in fixed / get_fixed
    f_fixed = prog.fns.get("jiff::" + REPR + "::fixed")
    f_get = prog.fns.get("jiff::" + REPR + "::get_fixed")
    if f_fixed and f_get:
        k1 = [t["args"][1].get("v") for _, t in mir.iter_calls(f_fixed) if t.get("path", "").endswith("::checked_shl")]
        shl_ty = [t["arg_tys"][0] for _, t in mir.iter_calls(f_fixed) if t.get("path", "").endswith("::checked_shl")]
        k2, signed = [], False
        for b in f_get.blocks:
            for s in b["st"]:
                if s["s"] == "=" and s["rv"]["k"] == "bin" and s["rv"]["op"] in ("Shr", "ShrUnchecked"):
                    k2.append(s["rv"]["b"].get("v"))
                    signed = s["rv"]["ty"] == "i32"
        ok = (len(k1) == 1 and k2 and all(x == k1[0] for x in k2) and k1[0] is not None and (1 << k1[0]) > bits
              and signed and shl_ty == ["i32"] and (93599 << k1[0]) < (1 << 31))
        if ok:
            rep.ok("TAG-TABLE", "fixed shift" + sfx, how="k=%d both ways, signed i32" % k1[0])
        else:
            rep.violation("TAG-TABLE", "fixed shift" + sfx,
                          "fixed() shifts by %s (%s) but get_fixed() shifts back by %s (signed=%s); need equal k, 2^k > BITS, "
                          "arithmetic shift on i32 and 93599<<k < 2^31" % (k1, shl_ty, k2, signed), f_get.loc())
    else:
        rep.anchor_missing("Repr::fixed/get_fixed" + sfx)

    # ---------------- ALIGN
    for adt in ("tz::tzif::Tzif", "tz::posix::PosixTimeZone"):
        a = prog.adts.get("jiff::" + adt)
        if a is None:
            rep.anchor_missing(adt + sfx)
            continue
        ra = a.get("repr_align") or 0
        if ra >= align:
            rep.ok("ALIGN", adt + sfx, how="repr(align(%d)) >= %d" % (ra, align))
        else:
            rep.violation("ALIGN", adt + sfx, "pointee %s has repr(align(%s)) < Repr::ALIGN=%d; low pointer bits are "
                          "not guaranteed zero on every target" % (adt, ra or "none"), "%s:%s" % (a["span"]["file"], a["span"]["line"]))

    # ---------------- PAIRING (Clone / Drop), by specialisation on the tag
    for trait_fn, arc_fn in (("<%s as core::clone::Clone>::clone" % REPR, "increment_strong_count"),
                             ("<%s as core::ops::Drop>::drop" % REPR, "decrement_strong_count")):
        f = prog.fns.get("jiff::" + trait_fn)
        if f is None:
            rep.anchor_missing(trait_fn + sfx)
            continue
        recv = set(receivers(A, f).values())
        if len(recv) != 1 or None in recv:
            rep.violation("PAIRING", trait_fn + sfx, "cannot identify the single receiver of tag() (%s)" % recv, f.loc())
            continue
        r = recv.pop()
        for tval in range(bits + 1):
            an = specialise(A, f, {r: tval})
            tname = [n for n, v in tags.items() if v == tval]
            tname = tname[0] if tname else "invalid%d" % tval
            is_arc = tname.startswith("ARC") and tval in valid_tags
            m_any = lambda b, t: t["t"] == "call" and t.get("path", "").endswith("::" + arc_fn)
            cnt_any = count_on_paths(an, m_any)
            key = "%s tag=%s%s" % (trait_fn.split("::")[-1], tname, sfx)
            if cnt_any is None:
                if tval in valid_tags:
                    rep.violation("PAIRING", key, "no feasible path returns under tag %s" % tname, f.loc())
                else:
                    rep.ok("PAIRING", key, how="no feasible return (unconstructible tag)", nontrivial=False)
                continue
            if is_arc:
                x = pointee.get(tname)
                m_x = lambda b, t: m_any(b, t) and t.get("pointee") == x
                cnt = count_on_paths(an, m_x)
                if cnt == (1, 1) and cnt_any == (1, 1):
                    rep.ok("PAIRING", key, how="%s::<%s> exactly once on every path" % (arc_fn, (x or "")[:40]))
                else:
                    rep.violation("PAIRING", key,
                                  "under tag %s, %s of the constructor's pointee type is called %s times (min,max) over "
                                  "feasible paths, any-pointee %s; must be exactly once" % (tname, arc_fn, cnt, cnt_any), f.loc())
            else:
                if cnt_any == (0, 0):
                    rep.ok("PAIRING", key, how="no %s feasible" % arc_fn)
                elif tval in valid_tags:
                    rep.violation("PAIRING", key, "under non-Arc tag %s a %s call is feasible %s" % (tname, arc_fn, cnt_any), f.loc())
                else:
                    rep.ok("PAIRING", key, how="unconstructible tag", nontrivial=False)
            if trait_fn.endswith("clone") and tval in valid_tags:
                # every feasible return yields Repr { ptr: self.ptr }
                m_agg = [bi for bi in an.pre if any(s["s"] == "=" and s["rv"]["k"] == "agg" and s["rv"].get("adt") == REPR
                                                     for s in f.blocks[bi]["st"])]
                if not m_agg:
                    rep.violation("PAIRING", key + " result", "clone under tag %s builds no Repr" % tname, f.loc())
    # getters
    mask = (1 << 64) - 1 - bits
    for g, tname in GETTER_TAG.items():
        f = prog.fns.get("jiff::" + REPR + "::" + g)
        if f is None:
            if tname.startswith("ARC") and not has_alloc:
                continue
            rep.anchor_missing(REPR + "::" + g + sfx)
            continue
        if tname.startswith("ARC"):
            fr = [t for _, t in mir.iter_calls(f) if t.get("path") == "std::sync::Arc::<T>::from_raw"]
            md = [t for _, t in mir.iter_calls(f) if t.get("path") == "core::mem::ManuallyDrop::<T>::new"]
            drops = [b["term"] for b in f.blocks if b["term"]["t"] == "drop" and not b.get("cleanup")
                     and "std::sync::Arc<" in b["term"].get("place_ty", "") and "ManuallyDrop" not in b["term"].get("place_ty", "")]
            du = mir.DefUse(f)
            flows = False
            if len(fr) == 1 and len(md) == 1 and "dest" in fr[0]:
                src = du.resolve_copy(md[0]["args"][0])
                flows = src.get("l") == fr[0]["dest"]["l"]
            okx = len(fr) == 1 and fr[0].get("pointee") == pointee.get(tname)
            if okx and flows and not drops:
                rep.ok("PAIRING", g + sfx, how="from_raw::<ctor pointee> -> ManuallyDrop::new, no Arc drop")
            else:
                rep.violation("PAIRING", g + sfx,
                              "getter must rebuild Arc::<%s>::from_raw exactly once, move it into ManuallyDrop::new and never "
                              "drop it (from_raw=%d same-pointee=%s into-ManuallyDrop=%s arc-drops=%d)"
                              % ((pointee.get(tname) or "?")[:30], len(fr), okx, flows, len(drops)), f.loc())
        if g != "get_fixed":
            cl = [prog.fns[k] for k in ctx.e1(cfg).cg.closures_of.get(f.key, [])]
            masks = []
            for c in cl:
                nots = {}
                for b in c.blocks:
                    for s in b["st"]:
                        if s["s"] == "=" and s["rv"]["k"] == "un" and s["rv"]["op"] == "Not" and "v" in s["rv"]["a"]:
                            nots[s["lhs"]["l"]] = (1 << 64) - 1 - s["rv"]["a"]["v"]
                        if s["s"] == "=" and s["rv"]["k"] == "bin" and s["rv"]["op"] == "BitAnd":
                            for o in (s["rv"]["a"], s["rv"]["b"]):
                                if o.get("o") == "c":
                                    masks.append(int(o["vu"]) if "vu" in o else o.get("v"))
                                elif o.get("l") in nots and "p" not in o:
                                    masks.append(nots[o["l"]])
            if masks == [mask]:
                rep.ok("PAIRING", g + " mask" + sfx, how="addr & !BITS")
            else:
                rep.violation("PAIRING", g + " mask" + sfx, "getter masks the address with %s, expected !BITS=%d" % (masks, mask), f.loc())

    # clone / drop strip the tag with the same mask as the getters (an over-wide mask moves the pointer off the Arc
    # allocation whenever the allocator returns 8- but not 16-aligned blocks)
    def _masks_of(f):
        out = []
        cl = [prog.fns[k] for k in ctx.e1(cfg).cg.closures_of.get(f.key, [])]
        # the masking may live in a private helper of the module (`self.untagged_ptr()`): follow calls into `repr` one level
        helpers = []
        for _bi, t_ in mir.iter_calls(f):
            g_ = prog.fns.get("jiff::" + t_.get("path", ""))
            if g_ is not None and g_.path.startswith(REPR + "::") and g_.path.split("::")[-1] not in GETTER_TAG and g_ is not f:
                helpers.append(g_)
                helpers += [prog.fns[k] for k in ctx.e1(cfg).cg.closures_of.get(g_.key, [])]
        for c in [f] + cl + helpers:
            nots = {}
            for b in c.blocks:
                for s_ in b["st"]:
                    if s_["s"] == "=" and s_["rv"]["k"] == "un" and s_["rv"]["op"] == "Not" and "v" in s_["rv"]["a"]:
                        nots[s_["lhs"]["l"]] = (1 << 64) - 1 - s_["rv"]["a"]["v"]
                    if s_["s"] == "=" and s_["rv"]["k"] == "bin" and s_["rv"]["op"] == "BitAnd":
                        for o in (s_["rv"]["a"], s_["rv"]["b"]):
                            if o.get("o") == "c":
                                out.append(int(o["vu"]) if "vu" in o else o.get("v"))
                            elif o.get("l") in nots and "p" not in o:
                                out.append(nots[o["l"]])
        return out
    if has_alloc:
        for nm in ("<%s as core::clone::Clone>::clone" % REPR, "<%s as core::ops::Drop>::drop" % REPR):
            f = prog.fns.get("jiff::" + nm)
            if f is None:
                rep.anchor_missing(nm + sfx)
                continue
            ms = [m for m in _masks_of(f) if m != bits]          # `& BITS` is the tag read
            short = nm.split("::")[-1]
            if len(ms) >= 2 and all(m == mask for m in ms):
                rep.ok("PAIRING", short + " mask" + sfx, how="%d pointer maskings, all addr & !BITS" % len(ms))
            else:
                rep.violation("PAIRING", short + " mask" + sfx, "%s strips the tag with mask(s) %s, expected only !BITS=%d (two Arc arms)"
                              % (short, [hex(m) if isinstance(m, int) else m for m in ms], mask), f.loc())

    # ---------------- who may touch the reference count
    # Arc::from_raw materialises an owner (dropping it decrements), increment/decrement_strong_count change the count
    # directly: outside Clone, Drop and the ManuallyDrop getters checked above no function of the crate may do either on
    # the pointees of the tagged pointer (an `eq` that rebuilds an Arc "just to compare" frees the other handle's zone).
    if has_alloc:
        allowed = {"jiff::<%s as core::clone::Clone>::clone" % REPR: "increment_strong_count",
                   "jiff::<%s as core::ops::Drop>::drop" % REPR: "decrement_strong_count"}
        for g_ in GETTER_TAG:
            allowed["jiff::" + REPR + "::" + g_] = "from_raw"
        pts = {p_ for p_ in pointee.values() if p_}
        offenders = []
        n_ops = 0
        for f in prog.fns.values():
            if f.crate != "jiff":
                continue
            for bi, t in mir.iter_calls(f):
                pth = t.get("path", "")
                op = pth.rsplit("::", 1)[-1]
                if not (pth.startswith("std::sync::Arc::<") and op in ("from_raw", "increment_strong_count", "decrement_strong_count")):
                    continue
                if t.get("pointee") not in pts:
                    continue
                n_ops += 1
                owner = f.key
                if f.is_closure:
                    owner = f.key.split("::{closure")[0]
                if allowed.get(owner) != op:
                    offenders.append((f.key, op, t["span"]["line"]))
        if offenders:
            for (k_, op, ln) in offenders:
                rep.violation("PAIRING", "refcount op outside its owner: %s %s%s" % (k_.replace("jiff::", ""), op, sfx),
                              "Arc::%s on a pointee of the tagged pointer is called in %s: only Clone (increment), Drop (decrement) "
                              "and the get_arc_* getters (from_raw, straight into ManuallyDrop) may touch the reference count; an "
                              "Arc rebuilt here is dropped at the end of its scope and releases a reference that a live handle "
                              "still owns (use after free / double free)" % (op, k_.replace("jiff::", "")), "src/tz/timezone.rs:%s" % ln)
        else:
            rep.ok("PAIRING", "refcount ops only in Clone/Drop/getters" + sfx, how="%d Arc::from_raw / *_strong_count calls on the pointees, all in their owners" % n_ops)
        if n_ops < 6:
            rep.violation("PAIRING", "refcount op census" + sfx, "expected at least 6 refcount-affecting Arc operations on the pointees "
                          "(2 increments, 2 decrements, 2 from_raw), found %d: the matcher no longer sees them" % n_ops, "src/tz/timezone.rs")

    # ---------------- DISPATCH
    n_dispatch = 0
    getter_paths = {REPR + "::" + g: tags[t] for g, t in GETTER_TAG.items()}
    for f in prog.fns.values():
        if f.crate != "jiff":
            continue
        gcalls = [(bi, t) for bi, t in mir.iter_calls(f) if t.get("path") in getter_paths]
        if not gcalls:
            continue
        rcv = receivers(A, f)
        rs = sorted(set(v for v in rcv.values()), key=str)
        if None in rs or not (1 <= len(rs) <= 2):
            rep.violation("DISPATCH", f.key + sfx, "cannot attribute tag()/getter calls to at most two receivers: %s" % rs, f.loc())
            continue
        bad = []
        unreach_bad = []
        for combo in itertools.product(range(bits + 1), repeat=len(rs)):
            assign = dict(zip(rs, combo))
            an = specialise(A, f, assign)
            for bi, t in gcalls:
                if bi in an.pre and assign.get(rcv.get(bi)) != getter_paths[t["path"]]:
                    bad.append((t["path"].split("::")[-1], assign.get(rcv.get(bi)), t["span"]["line"]))
            if all(v in valid_tags for v in combo):
                for bi, t in mir.iter_calls(f):
                    if t.get("path") == "core::hint::unreachable_unchecked" and bi in an.pre:
                        unreach_bad.append((combo, t["span"]["line"]))
        n_dispatch += 1
        if bad:
            g, tv, ln = bad[0]
            rep.violation("DISPATCH", f.key + sfx, "%s() at line %d is feasible while its receiver's tag is %s (%d such cases)"
                          % (g, ln, tv, len(bad)), f.loc())
        elif unreach_bad:
            rep.violation("DISPATCH", f.key + sfx, "unreachable_unchecked at line %d is feasible under constructible tags %s"
                          % (unreach_bad[0][1], unreach_bad[0][0]), f.loc())
        else:
            rep.ok("DISPATCH", f.key + sfx, how="%d getter calls x %d tag assignments" % (len(gcalls), (bits + 1) ** len(rs)))
    if cfg == "Q":
        rep.floor("DISPATCH functions", n_dispatch, 13)
    # clone/drop: unreachable_unchecked infeasible under constructible tags is covered by PAIRING's feasible-return check

    # ---------------- CONSTRUCT
    agg_fns = set()
    for f in prog.fns.values():
        if f.crate != "jiff":
            continue
        for b in f.blocks:
            for s in b["st"]:
                if s["s"] == "=" and s["rv"]["k"] == "agg" and s["rv"].get("adt") == REPR:
                    agg_fns.add(f.path)
    extra = agg_fns - ALLOWED_AGG
    if extra:
        rep.violation("CONSTRUCT", "aggregates" + sfx, "Repr{ptr} is assembled outside the enumerated constructors: %s" % sorted(extra), loc)
    else:
        rep.ok("CONSTRUCT", "aggregates" + sfx, how="%d constructor bodies" % len(agg_fns))
    cg = ctx.e1(cfg).cg
    callers_copy = {a for (a, k, bb) in cg.redges.get("jiff::" + REPR + "::copy", [])}
    if callers_copy - {"jiff::tz::timezone::TimeZone::copy"}:
        rep.violation("CONSTRUCT", "Repr::copy callers" + sfx, "Repr::copy (a bitwise duplicate without a refcount increment) is "
                      "called from %s" % sorted(callers_copy), loc)
    else:
        rep.ok("CONSTRUCT", "Repr::copy callers" + sfx, how=str(sorted(callers_copy)))
    callers_tzcopy = {a for (a, k, bb) in cg.redges.get("jiff::tz::timezone::TimeZone::copy", [])}
    tzc = prog.fns.get("jiff::tz::timezone::TimeZone::copy")
    if callers_tzcopy or (tzc is not None and not (tzc.get("unsafe") and tzc.get("doc_hidden"))):
        rep.violation("CONSTRUCT", "TimeZone::copy" + sfx, "TimeZone::copy must stay an unsafe doc(hidden) proc-macro hook "
                      "without callers in the workspace (callers: %s)" % sorted(callers_tzcopy), loc)
    else:
        rep.ok("CONSTRUCT", "TimeZone::copy" + sfx, how="unsafe + doc(hidden), no callers")
    # forget / ManuallyDrop of handles (expected zero) with a positive control
    pat = re.compile(r"(tz::timezone::TimeZone|tz::timezone::repr::Repr|zoned::Zoned)\b")
    hits, control = [], 0
    for f in prog.fns.values():
        if f.crate != "jiff":
            continue
        for bi, t in mir.iter_calls(f):
            p = t.get("path", "")
            if p in ("core::mem::forget", "core::mem::ManuallyDrop::<T>::new", "std::mem::forget"):
                full = t.get("fn", "")
                if "std::sync::Arc<" in full:
                    control += 1
                if pat.search(full.replace("std::sync::Arc<", "Arc<")) and "Arc<" not in full:
                    hits.append("%s (%s)" % (f.path, full[:80]))
    if has_alloc and control < 2:
        rep.violation("CONSTRUCT", "forget-matcher control" + sfx, "positive control failed: expected the matcher to see the two "
                      "ManuallyDrop<Arc<..>> getter sites, saw %d" % control, loc)
    elif hits:
        rep.violation("CONSTRUCT", "forget/ManuallyDrop of handles" + sfx, "a TimeZone/Repr/Zoned is forgotten: %s" % hits, loc)
    else:
        rep.ok("CONSTRUCT", "forget/ManuallyDrop of handles" + sfx, how="0 sites; control saw %d Arc sites" % control)

    # ---------------- SEND-SYNC
    seen = {}
    for f in prog.fns.values():
        if f.crate == "jiff" and "repr" in f.path:
            for bi, t in mir.iter_calls(f):
                if "pointee" in t:
                    seen[t["pointee"]] = (t["pointee_send"], t["pointee_sync"])
    for x, (s1, s2) in sorted(seen.items()):
        if s1 and s2:
            rep.ok("SEND-SYNC", x[:60] + sfx, how="Send + Sync")
        else:
            rep.violation("SEND-SYNC", x[:60] + sfx, "pointee %s is not Send+Sync (send=%s sync=%s) but Repr is declared Send+Sync" % (x, s1, s2), loc)
    if has_alloc:
        rep.floor("SEND-SYNC pointees" + sfx, len(seen), 2)
