"""C11 - span rounding/balancing/totals/compare (narrow): calendar units are refused without a reference on every path (REL-GUARD),
window ends are measured from the reference (WINDOW), Span entry points cannot panic (E1), ranged values stay in range (E2)."""
from ..rules_r5 import span_carry
import os, re
from .. import mir
from ..term import Terms, show, walk, is_call, alts, match, V, C, TRY, ok_payloads
from ..guards import guards, strip_not
from ..rules_e1 import run_e1, by_names
from ..rules_e2 import run_e2
from ..rules_float import run_float, run_floatdiv, run_float_exact, run_total_exact

HELPERS = {"checked_add_invariant": 1, "checked_add_invariant_duration": 1, "total_invariant": None, "round_span_invariant": 1}


def run(ctx, rep):
    prog = ctx.prog("Q")
    span_carry(rep, prog)
    rep.notes.append("Does not decide conservation of r + span, correctness of nudge/bubble, total's floating-point accuracy or compare's order.")
    rel_guard(rep, prog)
    window(rep, prog)
    week_carry(rep, prog)
    rounded_output(rep, prog)
    no_overwrite(rep, prog)
    run_float(ctx, rep)
    run_floatdiv(ctx, rep)
    run_float_exact(ctx, rep)
    run_total_exact(ctx, rep)
    roots = ["span::Span::round", "span::Span::total", "span::Span::compare", "span::Span::checked_add", "span::Span::checked_sub",
             "span::Span::to_duration", "span::Span::checked_mul", "<signed_duration::SignedDuration as core::convert::TryFrom<span::Span>>::try_from"]
    run_e1(ctx, rep, lambda E: by_names(E, roots), min_roots=6, min_sites=400)
    if os.path.exists(os.path.join(os.path.dirname(__file__), "..", "..", "reviewed", "ranged.tsv")):
        run_e2(ctx, rep, select=lambda f: f.file == "src/span.rs", floor=100)


def rel_guard(rep, prog, rule="REL-GUARD"):
    rep.rule(rule, "every call of an invariant (reference-free) span helper is reached only after requires_relative_date_err(u)? succeeded "
                   "for the unit(s) that flow into it, or after SpanRelativeTo::to_relative(u)? returned None (uniform units / "
                   "days-are-24-hours), or - for totals - with a non-variable target unit on an already balanced relative span; "
                   "to_relative rejects Year|Month under the days-are-24-hours marker")
    n = 0
    for f in sorted(prog.fns.values(), key=lambda f: f.key):
        if f.crate != "jiff" or f.file != "src/span.rs":
            continue
        sites = [(bi, t) for bi, t in mir.iter_calls(f) if t.get("path", "").split("::")[-1] in HELPERS and t.get("rkrate") == "jiff"]
        if not sites:
            continue
        T = Terms(f)
        cfg = mir.CFG(f)
        for bi, t in sites:
            n += 1
            name = t["path"].split("::")[-1]
            gs = [strip_not(c, tr) for (c, tr, sb) in guards(f, cfg, T, bi)]
            none_rel = any(c[0] == "disc" and c[1][0] == "try" and is_call(c[1][1], "::to_relative") and tr == ("eq", [0]) for (c, tr) in gs)
            req = []
            for (c, tr) in gs:
                if c[0] == "disc" and tr == ("eq", [0]):
                    for x in walk(c):
                        if is_call(x, "requires_relative_date_err"):
                            req.append(x[2][0])
            balanced = any(is_call(c, "::is_variable") and tr is False for (c, tr) in gs) and \
                any(c[0] == "disc" and any(is_call(x, "::into_relative_span") for x in walk(c)) for (c, tr) in gs)
            key = "%s -> %s#%d" % (f.path.split("::")[-1], name, n)
            loc = "%s:%s" % (t["span"]["file"], t["span"]["line"])
            if none_rel or balanced:
                rep.ok(rule, key, how="to_relative(..)? == None" if none_rel else "non-variable unit on a balanced relative span")
                continue
            need = []
            if HELPERS[name] is not None:
                need.append(T.at_call(bi, t, HELPERS[name]))
            ok = bool(req)
            for u in need:
                if u not in req:
                    ok = False
            if name in ("total_invariant", "round_span_invariant"):
                # the span's own largest unit must have been checked as well
                if not any(any(is_call(x, "::largest_unit") for x in walk(r)) for r in req):
                    ok = False
            if ok:
                rep.ok(rule, key, how="requires_relative_date_err ok for %s" % [show(r, maxd=2) for r in req])
            else:
                rep.violation(rule, key, "the invariant helper is reachable without a reference and without refusing calendar units: "
                              "checked units %s, needed %s" % ([show(r, maxd=3) for r in req], [show(u, maxd=3) for u in need]), loc)
    rep.floor(rule + " helper call sites", n, 9)
    f = prog.fns.get("jiff::span::SpanRelativeTo::<'a>::to_relative")
    if f is None:
        rep.anchor_missing("SpanRelativeTo::to_relative")
        return
    T = Terms(f)
    cfg = mir.CFG(f)
    # under kind == DaysAre24Hours the Ok(None) return must be guarded by NOT matches!(unit, Year|Month)
    adt = prog.adts.get("jiff::span::Unit")
    disc = {v["name"]: int(v["discr"]) for v in adt["variants"]}
    ok = False
    for bi, b in enumerate(f.blocks):
        t = b["term"]
        if t["t"] == "switch":
            c = T.operand(t["op"], 0, (bi, "term"))
            if c[0] == "disc" and c[1][0] == "param" and c[1][1] == 2:
                errs = {v for v, tg in zip(t["vals"], t["targets"])
                        if any(s["s"] == "=" and s["rv"]["k"] == "agg" and s["rv"].get("variant") == "Err" for x in cfg.reachable_from(tg) for s in f.blocks[x]["st"])}
                if {disc["Year"], disc["Month"]} <= set(t["vals"]):
                    ok = True
    if ok:
        rep.ok(rule, "to_relative days-are-24-hours", how="Year|Month rejected")
    else:
        rep.violation(rule, "to_relative days-are-24-hours", "no branch on the unit rejecting Year|Month was found", f.loc())


def window(rep, prog, rule="WINDOW"):
    rep.rule(rule, "clamp_relative_span returns (reference + span, reference + span-with-the-unit-bumped): both window ends are one "
                   "calendar addition from the reference itself (calendar addition is not associative under end-of-month clamping, so "
                   "chaining additions measures the wrong window)")
    f = prog.fns.get("jiff::span::clamp_relative_span")
    if f is None:
        rep.anchor_missing("span::clamp_relative_span")
        return
    r = Terms(f).returns()
    REL, SPAN, UNIT, AMT = ("param", 1, "relative"), ("param", 2, "span"), ("param", 3, "unit"), ("param", 4, "amount")
    bumped = TRY(C("::try_units_ranged", SPAN, UNIT, TRY(C("::try_checked_add", C("::get_units_ranged", SPAN, UNIT), V("what"), AMT))))
    want0 = C("::to_nanosecond", TRY(C("::checked_add", REL, SPAN)))
    want1 = C("::to_nanosecond", TRY(C("::checked_add", REL, bumped)))
    oks = ok_payloads(r)
    good = False
    if len(oks) == 1 and oks[0][0] == "agg" and oks[0][1] == "tuple":
        d = dict(oks[0][3])
        good = match(d.get("0"), want0) is not None and match(d.get("1"), want1) is not None
    if good:
        rep.ok(rule, "clamp_relative_span", how="(rel + span, rel + span{unit += amount})")
    else:
        rep.violation(rule, "clamp_relative_span", "window ends are %s" % (show(oks[0], maxd=7)[:400] if oks else show(r, maxd=4)[:300]), f.loc())


def week_carry(rep, prog, rule="WEEK-CARRY"):
    """whole weeks that the balanced difference carries in its days"""
    rep.rule(rule, "Nudge::relative_calendar positions the rounding window at reference + (balanced span truncated to the smallest "
                   "unit). `balanced` is the difference reference..end balanced up to `largest`; when largest is above Week that "
                   "difference has no weeks - its whole weeks are in the days (the until() routines produce weeks only for "
                   "largest == Week). For smallest == Week the unit count that positions the window therefore includes the days: "
                   "the span handed to clamp_relative_span is built from a count whose term reads balanced's days (divided by 7) "
                   "under the guard smallest == Week. Without it the window is always the first `increment` weeks after the "
                   "months, the quotient is extrapolated from that week's length, and a DST shift inside the span pushes exact "
                   "multiples (3 weeks = 505 h against a 168 h week) to the wrong neighbour")
    f = prog.fns.get("jiff::span::Nudge::relative_calendar")
    if f is None:
        rep.anchor_missing("span::Nudge::relative_calendar")
        return
    T = Terms(f)
    calls = [(bi, t) for bi, t in mir.iter_calls(f) if t.get("path", "").endswith("span::clamp_relative_span")]
    if not calls:
        rep.violation(rule, "relative_calendar", "anchor missing: no call of clamp_relative_span", f.loc())
        return
    for bi, t in calls:
        a = T.at_call(bi, t, 1)
        loc = "%s:%s" % (t["span"]["file"], t["span"]["line"])
        reads_days = False
        for x in walk(a):
            if is_call(x, "Span::get_days_ranged") or is_call(x, "Span::get_days"):
                reads_days = True
            if is_call(x, "Span::get_units_ranged") and len(x[2]) == 2 and x[2][1][0] == "agg" and x[2][1][2] == "Day":
                reads_days = True
            if isinstance(x, tuple) and x and x[0] == "field" and x[2] == "days":
                reads_days = True
        has7 = any(isinstance(x, tuple) and x and x[0] == "const" and x[1] == 7 for x in walk(a))
        # the day count carries the span's sign, so days / 7 must be sign-symmetric: rangeint's `/` is EUCLIDEAN (-17 / 7 == -3), its
        # truncating division is `div_ceil` (wrapping_div); a plain `/` puts negative spans one week too far from the reference
        by7 = [x for x in walk(a) if isinstance(x, tuple) and x and x[0] == "call" and len(x[2]) == 2
               and any(isinstance(y, tuple) and y and y[0] == "const" and y[1] == 7 for y in walk(x[2][1]))
               and re.search(r"ops::Div<.*>>::div$|::div_ceil$|::div_floor$|::div_euclid$", x[1])]
        euclid = [x for x in by7 if not x[1].endswith("::div_ceil") and not any(is_call(y, "::abs") for y in walk(x[2][0]))]
        if reads_days and has7 and by7 and euclid:
            rep.violation(rule, "relative_calendar", "the whole weeks carried in the days are computed with %s, which floors: for a negative span "
                          "(-17 days) it yields -3 weeks, the rounding window lies one week too far from the reference and the quotient is "
                          "extrapolated from a neighbouring week (wrong neighbour in half modes when that week has a DST change: -(17d 12h 20m) "
                          "from 2024-04-01 in America/New_York gives 2w ago instead of 3w ago)" % euclid[0][1].rsplit("::", 2)[-2:], loc)
        elif reads_days and has7:
            rep.ok(rule, "relative_calendar", how="the unit count of the window start reads balanced's days / 7 (truncating)", loc=loc)
        else:
            rep.violation(rule, "relative_calendar", "the span that positions the rounding window takes its count of `smallest` units from "
                          "that unit's own field only (%s): for smallest == Week and largest above Week the whole weeks carried in "
                          "balanced's days are dropped" % show(a, maxd=6)[:200], loc)


def rounded_output(rep, prog, rule="ROUNDED-OUTPUT"):
    """the sub-day content of a nudged span is a multiple of the increment only if it is itself a rounding result"""
    rep.rule(rule, "in every Nudge constructor (span.rs) the nanosecond count handed to Span::from_invariant_nanoseconds - the part of "
                   "the rounded span at and below the smallest unit - is, on every path, directly the result of "
                   "RoundMode::round_by_unit_in_nanoseconds(_, smallest, increment) with the function's own smallest and increment: "
                   "a difference or sum of rounded values (e.g. rounded time minus the length of a 23h/25h day) is in general not a "
                   "multiple of the increment")
    n = 0
    for f in sorted(prog.fns.values(), key=lambda f: f.key):
        if f.crate != "jiff" or f.is_closure or not f.path.startswith("span::Nudge::"):
            continue
        T = None
        for bi, t in mir.iter_calls(f):
            if not t.get("path", "").endswith("Span::from_invariant_nanoseconds"):
                continue
            T = T or Terms(f)
            n += 1
            key = "%s from_invariant_nanoseconds#%d" % (f.path.split("::")[-1], n)
            loc = "%s:%s" % (t["span"]["file"], t["span"]["line"])
            bad = []
            for a in alts(T.at_call(bi, t, 1)):
                ok = is_call(a, "::round_by_unit_in_nanoseconds") and len(a[2]) == 4 and a[2][2][0] == "param" and a[2][2][2] == "smallest" \
                    and a[2][3][0] == "param" and a[2][3][2] == "increment"
                if not ok:
                    bad.append(show(a, maxd=4)[:160])
            if bad:
                rep.violation(rule, key, "the nanoseconds of the rounded span can be %s, which is not a rounding result" % bad[0], loc)
            else:
                rep.ok(rule, key, how="every reaching value is round_by_unit_in_nanoseconds(_, smallest, increment)", loc=loc)
    rep.floor(rule + " sites", n, 2)


UNIT_ORDER = ["Nanosecond", "Microsecond", "Millisecond", "Second", "Minute", "Hour", "Day", "Week", "Month", "Year"]
SETTER_UNIT = {"years_ranged": "Year", "months_ranged": "Month", "weeks_ranged": "Week", "days_ranged": "Day",
               "hours_ranged": "Hour", "minutes_ranged": "Minute", "seconds_ranged": "Second"}


def no_overwrite(rep, prog, rule="NO-OVERWRITE"):
    """Span::from_invariant_nanoseconds(L, n) distributes n over the units up to L (weeks only when L is Week); a unit
    setter applied to its result afterwards must not replace a unit that the conversion just computed"""
    rep.rule(rule, "in span.rs, a `<unit>_ranged` setter applied to the result of Span::from_invariant_nanoseconds(L, n) sets a unit that "
                   "the conversion does not produce: above L when L is a constant; and when L is a parameter, the Week setter (weeks "
                   "are produced exactly when L == Week, with the carry of the rounding in them) is applied only on a path that "
                   "excludes L == Week - otherwise the rounded week count is replaced by the stale one")
    n = 0
    for f in sorted(prog.fns.values(), key=lambda f: f.key):
        if f.crate != "jiff" or f.file != "src/span.rs":
            continue
        T = None
        cfg = None
        for bi, t in mir.iter_calls(f):
            name = t.get("path", "").rsplit("::", 1)[-1]
            if name not in SETTER_UNIT or not t.get("path", "").startswith("span::Span::"):
                continue
            T = T or Terms(f)
            recv = T.at_call(bi, t, 0)
            conv = [x for a in alts(recv) for x in walk(a) if is_call(x, "Span::from_invariant_nanoseconds")]
            if not conv:
                continue
            cfg = cfg or mir.CFG(f)
            n += 1
            u = SETTER_UNIT[name]
            key = "%s %s#%d" % (f.path.split("::")[-1], name, n)
            loc = "%s:%s" % (t["span"]["file"], t["span"]["line"])
            L = conv[0][2][0]
            if L[0] == "agg" and L[1].endswith("Unit"):
                lname = L[2]
                if UNIT_ORDER.index(u) > UNIT_ORDER.index(lname) and not (u == "Week" and lname == "Week"):
                    rep.ok(rule, key, how="%s is above the conversion's largest unit %s" % (u, lname), loc=loc)
                else:
                    rep.violation(rule, key, "the %s setter replaces a unit that from_invariant_nanoseconds(Unit::%s, ..) computed" % (u, lname), loc)
                continue
            if u in ("Year", "Month"):
                rep.ok(rule, key, how="years and months are never produced by the conversion", loc=loc)
                continue
            if u == "Week":
                gs = guards(f, cfg, T, bi)
                excl = False
                for (c, truth, _sb) in gs:
                    c2, tr2 = strip_not(c, truth)
                    mentions_week = any(isinstance(x, tuple) and x and x[0] == "agg" and x[1].endswith("Unit") and x[2] == "Week" for x in walk(c2))
                    mentions_L = any(x == L for x in walk(c2))
                    if mentions_week and mentions_L and c2[0] == "call" and c2[1].rsplit("::", 1)[-1] in ("eq", "ne"):
                        is_eq = c2[1].rsplit("::", 1)[-1] == "eq"
                        if (is_eq and tr2 is False) or (not is_eq and tr2 is True):
                            excl = True
                    if c2[0] == "disc" and c2[1] == L and isinstance(truth, tuple):
                        wk = 7  # discriminant of Unit::Week
                        if (truth[0] == "ne" and wk in truth[1]) or (truth[0] == "eq" and wk not in truth[1]):
                            excl = True
                if excl:
                    rep.ok(rule, key, how="applied only where the largest unit is not Week", loc=loc)
                else:
                    rep.violation(rule, key, "weeks_ranged(..) replaces the week count that from_invariant_nanoseconds(largest, ..) computes when "
                                  "largest == Week: a rounding that carries into a new week loses it", loc)
                continue
            rep.violation(rule, key, "the %s setter replaces a unit computed by from_invariant_nanoseconds" % u, loc)
    rep.floor(rule + " sites", n, 5)
