"""C15 - duration formats: every printed designator parses back to its unit (LABEL-TABLE) + parser panic-freedom."""
import re, ast
from ..e1 import src_line
from ..facts import REPO
from ..rules_e1 import run_e1
import os
from .. import mir
from ..term import Terms, show
from ..rules_dep import run_dep
from ..rules_signpair import run_loneabs

ARRAYS = ["VERBOSE_SINGULAR", "VERBOSE_PLURAL", "SHORT_SINGULAR", "SHORT_PLURAL", "COMPACT", "HUMAN_TIME_SINGULAR", "HUMAN_TIME_PLURAL"]


def const_strs(prog, path):
    c = prog.consts.get("jiff::" + path)
    if c is None:
        return None, None
    f, ln = c["span"]["file"], c["span"]["line"]
    text = ""
    for i in range(0, 16):
        text += "\n" + src_line(f, ln + i)
        if "];" in text:
            break
    m = re.search(r"=\s*&\[(.*?)\];", text, re.S)
    if not m:
        return None, "%s:%s" % (f, ln)
    return [ast.literal_eval(x) for x in re.findall(r'"(?:[^"\\]|\\.)*"', m.group(1))], "%s:%s" % (f, ln)


def find_arms():
    """the ordered arm table of fmt::friendly::parser_label::find"""
    src = open(os.path.join(REPO, "src/fmt/friendly/parser_label.rs"), encoding="utf-8").read()
    arms = []
    for m in re.finditer(r"&\[((?:\s*b'(?:\\x[0-9a-fA-F]{2}|\\.|[^'\\])'\s*,)+)\s*\.\.\s*\]\s*=>\s*\{?\s*Some\(\(Unit::(\w+),\s*(\d+)\)\)", src):
        bs = bytes(ast.literal_eval("b" + x[1:])[0] for x in re.findall(r"b'(?:\\x[0-9a-fA-F]{2}|\\.|[^'\\])'", m.group(1)))
        arms.append((bs, m.group(2), int(m.group(3))))
    return arms


def run(ctx, rep):
    run_dep(ctx, rep, "C15")
    run_loneabs(ctx, rep)
    whole_sign(rep, ctx.prog("Q"))
    prog = ctx.prog("Q")
    rep.notes.append("Does not decide numeric round trips, fraction carry or option interactions.")
    rep.rule("LABEL-TABLE", "for each of the 7 designator arrays D of the friendly printer and each unit index i, first-match evaluation of "
                            "the arm table of parser_label::find on the bytes of D[i] yields (Unit(i), len(D[i])): every label the printer "
                            "can emit is recognised by the parser as the same unit and consumed completely")
    u = prog.adts.get("jiff::span::Unit")
    units = [v["name"] for v in sorted(u["variants"], key=lambda v: int(v["discr"]))] if u else []
    arms = find_arms()
    rep.floor("parser_label arms", len(arms), 56)
    for a in arms:
        if a[2] != len(a[0]):
            rep.violation("LABEL-TABLE", "arm " + a[0].decode("utf-8", "replace"), "arm consumes %d bytes but its pattern has %d" % (a[2], len(a[0])),
                          "src/fmt/friendly/parser_label.rs")
    n = 0
    for arr in ARRAYS:
        labels, loc = const_strs(prog, "fmt::friendly::printer::Designators::" + arr)
        if labels is None:
            rep.anchor_missing("Designators::" + arr)
            continue
        if len(labels) != len(units) or len(units) != 10:
            rep.violation("LABEL-TABLE", arr, "array has %d labels for %d units" % (len(labels), len(units)), loc)
            continue
        for i, lab in enumerate(labels):
            n += 1
            hay = lab.encode("utf-8")
            hit = None
            for (bs, unit, ln) in arms:
                if hay[:len(bs)] == bs:
                    hit = (unit, ln)
                    break
            key = "%s[%s]" % (arr, units[i])
            if hit == (units[i], len(hay)):
                rep.ok("LABEL-TABLE", key, how="%r -> %s" % (lab, hit,))
            else:
                rep.violation("LABEL-TABLE", key, "the printer's label %r for %s is parsed as %s (expected (%s, %d))"
                              % (lab, units[i], hit, units[i], len(hay)), loc)
    rep.floor("LABEL-TABLE labels", n, 70)

    no_drop(rep, prog)

    def roots(E):
        out = []
        for k in E.public_result_roots():
            f = E.prog.fns[k]
            if f.file.startswith("src/fmt/friendly/") or (f.file.startswith("src/fmt/temporal/") and ("span" in f.path.lower() or "duration" in f.path.lower())):
                out.append(k)
        for k, f in E.prog.fns.items():
            if f.crate == "jiff" and not f.is_closure and f.path.endswith("::from_str") and ("span::Span" in f.path or "SignedDuration" in f.path):
                out.append(k)
        return sorted(set(out))
    run_e1(ctx, rep, roots, min_roots=8, min_sites=200)


def no_drop(rep, prog, rule="NO-DROP"):
    """every arm of FractionalPrinter::from_duration uses both the whole-seconds and the sub-second part of the duration"""
    from .. import mir
    from ..term import Terms, walk, is_call
    rep.rule(rule, "each FractionalPrinter built by FractionalPrinter::from_duration depends on the duration's whole seconds (as_secs/"
                   "as_millis/as_micros/as_nanos) and on its sub-second part: a printer that reads only one of the two fields drops "
                   "information and cannot be lossless (rule added after seeded change C15-a)")
    f = prog.fns.get("jiff::fmt::friendly::printer::FractionalPrinter::from_duration")
    if f is None:
        rep.anchor_missing("FractionalPrinter::from_duration")
        return
    T = Terms(f)
    SECS = ("as_secs", "as_millis", "as_micros", "as_nanos", "as_hours", "as_mins")
    SUB = ("subsec_nanos", "subsec_millis", "subsec_micros", "as_millis", "as_micros", "as_nanos")
    n = 0
    for bi, b in enumerate(f.blocks):
        for si, s in enumerate(b["st"]):
            if s["s"] == "=" and s["rv"]["k"] == "agg" and s["rv"].get("adt", "").endswith("FractionalPrinter"):
                n += 1
                tt = T.rvalue(s["rv"], 0, (bi, si))
                calls = {x[1].split("::")[-1] for x in walk(tt) if isinstance(x, tuple) and x and x[0] == "call" and "SignedDuration" in x[1]}
                ok = bool(calls & set(SECS)) and bool(calls & set(SUB))
                key = "arm#%d" % n
                if ok:
                    rep.ok(rule, key, how=str(sorted(calls)))
                else:
                    rep.violation(rule, key, "this FractionalPrinter is built from %s only: the %s of the duration never reaches the output"
                                  % (sorted(calls), "whole seconds" if not (calls & set(SECS)) else "sub-second part"), "%s:%s" % (f.file, s.get("ln")))
    rep.floor(rule + " arms", n, 5)


def whole_sign(rep, prog, rule="WHOLE-SIGN"):
    """the one sign the friendly printer writes (prefix `-` or suffix `ago`) is the sign of the whole value"""
    rep.rule(rule, "every DesignatorWriter the friendly printer creates receives signum() of the span / duration that the printing "
                   "function was given, not of a part of it (Span::only_time()/only_calendar() reset the sign to 0 when their side "
                   "is empty, so the sign of -1 day would be lost in HH:MM:SS mode); print_duration_hms, which has no writer, reads "
                   "is_negative() of its own argument")
    n = 0
    for f in sorted(prog.fns.values(), key=lambda f: f.key):
        if f.crate != "jiff" or f.is_closure or "fmt::friendly::printer::SpanPrinter::" not in f.path:
            continue
        T = None
        for bi, t in mir.iter_calls(f):
            p = t.get("path", "")
            if "DesignatorWriter" in p and p.endswith("::new") and len(t.get("args", [])) == 4:
                T = T or Terms(f)
                n += 1
                sg = T.at_call(bi, t, 3)
                key = "%s DesignatorWriter::new" % f.path.split("::")[-1]
                loc = "%s:%s" % (t["span"]["file"], t["span"]["line"])
                ok = sg[0] == "call" and sg[1].rsplit("::", 1)[-1] == "signum" and len(sg[2]) == 1 and sg[2][0][0] == "param" \
                    and sg[2][0][2] in ("span", "dur", "duration")
                if ok:
                    rep.ok(rule, key, how="signum(%s)" % sg[2][0][2], loc=loc)
                else:
                    rep.violation(rule, key, "the sign handed to the writer is %s, not signum() of the function's own span/duration"
                                  % show(sg, maxd=4)[:120], loc)
    rep.floor(rule + " writers", n, 3)
