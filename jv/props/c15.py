"""C15 - duration formats: every printed designator parses back to its unit (LABEL-TABLE) + parser panic-freedom."""
import re, ast
from ..e1 import src_line
from ..facts import REPO
from ..rules_e1 import run_e1
import os
from .. import mir
from ..term import Terms, show
from ..rules_dep import run_dep
from ..rules_signpair import run_loneabs

ARRAYS = ["VERBOSE_SINGULAR", "VERBOSE_PLURAL", "SHORT_SINGULAR", "SHORT_PLURAL", "COMPACT", "HUMAN_TIME_SINGULAR", "HUMAN_TIME_PLURAL"]


def const_strs(prog, path):
    c = prog.consts.get("jiff::" + path)
    if c is None:
        return None, None
    f, ln = c["span"]["file"], c["span"]["line"]
    text = ""
    for i in range(0, 16):
        text += "\n" + src_line(f, ln + i)
        if "];" in text:
            break
    m = re.search(r"=\s*&\[(.*?)\];", text, re.S)
    if not m:
        return None, "%s:%s" % (f, ln)
    return [ast.literal_eval(x) for x in re.findall(r'"(?:[^"\\]|\\.)*"', m.group(1))], "%s:%s" % (f, ln)


def find_arms():
    """the ordered arm table of fmt::friendly::parser_label::find"""
    src = open(os.path.join(REPO, "src/fmt/friendly/parser_label.rs"), encoding="utf-8").read()
    arms = []
    for m in re.finditer(r"&\[((?:\s*b'(?:\\x[0-9a-fA-F]{2}|\\.|[^'\\])'\s*,)+)\s*\.\.\s*\]\s*=>\s*\{?\s*Some\(\(Unit::(\w+),\s*(\d+)\)\)", src):
        bs = bytes(ast.literal_eval("b" + x[1:])[0] for x in re.findall(r"b'(?:\\x[0-9a-fA-F]{2}|\\.|[^'\\])'", m.group(1)))
        arms.append((bs, m.group(2), int(m.group(3))))
    return arms


def run(ctx, rep):
    from ..rules_contract import run_contracts
    # the fraction handed to Fractional::new (0..=999_999_999, asserted there) is an obligation of every caller
    run_contracts(ctx, rep, select=lambda f: f.file.startswith("src/fmt/"), floor=10)
    run_dep(ctx, rep, "C15")
    from ..rules_parse import accumulate
    accumulate(rep, ctx.prog("Q"))
    run_loneabs(ctx, rep)
    whole_sign(rep, ctx.prog("Q"))
    zero_unit(rep, ctx.prog("Q"))
    comma_ws(rep, ctx.prog("Q"))
    prog = ctx.prog("Q")
    rep.notes.append("Does not decide numeric round trips, fraction carry or option interactions.")
    rep.rule("LABEL-TABLE", "for each of the 7 designator arrays D of the friendly printer and each unit index i, first-match evaluation of "
                            "the arm table of parser_label::find on the bytes of D[i] yields (Unit(i), len(D[i])): every label the printer "
                            "can emit is recognised by the parser as the same unit and consumed completely")
    u = prog.adts.get("jiff::span::Unit")
    units = [v["name"] for v in sorted(u["variants"], key=lambda v: int(v["discr"]))] if u else []
    arms = find_arms()
    rep.floor("parser_label arms", len(arms), 56)
    for a in arms:
        if a[2] != len(a[0]):
            rep.violation("LABEL-TABLE", "arm " + a[0].decode("utf-8", "replace"), "arm consumes %d bytes but its pattern has %d" % (a[2], len(a[0])),
                          "src/fmt/friendly/parser_label.rs")
    n = 0
    for arr in ARRAYS:
        labels, loc = const_strs(prog, "fmt::friendly::printer::Designators::" + arr)
        if labels is None:
            rep.anchor_missing("Designators::" + arr)
            continue
        if len(labels) != len(units) or len(units) != 10:
            rep.violation("LABEL-TABLE", arr, "array has %d labels for %d units" % (len(labels), len(units)), loc)
            continue
        for i, lab in enumerate(labels):
            n += 1
            hay = lab.encode("utf-8")
            hit = None
            for (bs, unit, ln) in arms:
                if hay[:len(bs)] == bs:
                    hit = (unit, ln)
                    break
            key = "%s[%s]" % (arr, units[i])
            if hit == (units[i], len(hay)):
                rep.ok("LABEL-TABLE", key, how="%r -> %s" % (lab, hit,))
            else:
                rep.violation("LABEL-TABLE", key, "the printer's label %r for %s is parsed as %s (expected (%s, %d))"
                              % (lab, units[i], hit, units[i], len(hay)), loc)
    rep.floor("LABEL-TABLE labels", n, 70)

    no_drop(rep, prog)

    def roots(E):
        out = []
        for k in E.public_result_roots():
            f = E.prog.fns[k]
            if f.file.startswith("src/fmt/friendly/") or (f.file.startswith("src/fmt/temporal/") and ("span" in f.path.lower() or "duration" in f.path.lower())):
                out.append(k)
        for k, f in E.prog.fns.items():
            if f.crate == "jiff" and not f.is_closure and f.path.endswith("::from_str") and ("span::Span" in f.path or "SignedDuration" in f.path):
                out.append(k)
        return sorted(set(out))
    run_e1(ctx, rep, roots, min_roots=8, min_sites=200)


def no_drop(rep, prog, rule="NO-DROP"):
    """every arm of FractionalPrinter::from_duration uses both the whole-seconds and the sub-second part of the duration"""
    from .. import mir
    from ..term import Terms, walk, is_call
    rep.rule(rule, "each FractionalPrinter built by FractionalPrinter::from_duration depends on the duration's whole seconds (as_secs/"
                   "as_millis/as_micros/as_nanos) and on its sub-second part: a printer that reads only one of the two fields drops "
                   "information and cannot be lossless (rule added after seeded change C15-a)")
    f = prog.fns.get("jiff::fmt::friendly::printer::FractionalPrinter::from_duration")
    if f is None:
        rep.anchor_missing("FractionalPrinter::from_duration")
        return
    T = Terms(f)
    SECS = ("as_secs", "as_millis", "as_micros", "as_nanos", "as_hours", "as_mins")
    SUB = ("subsec_nanos", "subsec_millis", "subsec_micros", "as_millis", "as_micros", "as_nanos")
    n = 0
    for bi, b in enumerate(f.blocks):
        for si, s in enumerate(b["st"]):
            if s["s"] == "=" and s["rv"]["k"] == "agg" and s["rv"].get("adt", "").endswith("FractionalPrinter"):
                n += 1
                tt = T.rvalue(s["rv"], 0, (bi, si))
                calls = {x[1].split("::")[-1] for x in walk(tt) if isinstance(x, tuple) and x and x[0] == "call" and "SignedDuration" in x[1]}
                ok = bool(calls & set(SECS)) and bool(calls & set(SUB))
                key = "arm#%d" % n
                if ok:
                    rep.ok(rule, key, how=str(sorted(calls)))
                else:
                    rep.violation(rule, key, "this FractionalPrinter is built from %s only: the %s of the duration never reaches the output"
                                  % (sorted(calls), "whole seconds" if not (calls & set(SECS)) else "sub-second part"), "%s:%s" % (f.file, s.get("ln")))
    rep.floor(rule + " arms", n, 5)


def whole_sign(rep, prog, rule="WHOLE-SIGN"):
    """the one sign the friendly printer writes (prefix `-` or suffix `ago`) is the sign of the whole value"""
    rep.rule(rule, "every DesignatorWriter the friendly printer creates receives signum() of the span / duration that the printing "
                   "function was given, not of a part of it (Span::only_time()/only_calendar() reset the sign to 0 when their side "
                   "is empty, so the sign of -1 day would be lost in HH:MM:SS mode); print_duration_hms, which has no writer, reads "
                   "is_negative() of its own argument")
    n = 0
    for f in sorted(prog.fns.values(), key=lambda f: f.key):
        if f.crate != "jiff" or f.is_closure or "fmt::friendly::printer::SpanPrinter::" not in f.path:
            continue
        T = None
        for bi, t in mir.iter_calls(f):
            p = t.get("path", "")
            if "DesignatorWriter" in p and p.endswith("::new") and len(t.get("args", [])) == 4:
                T = T or Terms(f)
                n += 1
                sg = T.at_call(bi, t, 3)
                key = "%s DesignatorWriter::new" % f.path.split("::")[-1]
                loc = "%s:%s" % (t["span"]["file"], t["span"]["line"])
                ok = sg[0] == "call" and sg[1].rsplit("::", 1)[-1] == "signum" and len(sg[2]) == 1 and sg[2][0][0] == "param" \
                    and sg[2][0][2] in ("span", "dur", "duration")
                if ok:
                    rep.ok(rule, key, how="signum(%s)" % sg[2][0][2], loc=loc)
                else:
                    rep.violation(rule, key, "the sign handed to the writer is %s, not signum() of the function's own span/duration"
                                  % show(sg, maxd=4)[:120], loc)
    rep.floor(rule + " writers", n, 3)


def zero_unit(rep, prog, rule="ZERO-UNIT"):
    """the unit a zero SignedDuration is printed with is one the duration parser accepts"""
    from ..term import walk
    rep.rule(rule, "every DesignatorWriter that a `print_duration*` function of the friendly printer creates gets a printer whose "
                   "`zero_unit` is bounded by hours (min(.., Unit::Hour), or a constant unit of hours or smaller): the duration "
                   "parser refuses days and bigger units even when their value is zero, so `0d` - what zero_unit(Unit::Day) "
                   "printed for SignedDuration::ZERO - is text the parser rejects")
    small = ("Hour", "Minute", "Second", "Millisecond", "Microsecond", "Nanosecond")
    n = 0
    for f in sorted(prog.fns.values(), key=lambda f: f.key):
        if f.crate != "jiff" or f.is_closure or "fmt::friendly::printer::SpanPrinter::print_duration" not in f.path:
            continue
        T = None
        for bi, t in mir.iter_calls(f):
            p_ = t.get("path", "")
            if "DesignatorWriter" in p_ and p_.endswith("::new") and len(t.get("args", [])) == 4:
                T = T or Terms(f)
                n += 1
                pr = T.at_call(bi, t, 0)
                key = "%s DesignatorWriter::new" % f.path.split("::")[-1]
                loc = "%s:%s" % (t["span"]["file"], t["span"]["line"])
                zs = []
                for y in walk(pr):
                    if isinstance(y, tuple) and y and y[0] == "agg" and y[1].endswith("SpanPrinter"):
                        zs += [v for (nm, v) in y[3] if nm == "zero_unit"]
                def bounded(z):
                    if isinstance(z, tuple) and z and z[0] == "call" and z[1].rsplit("::", 1)[-1] == "min" and len(z[2]) == 2:
                        return any(isinstance(a, tuple) and a and a[0] == "agg" and a[2] in small and not a[3] for a in z[2]) or \
                            any(isinstance(a, tuple) and a and a[0] == "const" and str(a[1]).rsplit("::", 1)[-1] in small for a in z[2])
                    if isinstance(z, tuple) and z and z[0] == "agg" and z[2] in small and not z[3]:
                        return True
                    return isinstance(z, tuple) and z and z[0] == "const" and str(z[1]).rsplit("::", 1)[-1] in small
                if zs and all(bounded(z) for z in zs):
                    rep.ok(rule, key, how="zero_unit = %s" % show(zs[0], maxd=3)[:60], loc=loc)
                else:
                    rep.violation(rule, key, "the writer's printer is %s: its zero_unit is whatever was configured, so a zero duration is "
                                  "printed as `0d`/`0w`/`0mo`/`0y`, which parse_duration rejects" % show(pr, maxd=2)[:60], loc)
    rep.floor(rule + " writers", n, 1)


def comma_ws(rep, prog, rule="COMMA-WS"):
    """the friendly grammar is `comma = "," whitespace`; the printer must never put a non-blank right after a comma"""
    from ..guards import guards, strip_not
    from ..term import alts, is_call
    rep.rule(rule, "in the friendly printer, whatever is written next after a `,` starts with ASCII whitespace on every path and for "
                   "every spacing setting (the strings returned by Spacing::between_units are resolved to their constants; a branch "
                   "on is_empty() of the string excludes the empty alternative): the parser requires whitespace after a comma, so "
                   "`1y,2mo` is printed text the parser rejects")
    n = 0
    for f in sorted(prog.fns.values(), key=lambda f: f.key):
        if f.crate != "jiff" or "fmt::friendly::printer" not in f.path:
            continue
        writes = [(bi, t) for bi, t in mir.iter_calls(f) if t.get("path", "").endswith("Write::write_str") or t.get("path", "").endswith("::write_str")]
        if not writes:
            continue
        T = Terms(f)
        cfg = mir.CFG(f)
        wblocks = {bi for bi, _ in writes}
        for (bc, tc) in writes:
            if T.at_call(bc, tc, 1) != ("const", ","):
                continue
            n += 1
            key = "%s comma#%d" % (f.path.split("::")[-1], n)
            loc = "%s:%s" % (tc["span"]["file"], tc["span"]["line"])
            # next writes reachable without passing another write, with the branch conditions taken on the way
            nxt, seen = [], set()
            stack = [(s_, ()) for s_ in cfg.succ[bc]]
            while stack:
                b, conds = stack.pop()
                if (b, conds) in seen or len(seen) > 400:
                    continue
                seen.add((b, conds))
                if b in wblocks:
                    nxt.append((b, conds))
                    continue
                tb = f.blocks[b]["term"]
                if tb["t"] == "switch" and tb.get("op_ty") == "bool":
                    c = T.operand(tb["op"], 0, (b, "term"))
                    for v, tg in list(zip(tb["vals"], tb["targets"])) + [(None, tb["otherwise"])]:
                        truth = bool(v) if v is not None else (not bool(tb["vals"][0]) if len(tb["vals"]) == 1 else None)
                        c2, tr2 = strip_not(c, truth) if truth is not None else (c, None)
                        stack.append((tg, conds + ((c2, tr2),)))
                else:
                    stack += [(s_, conds) for s_ in cfg.succ[b]]
            bad = None
            if not nxt:
                bad = "nothing is written after the comma in this function (the caller's next write is not checked)"
            for (b, conds) in nxt:
                t = f.blocks[b]["term"]
                arg = T.at_call(b, t, 1)
                vals = set()
                for a in alts(arg):
                    if a[0] == "const" and isinstance(a[1], str):
                        vals.add(a[1])
                    elif a[0] == "call" and ("jiff::" + a[1]) in prog.fns:
                        for r in alts(Terms(prog.fns["jiff::" + a[1]]).returns()):
                            if r[0] == "const" and isinstance(r[1], str):
                                vals.add(r[1])
                            else:
                                vals.add(None)
                    else:
                        vals.add(None)
                for (c2, tr2) in conds:
                    if is_call(c2, "::is_empty") and c2[2] and c2[2][0] == arg and tr2 is False:
                        vals.discard("")
                if None in vals:
                    bad = "the text written after the comma at line %s is not a known constant" % t["span"]["line"]
                elif any(not v or v[0] not in " \t\n\r" for v in vals):
                    bad = "after the comma the printer can write %s (line %s), which does not start with whitespace" % (
                        sorted(repr(v) for v in vals), t["span"]["line"])
            if bad:
                rep.violation(rule, key, bad, loc)
            else:
                rep.ok(rule, key, how="every following write starts with whitespace", loc=loc)
    rep.floor(rule + " commas", n, 1)
