"""C16 - strftime/strptime and RFC 2822: specifier sets and name tables agree, redundant parsed fields are checked, parsers cannot panic."""
from ..rules_r5 import sibling_source
import re
from .. import mir
from ..e1 import src_line
from ..term import Terms, is_call, walk, alts
from ..guards import guards, strip_not
from ..rules_tables import specifier_set
from ..rules_e1 import run_e1

WD = ["Sunday", "Monday", "Tuesday", "Wednesday", "Thursday", "Friday", "Saturday"]


def fn_source(f, maxlines=160):
    """source text of a function: from its first line to the closing brace at the same indentation"""
    import os
    from ..facts import REPO
    lines = open(os.path.join(REPO, f.file), encoding="utf-8").read().split("\n")
    start = f.line - 1
    indent = len(lines[start]) - len(lines[start].lstrip())
    out = []
    for i in range(start, min(len(lines), start + maxlines)):
        out.append(lines[i])
        if i > start and lines[i].rstrip() == " " * indent + "}":
            break
    return "\n".join(out)


def arms_to_str(text):
    """`Weekday::X => "s"` / `n => "s"` arms -> {key: string}"""
    d = {}
    for m in re.finditer(r"(Weekday::(\w+)|(\d+))\s*=>\s*\"(\w+)\"", text):
        d[m.group(2) or int(m.group(3))] = m.group(4)
    return d


def arms_from_bytes(text):
    """`b"xyz" => Weekday::X | n` arms -> {bytes: key}"""
    d = {}
    for m in re.finditer(r"b\"(\w+)\"\s*=>\s*(Weekday::(\w+)|(\d+))", text):
        d[m.group(1)] = m.group(3) or int(m.group(4))
    return d


def choices(text):
    return re.findall(r"b\"(\w+)\"", text)


def run(ctx, rep):
    from ..rules_dep import run_dep
    run_dep(ctx, rep, "C16")
    from ..rules_tz import floor_print
    floor_print(rep, ctx.prog("Q"))
    from ..rules_parse import sign_distrib, obs_year, verbatim
    sign_distrib(rep, ctx.prog("Q"))
    obs_year(rep, ctx.prog("Q"))
    verbatim(rep, ctx.prog("Q"))
    absolute_source(ctx, rep)
    from ..rules_parse import minute_offset_print
    minute_offset_print(rep, ctx.prog("Q"))
    prog = ctx.prog("Q")
    sibling_source(rep, prog)
    rep.notes.append("Does not decide agreement with the C library, week-number arithmetic or the %y pivot.")
    specifier_set(rep, prog)
    name_tables(rep, prog)
    checked_field(rep, prog)
    sign_source(rep, prog)

    def roots(E):
        out = []
        for k in E.public_result_roots():
            f = E.prog.fns[k]
            if f.file.startswith("src/fmt/strtime/") or f.file == "src/fmt/rfc2822.rs" or "strptime" in f.path or "strftime" in f.path:
                out.append(k)
        return sorted(set(out))
    run_e1(ctx, rep, roots, min_roots=20, min_sites=300)


def absolute_source(ctx, rep, rule="ABSOLUTE-SOURCE"):
    """`%s` parses an instant; a later `%z` must not be able to move it"""
    from .. import dep
    rep.rule(rule, "BrokenDownTime::to_timestamp has a non-error return that depends on something the `%s` handler "
                   "(Parser::parse_timestamp) stores and does not depend on the `offset` field, and to_zoned_with has one that "
                   "does not depend on the civil fields: `%s` writes the UTC decomposition of the instant together with offset "
                   "UTC, a later `%z`/`%:z` replaces only the offset, and an instant recomputed from civil fields and offset is "
                   "then off by that offset (`strftime(\"%s %z\")` of 16:24:59-04:00 parsed back as 2024-07-16T00:24:59Z)")
    prog = ctx.prog("Q")
    eng = getattr(ctx, "_dep_Q", None)
    if eng is None:
        eng = dep.Engine(prog)
        setattr(ctx, "_dep_Q", eng)
    h = [g for k, g in prog.fns.items() if k.startswith("jiff::fmt::strtime::parse::Parser") and k.endswith("::parse_timestamp")]
    if not h:
        rep.violation(rule, "handler", "anchor missing: strtime Parser::parse_timestamp", "src/fmt/strtime/parse.rs")
        return
    written = set()
    for b in h[0].blocks:
        for st in b["st"]:
            if st["s"] == "=" and "p" in st.get("lhs", {}):
                for e in st["lhs"]["p"]:
                    if isinstance(e, dict) and e.get("adt", "").endswith("BrokenDownTime"):
                        written.add(e.get("n"))
    civil = {"year", "month", "day", "hour", "minute", "second"}
    for fn_, forbidden, what in (("to_timestamp", {"offset"}, "the offset field"), ("to_zoned_with", civil, "the civil fields")):
        fd = eng.fndeps("jiff::fmt::strtime::BrokenDownTime::" + fn_)
        key = "BrokenDownTime::" + fn_
        if fd is None:
            rep.violation(rule, key, "anchor missing: function not found", "src/fmt/strtime/mod.rs")
            continue
        alts_ = [a for a in fd.alternatives(((),)) if a[1] not in ("err", "none")]
        good = []
        for a in alts_:
            deps = {s_[2][0] for s_ in a[2][()] if s_[0] == "p" and s_[1] == 1 and s_[2]}
            if deps & written and not (deps & forbidden):
                good.append((a[3], sorted(deps)))
        loc = fd.fn.loc() if hasattr(fd.fn, "loc") else "src/fmt/strtime/mod.rs"
        if good:
            rep.ok(rule, key, how="the return at line %s depends on %s only" % (good[0][0], good[0][1]), loc=loc)
        else:
            rep.violation(rule, key, "every non-error return depends on %s: the instant that `%%s` parsed (handler writes %s) is "
                          "recomputed from fields that a later directive can replace independently" % (what, sorted(written)), loc)


def name_tables(rep, prog, rule="NAME-TABLE"):
    rep.rule(rule, "the weekday and month names emitted by the strtime and RFC 2822 formatters and the (case-folded) lookup tables of the "
                   "corresponding parsers denote the same weekday / month")
    g = lambda p: prog.fns.get("jiff::" + p)
    st = "fmt::strtime::"
    P = "fmt::strtime::parse::Parser::<'f, 'i, 't>::"
    def need(*paths):
        fs = [g(p) for p in paths]
        for p, f in zip(paths, fs):
            if f is None:
                rep.anchor_missing(p)
        return fs if all(fs) else None
    # strtime full names: formatter match vs parser CHOICES (index order)
    fs = need(st + "weekday_name_full", P + "parse_weekday_full", st + "month_name_full", P + "parse_month_name_full",
              st + "weekday_name_abbrev", st + "parse::parse_weekday_abbrev", st + "month_name_abbrev", st + "parse::parse_month_name_abbrev")
    if fs:
        wfull, pwfull, mfull, pmfull, wab, pwab, mab, pmab = [fn_source(f) for f in fs]
        fw = arms_to_str(wfull)
        cw = choices(pwfull.split("CHOICES")[1].split("];")[0]) if "CHOICES" in pwfull else []
        ok = [fw.get(d) for d in WD] == cw and len(cw) == 7
        # the parser maps index i through from_sunday_zero_offset
        ok = ok and "from_sunday_zero_offset" in pwfull
        (rep.ok if ok else rep.violation)(rule, "strtime weekday full", "formatter %s vs parser choices %s" % ([fw.get(d) for d in WD], cw), fs[1].loc()) if not ok else rep.ok(rule, "strtime weekday full", how=str(cw))
        fm = arms_to_str(mfull)
        cm = choices(pmfull.split("CHOICES")[1].split("];")[0]) if "CHOICES" in pmfull else []
        ok = [fm.get(i) for i in range(1, 13)] == cm and "index + 1" in pmfull
        rep.ok(rule, "strtime month full", how=str(cm)) if ok else rep.violation(rule, "strtime month full", "formatter %s vs parser choices %s (index+1: %s)" % ([fm.get(i) for i in range(1, 13)], cm, "index + 1" in pmfull), fs[3].loc())
        fa = arms_to_str(wab)
        pa = arms_from_bytes(pwab)
        ok = all(pa.get((fa.get(d) or "").lower()) == i for i, d in enumerate(WD)) and len(pa) == 7
        rep.ok(rule, "strtime weekday abbrev", how=str(pa)) if ok else rep.violation(rule, "strtime weekday abbrev", "formatter %s vs parser %s (Sunday = 0)" % (fa, pa), fs[5].loc())
        fa = arms_to_str(mab)
        pa = arms_from_bytes(pmab)
        ok = all(pa.get((fa.get(i) or "").lower()) == i - 1 for i in range(1, 13)) and len(pa) == 12
        rep.ok(rule, "strtime month abbrev", how=str(pa)) if ok else rep.violation(rule, "strtime month abbrev", "formatter %s vs parser %s (January = 0)" % (fa, pa), fs[7].loc())
    fs = need("fmt::rfc2822::weekday_abbrev", "fmt::rfc2822::DateTimeParser::parse_weekday", "fmt::rfc2822::month_name", "fmt::rfc2822::DateTimeParser::parse_month")
    if fs:
        wa, pw, mn, pm = [fn_source(f, 120) for f in fs]
        fa, pa = arms_to_str(wa), arms_from_bytes(pw)
        ok = all(pa.get((fa.get(d) or "").lower()) == d for d in WD) and len(pa) == 7
        rep.ok(rule, "rfc2822 weekday", how=str(pa)) if ok else rep.violation(rule, "rfc2822 weekday", "printer %s vs parser %s" % (fa, pa), fs[1].loc())
        fa, pa = arms_to_str(mn), arms_from_bytes(pm)
        ok = all(pa.get((fa.get(i) or "").lower()) == i for i in range(1, 13)) and len(pa) == 12
        rep.ok(rule, "rfc2822 month", how=str(pa)) if ok else rep.violation(rule, "rfc2822 month", "printer %s vs parser %s" % (fa, pa), fs[3].loc())


def checked_field(rep, prog, rule="CHECKED-FIELD"):
    rep.rule(rule, "a parsed weekday that is not part of the result is compared with the weekday of the parsed date and a mismatch returns "
                   "Err (rfc2822 parse_datetime unless relaxed_weekday; strtime BrokenDownTime::to_date)")
    for path, relaxed in (("fmt::rfc2822::DateTimeParser::parse_datetime", True), ("fmt::strtime::BrokenDownTime::to_date", False)):
        f = prog.fns.get("jiff::" + path)
        if f is None:
            rep.anchor_missing(path)
            continue
        T = Terms(f)
        cfg = mir.CFG(f)
        found = False
        for bi, b in enumerate(f.blocks):
            t = b["term"]
            if t["t"] != "switch":
                continue
            c = T.operand(t["op"], 0, (bi, "term"))
            c, _ = strip_not(c, True)
            if not (c[0] == "call" and c[1].split("::")[-1] in ("ne", "eq")):
                continue
            sides = c[2]
            has_date_wd = any(any(is_call(x, "::weekday") for x in walk(s)) for s in sides)
            if not has_date_wd:
                continue
            # one successor must lead to an Err aggregate without reaching an Ok first
            errs = False
            for tg in list(t["targets"]) + [t["otherwise"]]:
                blk = f.blocks[tg]
                seen = set()
                stack = [tg]
                while stack and len(seen) < 12:
                    x = stack.pop()
                    if x in seen:
                        continue
                    seen.add(x)
                    for s in f.blocks[x]["st"]:
                        if s["s"] == "=" and s["rv"]["k"] == "agg" and s["rv"].get("variant") == "Err" and s["rv"].get("adt", "").endswith("result::Result"):
                            errs = True
                    stack.extend(mir.succs(f.blocks[x]["term"]))
            if errs:
                found = True
        if found:
            rep.ok(rule, path.split("::")[-2] + "::" + path.split("::")[-1], how="parsed weekday compared with date.weekday(); mismatch -> Err")
        else:
            rep.violation(rule, path.split("::")[-2] + "::" + path.split("::")[-1], "no comparison of the parsed weekday with the date's weekday "
                          "that can lead to an error was found: a parsed-then-ignored field", f.loc())


def sign_source(rep, prog, rule="SIGN-SOURCE"):
    rep.rule(rule, "every offset printer that prints the parts of an Offset selects the '-' sign under Offset::is_negative of the whole "
                   "offset (or an order comparison of its total seconds with 0), never from one component: an offset like -00:30 has a "
                   "zero hour component (sibling printers are cross-checked against the same rule)")
    n = 0
    for f in sorted(prog.fns.values(), key=lambda f: f.key):
        if f.crate != "jiff" or f.is_closure:
            continue
        if not any(t.get("path", "").endswith("Offset::part_hours_ranged") for _, t in mir.iter_calls(f)):
            continue
        T = Terms(f)
        cfg = mir.CFG(f)
        found = []
        for bi, b in enumerate(f.blocks):
            for s in b["st"]:
                if s["s"] == "=" and s["rv"]["k"] == "use" and s["rv"]["a"].get("o") == "c" and s["rv"]["a"].get("s") == "-":
                    gs = [strip_not(c, t) for (c, t, sb) in guards(f, cfg, T, bi)]
                    found.append(gs[0] if gs else None)
        if not found:
            continue
        n += 1
        ok = True
        why = ""
        for g in found:
            if g is None:
                ok, why = False, "unguarded '-'"
                continue
            c, t = g
            whole = (is_call(c, "Offset::is_negative") and t is True) or \
                    (c[0] == "call" and c[1].split("::")[-1] in ("lt", "gt", "le", "ge") and
                     any((is_call(x, "Offset::seconds_ranged") or (isinstance(x, tuple) and x and x[0] == "field" and x[2] == "span")) for x in walk(c)))
            part = any(is_call(x, "Offset::part_hours_ranged") or is_call(x, "Offset::part_minutes_ranged") for x in walk(c))
            if not whole or part:
                from ..term import show
                ok, why = False, "the '-' sign is selected by %s" % show(c, maxd=4)
        if ok:
            rep.ok(rule, f.path.split("::")[-2] + "::" + f.path.split("::")[-1], how="'-' under is_negative(offset)")
        else:
            rep.violation(rule, f.path.split("::")[-2] + "::" + f.path.split("::")[-1], why, f.loc())
    rep.floor(rule + " printers", n, 5)
