"""C13 - every Zoned value is internally consistent with its time zone (structure)."""
from .. import mir
from ..term import Terms, show, alts, is_call, strip_try, walk
from ..rules_signpair import run_signpair
from ..rules_dep import run_eq_hash

ZI = "zoned::ZonedInner"


def field_source(T, op):
    """If `op` is (a copy of) a field of a local, return (local, field name)."""
    op = T.du.resolve_copy(op)
    ps = op.get("p")
    if op.get("o") in ("cp", "mv") and ps and len(ps) == 1 and isinstance(ps[0], dict) and "f" in ps[0]:
        return op["l"], ps[0].get("n", str(ps[0]["f"]))
    return None


def run(ctx, rep):
    run_eq_hash(ctx, rep)
    prog = ctx.prog("Q")
    # Eq/Ord/Hash of Zoned compare the (second, nanosecond) pair of the instant field by field (EQ-FIELDS), which is
    # "depends on the instant only" exactly if every instant has one representation: sign-consistent pairs
    run_signpair(ctx, rep, select=lambda f: f.file in ("src/timestamp.rs", "src/zoned.rs", "src/shared/util/itime.rs", "src/tz/offset.rs"), floor=8)
    rep.rule("ZONED-CONSTRUCT", "ZonedInner{..} aggregates occur only in Zoned::new and Zoned::from_parts; no store to a field "
                                "of a ZonedInner anywhere; from_parts is crate-private and called only from DateTime::to_zoned; in "
                                "Zoned::new the offset is TimeZone::to_offset(tz, ts) and the datetime is Offset::to_datetime(offset, ts) "
                                "of the same ts/tz that fill the aggregate; at every from_parts call each arm passes either parts "
                                "re-derived from (tz, ts) or the Unambiguous offset of to_ambiguous_timestamp(tz, dt) with "
                                "ts = offset.to_timestamp(dt)? for the same dt")
    rep.rule("EQ-FIELDS", "PartialEq/Ord/PartialOrd/Hash for Zoned read their operands only through Zoned::timestamp (or delegate to "
                          "the like-named impl), and Zoned::timestamp returns the field `timestamp`")
    rep.rule("TZ-CHANGE", "with_time_zone/in_tz build the result with Zoned::new on the unmodified self.timestamp()")

    # ---------------- aggregates and stores
    agg_fns, stores = {}, []
    for f in prog.fns.values():
        if f.crate != "jiff":
            continue
        for b in f.blocks:
            for s in b["st"]:
                if s["s"] != "=":
                    continue
                if s["rv"]["k"] == "agg" and s["rv"].get("adt") == ZI:
                    agg_fns[f.path] = agg_fns.get(f.path, 0) + 1
                for e in s["lhs"].get("p", []):
                    if isinstance(e, dict) and e.get("adt") == ZI:
                        stores.append("%s:%s" % (f.path, s.get("ln")))
    allowed = {"zoned::Zoned::new", "zoned::Zoned::from_parts"}
    ck = "<zoned::ZonedInner as core::clone::Clone>::clone"
    if ck in agg_fns:
        # the derived Clone: every field is the clone of the like-named field of self
        cf = prog.jiff(ck)
        r = Terms(cf).returns()
        good = r[0] == "agg" and all(ft[0] == "field" and ft[2] == fname and ft[1][0] == "param" for fname, ft in r[3])
        if good:
            allowed.add(ck)
            rep.ok("ZONED-CONSTRUCT", "derived Clone", how=show(r))
        else:
            rep.violation("ZONED-CONSTRUCT", "derived Clone", "Clone for ZonedInner is not a field-wise copy: %s" % show(r), cf.loc())
    if set(agg_fns) - allowed:
        rep.violation("ZONED-CONSTRUCT", "aggregates", "ZonedInner assembled outside new/from_parts: %s" % sorted(set(agg_fns) - allowed), "src/zoned.rs")
    else:
        rep.ok("ZONED-CONSTRUCT", "aggregates", how=str(sorted(agg_fns)))
    rep.floor("ZonedInner aggregate functions", len(agg_fns), 2)
    if stores:
        rep.violation("ZONED-CONSTRUCT", "field stores", "a field of a ZonedInner is assigned after construction: %s" % stores[:5], "src/zoned.rs")
    else:
        rep.ok("ZONED-CONSTRUCT", "field stores", how="none")

    # ---------------- Zoned::new
    fnew = prog.jiff("zoned::Zoned::new")
    T = Terms(fnew)
    inner = None
    for x in walk(T.returns()):
        if isinstance(x, tuple) and x and x[0] == "agg" and x[1] == ZI:
            inner = dict(x[3])
    ok = False
    if inner:
        ts, tz = inner.get("timestamp"), inner.get("time_zone")
        off, dt = inner.get("offset"), inner.get("datetime")
        ok = (ts and ts[0] == "param" and tz and tz[0] == "param"
              and is_call(off, "TimeZone::to_offset") and off[2] == (tz, ts)
              and is_call(dt, "Offset::to_datetime") and dt[2] == (off, ts))
    if ok:
        rep.ok("ZONED-CONSTRUCT", "Zoned::new derivation", how=show(T.returns()))
    else:
        rep.violation("ZONED-CONSTRUCT", "Zoned::new derivation",
                      "Zoned::new must fill offset <- tz.to_offset(ts), datetime <- offset.to_datetime(ts) from the same ts/tz; found %s"
                      % show(T.returns()), fnew.loc())

    # ---------------- from_parts: visibility and callers
    fp = prog.jiff("zoned::Zoned::from_parts")
    cg = ctx.e1("Q").cg
    callers = sorted({a for (a, k, bb) in cg.redges.get(fp.key, [])})
    if fp.get("reachable") or fp.get("vis") == "pub":
        rep.violation("ZONED-CONSTRUCT", "from_parts visibility", "Zoned::from_parts is reachable from outside the crate", fp.loc())
    else:
        rep.ok("ZONED-CONSTRUCT", "from_parts visibility", how=fp.get("vis"), nontrivial=False)
    if callers != ["jiff::civil::datetime::DateTime::to_zoned"]:
        rep.violation("ZONED-CONSTRUCT", "from_parts callers", "from_parts has callers other than DateTime::to_zoned: %s" % callers, fp.loc())
    else:
        rep.ok("ZONED-CONSTRUCT", "from_parts callers", how=str(callers))

    # ---------------- every from_parts call site
    n_sites = 0
    for ck in callers:
        f = prog.fns[ck]
        T = Terms(f)
        for bi, t in mir.iter_calls(f):
            if t.get("path") != "zoned::Zoned::from_parts":
                continue
            n_sites += 1
            key = "from_parts call in %s#%d" % (f.path, n_sites)
            tz = T.operand(t["args"][1])
            srcs = [field_source(T, t["args"][i]) for i in (0, 2, 3)]
            arms = []
            if all(srcs) and len({s[0] for s in srcs}) == 1:
                tup = T.local(srcs[0][0])
                for a in alts(tup):
                    if a[0] == "agg":
                        d = dict(a[3])
                        arms.append((d.get(srcs[0][1]), d.get(srcs[1][1]), d.get(srcs[2][1])))
                    else:
                        arms.append(None)
            else:
                arms = [(T.operand(t["args"][0]), T.operand(t["args"][2]), T.operand(t["args"][3]))]
            bad = []
            for arm in arms:
                if arm is None or None in arm:
                    bad.append("unrecognised arm shape")
                    continue
                ts, off, dt = arm
                if any(x[0] == "phi" for x in (ts, off, dt)):
                    bad.append("parts are not correlated per arm: ts=%s off=%s dt=%s" % (show(ts, maxd=3), show(off, maxd=3), show(dt, maxd=3)))
                    continue
                derived = (is_call(off, "TimeZone::to_offset") and off[2] == (tz, ts)
                           and is_call(dt, "Offset::to_datetime") and dt[2] == (off, ts))
                unamb = False
                if ts[0] == "try" and is_call(ts[1], "Offset::to_timestamp") and ts[1][2] == (off, dt):
                    if off[0] == "field" and off[2] == "offset" and off[1][0] == "variant" and off[1][2] == "Unambiguous":
                        src = off[1][1]
                        if is_call(src, "AmbiguousTimestamp::offset"):
                            src = src[2][0]
                        unamb = is_call(src, "TimeZone::to_ambiguous_timestamp") and src[2] == (tz, dt)
                if not (derived or unamb):
                    bad.append("arm passes (ts=%s, offset=%s, dt=%s), neither re-derived from (tz, ts) nor the Unambiguous "
                               "offset for the same dt" % (show(ts, maxd=4), show(off, maxd=4), show(dt, maxd=4)))
            if bad:
                rep.violation("ZONED-CONSTRUCT", key, "; ".join(bad), "%s:%s" % (t["span"]["file"], t["span"]["line"]))
            else:
                rep.ok("ZONED-CONSTRUCT", key, how="%d arms, each derived or unambiguous-for-same-dt" % len(arms))
    rep.floor("from_parts call sites", n_sites, 1)

    # ---------------- EQ-FIELDS
    ts_fn = prog.jiff("zoned::Zoned::timestamp")
    tt = Terms(ts_fn).returns()
    if tt[0] == "field" and tt[2] == "timestamp":
        rep.ok("EQ-FIELDS", "Zoned::timestamp", how=show(tt))
    else:
        rep.violation("EQ-FIELDS", "Zoned::timestamp", "Zoned::timestamp returns %s, not the field `timestamp`" % show(tt), ts_fn.loc())
    impls = [k for k in prog.fns if k.startswith("jiff::<") and
             any(k.startswith("jiff::<%szoned::Zoned as %s" % (r, tr)) for r in ("", "&'a ")
                 for tr in ("core::cmp::PartialEq", "core::cmp::Ord", "core::cmp::PartialOrd", "core::hash::Hash"))]
    n = 0
    for k in sorted(impls):
        f = prog.fns[k]
        if f.is_closure:
            continue
        n += 1
        allowed_calls = ("zoned::Zoned::timestamp", "timestamp::Timestamp as core::cmp::", "timestamp::Timestamp as core::hash::Hash>::hash",
                         "zoned::Zoned as core::cmp::", "core::cmp::impls::")
        bad = [t["path"] for _, t in mir.iter_calls(f)
               if not any(a in (t.get("fn") or t.get("path", "")) for a in allowed_calls)]
        reads = []
        for b in f.blocks:
            for s in b["st"]:
                if s["s"] == "=":
                    for o in mir.rvalue_operands(s["rv"]):
                        for e in o.get("p", []) if o.get("o") != "c" else []:
                            if isinstance(e, dict) and e.get("adt") in ("zoned::Zoned", ZI):
                                reads.append(e.get("n"))
        if bad or reads:
            rep.violation("EQ-FIELDS", f.path, "comparison/hash of Zoned depends on more than the instant: calls %s, direct field reads %s" % (bad, reads), f.loc())
        else:
            rep.ok("EQ-FIELDS", f.path, how="only Zoned::timestamp / Timestamp comparisons")
    rep.floor("Zoned Eq/Ord/Hash impl fns", n, 6)

    # ---------------- TZ-CHANGE
    f = prog.jiff("zoned::Zoned::with_time_zone")
    r = Terms(f).returns()
    if is_call(r, "zoned::Zoned::new") and is_call(r[2][0], "zoned::Zoned::timestamp") and r[2][0][2][0][0] == "param" and r[2][1][0] == "param":
        rep.ok("TZ-CHANGE", "with_time_zone", how=show(r))
    else:
        rep.violation("TZ-CHANGE", "with_time_zone", "with_time_zone must be Zoned::new(self.timestamp(), tz); found %s" % show(r), f.loc())
    f = prog.jiff("zoned::Zoned::in_tz")
    r = Terms(f).returns()
    oks = [a for a in alts(r) if a[0] == "agg" and a[2] == "Ok"]
    good = len(oks) == 1 and is_call(dict(oks[0][3])["0"], "zoned::Zoned::with_time_zone") and dict(oks[0][3])["0"][2][0][0] == "param"
    if good:
        rep.ok("TZ-CHANGE", "in_tz", how=show(oks[0], maxd=4))
    else:
        rep.violation("TZ-CHANGE", "in_tz", "in_tz must return with_time_zone(self, tz); found %s" % show(r, maxd=5), f.loc())
