"""C10 - rounding a datetime: increment/mode tables, day carry independent of the year, zoned pipelines, range re-checks."""
import re
import itertools, os, re
from .. import mir
from ..term import Terms, show, alts, is_call, walk, match, V, C, TRY, ok_payloads
from ..e1 import src_line
from ..rules_e2 import run_e2
from ..rules_dep import run_dep
from ..rules_signpair import run_truncsplit

UNITS = ["Nanosecond", "Microsecond", "Millisecond", "Second", "Minute", "Hour", "Day"]
NANOS = ["", "NANOS_PER_MICRO", "NANOS_PER_MILLI", "NANOS_PER_SECOND", "NANOS_PER_MINUTE", "NANOS_PER_HOUR", "NANOS_PER_CIVIL_DAY"]
MODE_TABLE = {
    "Ceil": lambda a: a["sign>0"],
    "Floor": lambda a: a["sign<0"],
    "Expand": lambda a: True,
    "Trunc": lambda a: False,
    "HalfCeil": lambda a: a["tb>inc"] or (a["tb==inc"] and a["sign>0"]),
    "HalfFloor": lambda a: a["tb>inc"] or (a["tb==inc"] and a["sign<0"]),
    "HalfExpand": lambda a: a["tb>inc"] or a["tb==inc"],
    "HalfTrunc": lambda a: a["tb>inc"],
    "HalfEven": lambda a: a["tb>inc"] or (a["tb==inc"] and a["odd"]),
}


def tconst(prog, name):
    c = prog.consts.get("jiff::util::t::" + name)
    if c is None:
        return None
    m = re.match(r"util::t::Constant\((-?\d+)_i64\)$", c.get("pretty", ""))
    return int(m.group(1)) if m else None


def static_array(prog, path):
    """entries of `static NAME: &[Constant] = &[ ... ];` as integers"""
    c = prog.consts.get("jiff::" + path)
    if c is None:
        return None, None
    f, ln = c["span"]["file"], c["span"]["line"]
    text = ""
    for i in range(0, 14):
        text += " " + src_line(f, ln + i)
        if "];" in text:
            break
    m = re.search(r"=\s*&\[(.*?)\];", text)
    if not m:
        return None, "%s:%s" % (f, ln)
    out = []
    for e in [x.strip() for x in m.group(1).split(",") if x.strip()]:
        mm = re.match(r"^(?:t::)?Constant\((\d+)\)$", e)
        if mm:
            out.append(int(mm.group(1)))
        elif re.match(r"^t::[A-Z_]+$", e):
            out.append(tconst(prog, e[3:]))
        else:
            out.append(None)
    return out, "%s:%s" % (f, ln)


def run(ctx, rep):
    increment_validated(rep, ctx.prog("Q"))
    run_truncsplit(ctx, rep, floor=1)
    run_dep(ctx, rep, "C10")
    prog = ctx.prog("Q")
    rep.notes.append("Does not decide that the returned multiple is the mode-prescribed neighbour for concrete values beyond the tables; tie handling in round_float.")
    increment_table(rep, prog)
    round_table(rep, prog)
    noninterference(rep, prog)
    pipelines(rep, prog)
    if os.path.exists(os.path.join(os.path.dirname(__file__), "..", "..", "reviewed", "ranged.tsv")):
        run_e2(ctx, rep, select=lambda f: "Round" in f.path or f.file.startswith("src/util/round"), floor=20)


def increment_table(rep, prog, rule="INCREMENT-TABLE"):
    rep.rule(rule, "the increment tables of util::round::increment, indexed by Unit: LIMIT[u] = nanoseconds(next unit) / nanoseconds(u) "
                   "for Nanosecond..Hour (for_datetime additionally 2 for Day), MAX[u] = NANOS_PER_CIVIL_DAY / nanoseconds(u), both sides "
                   "read from the crate's own unit constants")
    n = [1] + [tconst(prog, x) for x in NANOS[1:]]
    if None in n:
        rep.anchor_missing("t::NANOS_PER_* constants")
        return
    limit = [n[i + 1] // n[i] for i in range(6)]
    maxes = [n[6] // n[i] for i in range(6)]
    want = {"for_span::LIMIT": limit, "for_time::LIMIT": limit, "for_datetime::LIMIT": limit + [2], "for_timestamp::MAX": maxes}
    for name, w in want.items():
        got, loc = static_array(prog, "util::round::increment::" + name)
        if got is None:
            rep.anchor_missing("static util::round::increment::" + name)
        elif got == w:
            rep.ok(rule, name, how=str(got))
        else:
            rep.violation(rule, name, "table is %s, the unit constants give %s" % (got, w), loc or "src/util/round/increment.rs")
    # the unit enum must index the tables in this order
    u = prog.adts.get("jiff::span::Unit")
    names = [v["name"] for v in sorted(u["variants"], key=lambda v: int(v["discr"]))][:7] if u else None
    if names == UNITS:
        rep.ok(rule, "Unit discriminants", how=str(names), nontrivial=False)
    else:
        rep.violation(rule, "Unit discriminants", "Unit variants are %s, tables assume %s" % (names, UNITS), "src/span.rs")


def _atom(c):
    """classify a branch condition of RoundMode::round::inner; the tie atoms are only recognised in a form that is
    exact for every increment: |2 * remainder| against the increment itself (or |remainder| against increment -
    |remainder|); a comparison against a derived half of the increment is not a tie test for odd increments"""
    if not (isinstance(c, tuple) and c and c[0] == "call"):
        return None
    name = c[1].split("::")[-1]
    if name not in ("gt", "lt", "eq", "ne", "ge", "le"):
        return None
    a, b = c[2][0], c[2][1]
    calls = lambda t, suf: any(is_call(x, suf) for x in walk(t))
    has_abs = lambda t: calls(t, "::abs")
    is_sign = lambda t: calls(t, "util::t::C128") and not has_abs(t) and not calls(t, "::rem_ceil")
    has_rem2 = lambda t: any(isinstance(x, tuple) and x and x[0] == "call" and "Rem" in x[1] for x in walk(t))
    is_increment = lambda t: t[0] == "param" and t[2] == "increment"
    is_const = lambda t, v: t[0] == "call" and t[1].split("::")[-1] in ("C", "C128") and t[2] and t[2][0] == ("const", v)
    doubled_rem = lambda t: has_abs(t) and calls(t, "::rem_ceil") and any(
        isinstance(x, tuple) and x and x[0] == "call" and x[1].endswith("::mul") and any(is_const(y, 2) for y in x[2]) for x in walk(t))
    plain_rem = lambda t: has_abs(t) and calls(t, "::rem_ceil") and not calls(t, "::mul") and not calls(t, "::div")
    inc_minus_rem = lambda t: t[0] == "call" and t[1].endswith("::sub") and len(t[2]) == 2 and is_increment(t[2][0]) and plain_rem(t[2][1])
    exact_tie = (doubled_rem(a) and is_increment(b)) or (plain_rem(a) and inc_minus_rem(b))
    if exact_tie and name == "gt":
        return "tb>inc"
    if exact_tie and name == "eq":
        return "tb==inc"
    if is_sign(a) and name == "gt" and is_const(b, 0):
        return "sign>0"
    if is_sign(a) and name == "lt" and is_const(b, 0):
        return "sign<0"
    if has_rem2(a) and calls(a, "::div_ceil") and name == "eq" and is_const(b, 1):
        return "odd"
    return None


def round_table(rep, prog, rule="ROUND-TABLE"):
    rep.rule(rule, "in RoundMode::round::inner the quotient/remainder come from the truncating div_ceil/rem_ceil, the result is "
                   "quotient.saturating_mul(increment), and for each of the 9 modes the condition under which `quotient += sign` executes, "
                   "as a boolean function of {sign>0, sign<0, tiebreaker>increment, tiebreaker==increment, quotient odd}, equals "
                   "Temporal's RoundNumberToIncrement table (decided by enumerating the atoms' truth assignments over the CFG)")
    f = prog.fns.get("jiff::util::round::mode::RoundMode::round::inner")
    if f is None:
        rep.anchor_missing("RoundMode::round::inner")
        return
    T = Terms(f)
    cfg = mir.CFG(f)
    calls = {t.get("path", "").split("::")[-1] for _, t in mir.iter_calls(f)}
    if {"div_ceil", "rem_ceil", "saturating_mul"} <= calls:
        rep.ok(rule, "kernel", how="div_ceil, rem_ceil, saturating_mul")
    else:
        rep.violation(rule, "kernel", "inner does not use div_ceil/rem_ceil/saturating_mul (calls: %s)" % sorted(calls), f.loc())
    adt = prog.adts.get("jiff::util::round::mode::RoundMode")
    names = {int(v["discr"]): v["name"] for v in adt["variants"]}

    def mode_switch(fn_, T_, param):
        for bi, b in enumerate(fn_.blocks):
            t = b["term"]
            if t["t"] == "switch":
                d = T_.operand(t["op"], 0, (bi, "term"))
                if d[0] == "disc" and d[1][0] == "param" and d[1][1] == param:
                    return (bi, t)
        return None
    host, hT, args, by_return = f, T, None, False
    msw = mode_switch(f, T, 1)
    if msw is None:
        # the per-mode conditions may have been pulled into a predicate `fn(mode, ..) -> bool` whose result decides the
        # `quotient += sign`: evaluate the table on that function, with its parameters replaced by the caller's terms
        from ..term import subst_params
        for bi, t in mir.iter_calls(f):
            g = prog.fns.get("jiff::" + t.get("path", ""))
            if g is None or g.get("ret") != "bool" or not t.get("args"):
                continue
            a_ = [T.at_call(bi, t, i) for i in range(len(t["args"]))]
            mp = [i for i, x in enumerate(a_) if x[0] == "param" and x[1] == 1]
            if not mp:
                continue
            gT = Terms(g)
            m2 = mode_switch(g, gT, mp[0] + 1)
            if m2 is not None:
                host, hT, args, by_return, msw = g, gT, a_, True, m2
                break
    if msw is None:
        rep.violation(rule, "mode switch", "no switch on the mode parameter found (neither in inner nor in a bool predicate it calls with the mode)", f.loc())
        return
    sub = (lambda c: subst_params(c, args)) if args is not None else (lambda c: c)
    add_blocks = {bi for bi, t in mir.iter_calls(host) if "AddAssign" in t.get("path", "")}
    fin = [bi for bi, t in mir.iter_calls(host) if t.get("path", "").endswith("::saturating_mul")]
    if by_return:
        # in the caller the predicate's result must be what guards the add
        guarded = False
        fcfg = mir.CFG(f)
        from ..guards import guards as _guards
        for bi, t in mir.iter_calls(f):
            if "AddAssign" in t.get("path", ""):
                guarded = any(c[0] == "call" and ("jiff::" + c[1]) == host.key and tr is True for (c, tr, _sb) in _guards(f, fcfg, T, bi))
        if not guarded:
            rep.violation(rule, "mode switch", "the predicate %s does not guard `quotient += sign` in inner" % host.path.split("::")[-1], f.loc())
            return
    arms = dict(zip(msw[1]["vals"], msw[1]["targets"]))
    missing = set(names) - set(arms)
    if len(missing) == 1:
        arms[missing.pop()] = msw[1]["otherwise"]

    def atom_value(c, a):
        """truth value of condition term c under assignment a, or None"""
        neg = False
        while c[0] == "un" and c[1] == "Not":
            c, neg = c[2], not neg
        if c[0] == "const" and c[1] in (0, 1, True, False):
            return bool(c[1]) != neg
        at = _atom(c)
        if at is None:
            return None
        return a[at] != neg
    for v, name in sorted(names.items()):
        if v not in arms:
            rep.violation(rule, "mode " + name, "no arm for this mode", host.loc())
            continue
        want = MODE_TABLE.get(name)
        bad = None
        n_rows = 0
        for combo in itertools.product([False, True], repeat=5):
            a = dict(zip(["sign>0", "sign<0", "tb>inc", "tb==inc", "odd"], combo))
            if a["sign>0"] == a["sign<0"] or (a["tb>inc"] and a["tb==inc"]):
                continue
            n_rows += 1
            b, hit, steps = arms[v], False, 0
            ret_val = None
            while steps < 200:
                steps += 1
                if b in add_blocks:
                    hit = True
                if b in fin:
                    break
                if by_return:
                    for si, st_ in enumerate(host.blocks[b]["st"]):
                        if st_["s"] == "=" and st_["lhs"] == {"l": 0}:
                            rv = st_["rv"]
                            if rv["k"] == "use":
                                ret_val = atom_value(sub(hT.operand(rv["a"], pos=(b, si))), a)
                            else:
                                ret_val = atom_value(sub(hT.local(0, 0, (b, si + 1))), a)
                            if ret_val is None:
                                bad = "unrecognised returned condition %s" % show(sub(hT.operand(rv["a"], pos=(b, si))) if rv["k"] == "use" else rv, maxd=3)
                    if bad:
                        break
                t = host.blocks[b]["term"]
                if by_return and t["t"] == "call" and t.get("dest") == {"l": 0}:
                    ct = ("call", t.get("path", ""), tuple(hT.at_call(b, t, i) for i in range(len(t.get("args", [])))))
                    ret_val = atom_value(sub(ct), a)
                    if ret_val is None:
                        bad = "unrecognised returned condition %s" % show(sub(ct), maxd=3)
                        break
                if t["t"] == "switch":
                    c = sub(hT.operand(t["op"], 0, (b, "term")))
                    val = atom_value(c, a)
                    if val is None:
                        bad = "unrecognised condition %s" % show(c, maxd=3)
                        break
                    tgt = None
                    for vv, tg in zip(t["vals"], t["targets"]):
                        if vv == (1 if val else 0):
                            tgt = tg
                    b = tgt if tgt is not None else t["otherwise"]
                else:
                    nx = mir.succs(t)
                    if not nx:
                        break
                    b = nx[0]
            if bad:
                break
            if by_return:
                if ret_val is None:
                    bad = "no returned value found on the path for %s" % {k: x for k, x in a.items() if x}
                    break
                hit = ret_val
            if hit != bool(want(a)):
                bad = "for %s the code %s quotient+=sign but the table says %s" % (
                    {k: x for k, x in a.items() if x}, "executes" if hit else "skips", bool(want(a)))
                break
        if bad:
            rep.violation(rule, "mode " + name, bad, host.loc())
        else:
            rep.ok(rule, "mode " + name, how="%d consistent truth assignments agree%s" % (n_rows, " (predicate %s)" % host.path.split("::")[-1] if by_return else ""))
    rep.floor(rule + " modes", len(names), 9)


def noninterference(rep, prog, rule="NONINTERFERENCE"):
    rep.rule(rule, "in DateTimeRound::round the span added to the date (the day carry) has no data dependence on the year of the date: "
                   "the property holds 'for every year including year 0 and negative years', so the carry cannot be a function of the year")
    f = prog.jiff("civil::datetime::DateTimeRound::round")
    T = Terms(f)
    n = 0
    from ..term import subst_params
    # the carry may be applied in a private helper of DateTimeRound (`carry_days(date, days)`): look one level down, with the
    # helper's parameters replaced by what round passes
    hosts = [(f, T, None)]
    for bi, t in mir.iter_calls(f):
        g = prog.fns.get("jiff::" + t.get("path", ""))
        if g is not None and g.path.startswith("civil::datetime::DateTimeRound::") and g.get("vis") != "pub" and g is not f:
            hosts.append((g, Terms(g), [T.at_call(bi, t, i) for i in range(len(t.get("args", [])))]))
    for (h, hT, args) in hosts:
        for bi, t in mir.iter_calls(h):
            if t.get("path", "").endswith("Date::checked_add"):
                n += 1
                span = hT.at_call(bi, t, 1)
                if args is not None:
                    span = subst_params(span, args)
                ycalls = sorted({x[1].split("::")[-1] for x in walk(span) if isinstance(x, tuple) and x and x[0] == "call"
                                 and re.search(r"::(year|year_ranged|era_year|iso_week_date)$", x[1])})
                if ycalls:
                    rep.violation(rule, "day carry", "the span passed to Date::checked_add depends on %s of the date: %s"
                                  % (ycalls, show(span, maxd=7)[:260]), "%s:%s" % (t["span"]["file"], t["span"]["line"]))
                else:
                    rep.ok(rule, "day carry", how=show(span, maxd=5)[:160])
    rep.floor(rule + " checked_add sites", n, 1)


def pipelines(rep, prog, rule="PIPELINE"):
    rep.rule(rule, "ZonedRound::round (sub-day) = OffsetConflict::PreferOffset.resolve(DateTimeRound::round(zdt.datetime())?, "
                   "zdt.offset(), zdt.time_zone())?.compatible(); round_days: start = zdt.start_of_day()?, end = (start + 1 day).start_of_day()? "
                   "(the first instant of the next civil date), day length = start.timestamp().until(end.timestamp()) in "
                   "nanoseconds, rounded = mode.round(zdt_ts - start_ts, day_length), result = (start_ts + rounded) checked, in zdt's zone")
    SELF, ZDT = ("param", 1, "self"), ("param", 2, "zdt")
    f = prog.jiff("zoned::ZonedRound::round")
    r = Terms(f).returns()
    want = C("AmbiguousZoned::compatible",
             TRY(C("OffsetConflict::resolve", V("mode"),
                   TRY(C("DateTimeRound::round", ("field", SELF, "round"), C("Zoned::datetime", ZDT))),
                   C("Zoned::offset", ZDT), C("Zoned::time_zone", ZDT))))
    main = [a for a in alts(r) if is_call(a, "AmbiguousZoned::compatible")]
    env = match(main[0], want) if len(main) == 1 else None
    pref = env is not None and "PreferOffset" in str(env.get("mode"))
    if env is not None and (pref or env.get("mode", ("",))[0] in ("agg", "const")):
        rep.ok(rule, "ZonedRound::round", how=show(main[0], maxd=6)[:200])
    else:
        rep.violation(rule, "ZonedRound::round", "sub-day rounding is %s" % (show(r, maxd=6)[:300]), f.loc())
    # the conflict mode must be the PreferOffset variant
    agg = [s["rv"] for b in f.blocks for s in b["st"] if s["s"] == "=" and s["rv"]["k"] == "agg" and s["rv"].get("adt", "").endswith("OffsetConflict")]
    if agg and all(a["variant"] == "PreferOffset" for a in agg):
        rep.ok(rule, "ZonedRound::round conflict mode", how="PreferOffset")
    else:
        rep.violation(rule, "ZonedRound::round conflict mode", "resolve is called with %s" % [a["variant"] for a in agg], f.loc())
    f = prog.jiff("zoned::ZonedRound::round_days")
    T = Terms(f)
    r = T.returns()
    # part of the computation (the day length, say) may live in a private helper of ZonedRound: look through one level
    from ..term import inline_helpers
    r = inline_helpers(r, prog, depth=1, pred=lambda g_: g_.path.startswith("zoned::ZonedRound::") and g_.get("vis") != "pub"
                       and g_.path.rsplit("::", 1)[-1] not in ("round", "round_days"))
    oks = ok_payloads(r)
    start = TRY(C("Zoned::start_of_day", ZDT))
    one_day = C("Span::days_ranged", C("Span::new"), V("one"))
    # the end of the civil day is the START OF THE NEXT civil day, not "start + 1 day": when midnight falls in a gap the
    # day starts at 01:00, and 01:00 on the next date is neither the start of that date nor 23 hours away
    end = TRY(C("Zoned::start_of_day", TRY(C("Zoned::checked_add", start, one_day))))
    s_ns = C("Timestamp::as_nanosecond_ranged", C("Zoned::timestamp", start))
    want = C("Timestamp::to_zoned",
             C("Timestamp::from_nanosecond_ranged", TRY(C("try_checked_add", s_ns, V("what"), V("rounded")))),
             C("Zoned::time_zone", ZDT))
    env = match(oks[0], want) if len(oks) == 1 else None
    ok = False
    detail = ""
    if env is not None:
        rounded = env["rounded"]
        if is_call(rounded, "RoundMode::round") and len(rounded[2]) == 3:
            progress, daylen = rounded[2][1], rounded[2][2]
            p_ok = any(match(progress, ("call", V("sub"), (C("Timestamp::as_nanosecond_ranged", C("Zoned::timestamp", ZDT)), s_ns))) is not None
                       for _ in [0]) and "Sub" in progress[1]
            until = [x for x in walk(daylen) if is_call(x, "Timestamp::until")]
            d_ok = one_ok = False
            for u in until:
                if match(u[2][0], C("Zoned::timestamp", start)) is None:
                    continue
                for z in walk(u[2][1]):
                    e2_ = match(z, C("Zoned::timestamp", end), {})
                    if e2_ is not None:
                        d_ok = True
                        one_ok = one_ok or any(x == ("const", 1) for x in walk(e2_.get("one")))
            ok = p_ok and d_ok and one_ok
            detail = "progress ok=%s, day length from start..start_of_day(start + 1 day)=%s, span of one day=%s" % (p_ok, d_ok, one_ok)
        else:
            detail = "rounded is %s" % show(rounded, maxd=3)
    else:
        detail = "result is %s" % (show(oks[0], maxd=7)[:300] if oks else "absent")
    if ok:
        rep.ok(rule, "ZonedRound::round_days", how=detail)
    else:
        rep.violation(rule, "ZonedRound::round_days", "day rounding is not the documented composition: " + detail, f.loc())


def increment_validated(rep, prog, rule="INCREMENT-VALIDATED"):
    """increments that do not evenly divide the next larger unit are rejected - by every rounding entry point"""
    rep.rule(rule, "in every `<T>Round::round` (Time, DateTime, Timestamp, Zoned incl. round_days, SignedDuration; Offset delegates to "
                   "SignedDuration) each call of the rounding kernel (RoundMode::round_by_unit_in_nanoseconds / RoundMode::round) is "
                   "dominated by a call of one of the util::round::increment::for_* validators, which reject increments that are not "
                   "positive proper divisors of the next larger unit (INCREMENT-TABLE checks the validators' tables)")
    n = 0
    for f in sorted(prog.fns.values(), key=lambda f: f.key):
        if f.crate != "jiff" or f.is_closure:
            continue
        if not (re.search(r"(TimeRound|DateTimeRound|TimestampRound|ZonedRound|SignedDurationRound|OffsetRound)::(round|round_days)$", f.path)):
            continue
        cfg = mir.CFG(f)
        kern = [(bi, t) for bi, t in mir.iter_calls(f) if re.search(r"RoundMode::(round_by_unit_in_nanoseconds|round)$", t.get("path", ""))]
        vals = [bi for bi, t in mir.iter_calls(f) if re.search(r"util::round::increment::for_\w+$", t.get("path", ""))]
        if not kern:
            continue
        n += 1
        key = "%s::%s" % (f.path.split("::")[-2], f.path.split("::")[-1])
        bad = [t["span"]["line"] for bi, t in kern if not any(cfg.dominates(v, bi) for v in vals)]
        if bad:
            rep.violation(rule, key, "the rounding kernel is called at line(s) %s without a preceding increment::for_* validation: "
                          "increments that do not divide the next larger unit are accepted" % bad, f.loc())
        else:
            rep.ok(rule, key, how="%d kernel call(s), each after a validator" % len(kern), loc=f.loc())
    rep.floor(rule + " entry points", n, 5)
