"""C12 - Span and SignedDuration as faithful value types (narrow): limits enforced by checked constructors of the field's own
type, one sign field with known writers, sign checks before unsigned conversions, no panics in the fallible SignedDuration API."""
from ..rules_r5 import mul_factor
from ..rules_r5 import span_carry
import os
from .. import mir
from ..term import Terms, show, walk, is_call, alts, ok_payloads
from ..guards import guards, strip_not
from ..rules_e1 import run_e1
from ..rules_e2 import run_e2
from ..rules_contract import run_contracts
from ..rules_dep import run_dep, run_err_both, run_eq_hash
from ..rules_signpair import run_partsign, run_signpair, run_loneabs, run_truncsplit, run_remcarry, run_negmagnitude

UNITS = ["years", "months", "weeks", "days", "hours", "minutes", "seconds", "milliseconds", "microseconds", "nanoseconds"]
SELF = ("param", 1, "self")


def run(ctx, rep):
    run_truncsplit(ctx, rep, floor=1)
    run_remcarry(ctx, rep)
    run_negmagnitude(ctx, rep)
    run_eq_hash(ctx, rep)
    run_dep(ctx, rep, "C12")
    run_err_both(ctx, rep, "C12")
    run_signpair(ctx, rep)
    run_partsign(ctx, rep)
    from ..rules_parse import accumulate
    accumulate(rep, ctx.prog("Q"))
    from ..rules_ranged import ranged_checked
    ranged_checked(ctx, rep)
    run_loneabs(ctx, rep)
    prog = ctx.prog("Q")
    span_carry(rep, prog)
    mul_factor(rep, prog)
    rep.notes.append("Does not decide equality with 128-bit reference arithmetic or float conversions.")
    setters(rep, prog)
    sign_writers(rep, prog)
    sign_guard(rep, prog)

    def roots(E):
        out = []
        for k in E.public_result_roots():
            f = E.prog.fns[k]
            if f.file in ("src/signed_duration.rs", "src/duration.rs") or ("span::Span" in f.path and f.path.split("::")[-1].startswith("try_")):
                out.append(k)
        for k, f in E.prog.fns.items():
            if f.crate == "jiff" and not f.is_closure and f.get("reachable") and f.file == "src/signed_duration.rs" and \
                    (f.get("ret", "").startswith("core::option::Option<") or f.path.split("::")[-1].startswith(("checked_", "try_"))):
                out.append(k)
        return sorted(set(out))
    run_e1(ctx, rep, roots, min_roots=20, min_sites=150)
    # |nanos| < 1s is established at every construction of a SignedDuration (seconds and nanoseconds of one duration)
    run_contracts(ctx, rep, select=lambda f: f.file in ("src/signed_duration.rs", "src/duration.rs", "src/span.rs"), floor=10)
    if os.path.exists(os.path.join(os.path.dirname(__file__), "..", "..", "reviewed", "ranged.tsv")):
        run_e2(ctx, rep, select=lambda f: f.file in ("src/signed_duration.rs", "src/duration.rs") or
               (f.file == "src/span.rs" and f.path.startswith("span::Span::")), floor=100)


def setters(rep, prog, rule="SETTER-TABLE"):
    rep.rule(rule, "for each of the ten units: Span::try_<unit> stores the Ok result of a checked conversion (try_rinto) into the "
                   "parameter type of <unit>_ranged, which is the declared type of the field of the same name; <unit>_ranged writes "
                   "abs(argument) into exactly that field, copies every other unit field from self and derives the sign with resign()")
    adt = prog.adts.get("jiff::span::Span")
    ftys = {x["name"]: x["ty"] for x in adt["variants"][0]["fields"]} if adt else {}
    for u in UNITS:
        fr = prog.fns.get("jiff::span::Span::%s_ranged" % u)
        ft = prog.fns.get("jiff::span::Span::try_%s_ranged" % u) or prog.fns.get("jiff::span::Span::try_%s" % u)
        if fr is None or ft is None:
            rep.anchor_missing("Span::%s_ranged / try_%s" % (u, u))
            continue
        # type agreement
        pty = fr["params"][1] if len(fr["params"]) > 1 else None
        ty_ok = pty == ftys.get(u)
        # the ranged setter's aggregate
        agg = None
        for x in walk(Terms(fr).returns()):
            if isinstance(x, tuple) and x and x[0] == "agg" and x[1] == "span::Span":
                agg = dict(x[3])
        arg = ("param", 2, fr["locals"][2].get("n") or "")
        shape = False
        if agg is not None:
            shape = is_call(agg.get(u), "::abs") and agg[u][2][0] == arg and \
                all(agg.get(o) == ("field", SELF, o) for o in UNITS if o != u)
        resign = any(is_call(x, "Span::resign") for x in walk(Terms(fr).returns()))
        # the fallible setter
        rt = Terms(ft).returns()
        oks = ok_payloads(rt)
        chk = False
        if len(oks) == 1 and is_call(oks[0], "Span::%s_ranged" % u):
            v = oks[0][2][1]
            if is_call(v, "::rinto") or is_call(v, "::rfrom"):
                v = v[2][0]      # a (bounds-preserving) width change of the checked value; E2's O-NARROW covers it
            chk = v[0] == "try" and (is_call(v[1], "::try_rinto") or is_call(v[1], "::try_new") or is_call(v[1], "::try_rfrom"))
        key = "Span %s" % u
        if ty_ok and shape and resign and chk:
            rep.ok(rule, key, how="try_rinto -> %s_ranged: %s = abs(arg), sign = resign(..)" % (u, u))
        else:
            rep.violation(rule, key, "setter contract broken: parameter type equals field type: %s; writes abs(arg) into its own field and "
                          "copies the others: %s; sign via resign: %s; try_ variant goes through a checked conversion: %s"
                          % (ty_ok, shape, resign, chk), fr.loc())


def sign_writers(rep, prog, rule="SIGN-WRITERS"):
    rep.rule(rule, "the writers of Span.sign are exactly: the ten <unit>_ranged setters (resign), only_calendar/only_time (reset when "
                   "nothing remains), negate (-self.sign), abs (constant 1 when non-zero) and Default (0): a span stores magnitudes "
                   "plus one sign, so all units share one sign by representation")
    allowed_store = {"span::Span::%s_ranged" % u for u in UNITS} | {"span::Span::only_calendar", "span::Span::only_time"}
    allowed_agg = allowed_store | {"span::Span::negate", "span::Span::abs", "<span::Span as core::default::Default>::default"}
    stores, aggs = set(), set()
    for f in prog.fns.values():
        if f.crate != "jiff":
            continue
        for b in f.blocks:
            for s in b["st"]:
                if s["s"] != "=":
                    continue
                ps = s["lhs"].get("p") or []
                if ps and isinstance(ps[-1], dict) and ps[-1].get("adt") == "span::Span" and ps[-1].get("n") == "sign":
                    stores.add(f.path)
                if s["rv"]["k"] == "agg" and s["rv"].get("adt") == "span::Span":
                    aggs.add(f.path)
    extra = (stores - allowed_store) | (aggs - allowed_agg)
    if extra:
        rep.violation(rule, "writers", "Span.sign is written (or a Span assembled) outside the enumerated functions: %s" % sorted(extra), "src/span.rs")
    else:
        rep.ok(rule, "writers", how="%d storing fns, %d aggregate fns" % (len(stores), len(aggs)))
    rep.floor(rule + " writers", len(stores | aggs), 14)
    f = prog.jiff("span::Span::negate")
    r = Terms(f).returns()
    ok = r[0] == "agg" and is_call(dict(r[3]).get("sign"), "Neg>::neg") and dict(r[3])["sign"][2][0] == ("field", SELF, "sign") and \
        all(dict(r[3]).get(o) == ("field", SELF, o) for o in UNITS)
    if ok:
        rep.ok(rule, "negate", how="sign = -self.sign, magnitudes copied")
    else:
        rep.violation(rule, "negate", "negate is %s" % show(r, maxd=4)[:200], f.loc())


def sign_guard(rep, prog, rule="SIGN-GUARD"):
    rep.rule(rule, "TryFrom<SignedDuration> for std Duration: every Ok return is reached only when SignedDuration::is_negative(sd) is false "
                   "(a negative duration is unrepresentable; dropping the sign of a component is not a conversion)")
    cands = [f for f in prog.fns.values() if f.crate == "jiff" and "TryFrom<signed_duration::SignedDuration> for core::time::Duration" in f.path
             and f.path.endswith("try_from")]
    if not cands:
        rep.anchor_missing("TryFrom<SignedDuration> for Duration")
        return
    f = cands[0]
    T = Terms(f)
    cfg = mir.CFG(f)
    n = 0
    for bi, b in enumerate(f.blocks):
        for s in b["st"]:
            if s["s"] == "=" and s["rv"]["k"] == "agg" and s["rv"].get("variant") == "Ok" and s["rv"].get("adt", "").endswith("result::Result") and s["lhs"] == {"l": 0}:
                n += 1
                gs = [strip_not(c, t) for (c, t, sb) in guards(f, cfg, T, bi)]
                ok = any(is_call(c, "SignedDuration::is_negative") and t is False for (c, t) in gs)
                if ok:
                    rep.ok(rule, "Ok#%d" % n, how="guarded by !sd.is_negative()")
                else:
                    rep.violation(rule, "Ok#%d" % n, "an Ok(Duration) is returned without the whole-value sign check (guards: %s)"
                                  % [(show(c, maxd=2), t) for (c, t) in gs][:4], "%s:%s" % (f.file, s.get("ln")))
    rep.floor(rule + " Ok returns", n, 1)
