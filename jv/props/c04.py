"""C04 - civil-to-instant resolution: gap/fold bookkeeping and strategies are the documented tables; lookups cannot panic."""
from .. import mir
from ..term import Terms, show, alts, is_call, walk
from ..guards import guards, strip_not
from ..rules_e1 import run_e1, by_names
from ..rules_shape import floor_a
from ..rules_dep import run_dep
from ..rules_tz import handover_civil

AT = "tz::ambiguous::AmbiguousTimestamp"
AZ = "tz::ambiguous::AmbiguousZoned"
STRATEGY = {
    "compatible": {("Gap", "before"), ("Fold", "before"), ("Unambiguous", "offset")},
    "earlier": {("Gap", "after"), ("Fold", "before"), ("Unambiguous", "offset")},
    "later": {("Gap", "before"), ("Fold", "after"), ("Unambiguous", "offset")},
    "unambiguous": {("Unambiguous", "offset")},
}
DISAMB = {"Compatible": "compatible", "Earlier": "earlier", "Later": "later", "Reject": "unambiguous"}
ROOTS = ["tz::timezone::TimeZone::to_ambiguous_timestamp", "tz::timezone::TimeZone::to_ambiguous_zoned",
         "tz::timezone::TimeZone::into_ambiguous_zoned", "tz::timezone::TimeZone::to_timestamp", "tz::timezone::TimeZone::to_zoned",
         "civil::datetime::DateTime::to_zoned", "civil::datetime::DateTime::in_tz",
         AT + "::compatible", AT + "::earlier", AT + "::later", AT + "::unambiguous", AT + "::disambiguate",
         AZ + "::compatible", AZ + "::earlier", AZ + "::later", AZ + "::unambiguous", AZ + "::disambiguate"]


def offset_choices(t):
    """{(variant, field)} of `AmbiguousTimestamp::offset(self)` selected by a term"""
    out = set()
    for a in alts(t):
        if a[0] == "field" and a[1][0] == "variant" and is_call(a[1][1], AT + "::offset"):
            out.add((a[1][2], a[2]))
        else:
            out.add(("?", show(a, maxd=2)))
    return out


def enum_dispatch(prog, f, adt):
    """variant name -> first callee for the SwitchInt on the discriminant of an `adt` value"""
    a = prog.adts.get("jiff::" + adt)
    if a is None:
        return None
    names = {int(v["discr"]): v["name"] for v in a["variants"]}
    T = Terms(f)
    for b in f.blocks:
        t = b["term"]
        if t["t"] != "switch":
            continue
        d = T.operand(t["op"])
        if d[0] != "disc":
            continue
        tab = {}
        pairs = list(zip(t["vals"], t["targets"]))
        missing = set(names) - set(t["vals"])
        if len(missing) == 1:
            pairs.append((missing.pop(), t["otherwise"]))
        for v, tg in pairs:
            x, hops = tg, 0
            while f.blocks[x]["term"]["t"] == "goto" and hops < 6:
                x = f.blocks[x]["term"]["to"]; hops += 1
            tt = f.blocks[x]["term"]
            tab[names.get(v, str(v))] = tt.get("path", "?")
        return tab
    return None


def run(ctx, rep):
    run_dep(ctx, rep, "C04")
    prog = ctx.prog("Q")
    rep.notes.append("Does not decide that the precomputed wall-clock table agrees with the instant->civil mapping of every zone.")
    strategy_table(rep, prog)
    kind_table(rep, prog)
    lookup_table_tzif(rep, prog)
    lookup_table_posix(rep, prog)
    handover_civil(rep, prog)
    run_e1(ctx, rep, lambda E: by_names(E, ROOTS), min_roots=12, min_sites=150)
    floor_a(ctx, rep)


def strategy_table(rep, prog, rule="STRATEGY-TABLE"):
    rep.rule(rule, "which AmbiguousOffset field reaches Offset::to_timestamp in each strategy: compatible Gap->before Fold->before; "
                   "earlier Gap->after Fold->before; later Gap->before Fold->after; unambiguous errors on Gap/Fold; Unambiguous->offset "
                   "everywhere; the AmbiguousZoned twins delegate to the same-named method on self.ts and finish with to_zoned(ts, self.tz); "
                   "disambiguate maps each Disambiguation variant to the like-named method (Reject->unambiguous)")
    for name, want in STRATEGY.items():
        f = prog.jiff(AT + "::" + name)
        r = Terms(f).returns()
        calls = [a for a in alts(r) if is_call(a, "Offset::to_timestamp")]
        others = [a for a in alts(r) if not is_call(a, "Offset::to_timestamp")]
        got = set()
        dt_ok = True
        for c in calls:
            got |= offset_choices(c[2][0])
            dt_ok = dt_ok and c[2][1] == ("field", ("param", 1, "self"), "dt")
        errs_ok = all(a[0] == "agg" and a[2] == "Err" for a in others)
        if got == want and dt_ok and errs_ok and (name != "unambiguous" or len(others) == 2):
            rep.ok(rule, "AmbiguousTimestamp::" + name, how=str(sorted(got)))
        else:
            rep.violation(rule, "AmbiguousTimestamp::" + name,
                          "selects %s (same dt: %s, other returns are errors: %s); the documented table is %s"
                          % (sorted(got), dt_ok, errs_ok, sorted(want)), f.loc())
        g = prog.jiff(AZ + "::" + name)
        r = Terms(g).returns()
        oks = [dict(a[3])["0"] for a in alts(r) if a[0] == "agg" and a[2] == "Ok"]
        good = False
        if len(oks) == 1 and is_call(oks[0], "Timestamp::to_zoned"):
            ts, tz = oks[0][2]
            good = (ts[0] == "try" and is_call(ts[1], AT + "::" + name) and ts[1][2][0] == ("field", ("param", 1, "self"), "ts")
                    and tz == ("field", ("param", 1, "self"), "tz"))
        if good:
            rep.ok(rule, "AmbiguousZoned::" + name, how="to_zoned(self.ts.%s()?, self.tz)" % name)
        else:
            rep.violation(rule, "AmbiguousZoned::" + name, "twin does not delegate to the same-named strategy on self.ts: %s" % show(r, maxd=5), g.loc())
    for ty in (AT, AZ):
        f = prog.jiff(ty + "::disambiguate")
        tab = enum_dispatch(prog, f, "tz::ambiguous::Disambiguation")
        want = {k: ty + "::" + v for k, v in DISAMB.items()}
        if tab == want:
            rep.ok(rule, ty.split("::")[-1] + "::disambiguate", how=str({k: v.split("::")[-1] for k, v in tab.items()}))
        else:
            rep.violation(rule, ty.split("::")[-1] + "::disambiguate", "dispatch is %s, expected %s" % (tab, want), f.loc())


def _stores_through_index_mut(f, T):
    """[(block, vec field name, sub-field or None, value term)] for `vec[i] = v` / `vec[i].f = v`"""
    out = []
    idx_dest = {}
    for bi, t in mir.iter_calls(f):
        if t.get("path", "").endswith("::index_mut") and "dest" in t and "p" not in t["dest"]:
            base = T.operand(t["args"][0])
            name = base[2] if base[0] == "field" else "?"
            idx_dest[t["dest"]["l"]] = (name, T.operand(t["args"][1]))
    for bi, b in enumerate(f.blocks):
        for s in b["st"]:
            if s["s"] != "=":
                continue
            ps = s["lhs"].get("p") or []
            l = s["lhs"]["l"]
            src = T.du.resolve_copy({"l": l, "o": "cp"})
            l0 = src.get("l", l)
            if ps and ps[0] == "*" and (l in idx_dest or l0 in idx_dest):
                name, ix = idx_dest.get(l) or idx_dest.get(l0)
                sub = ps[1].get("n") if len(ps) > 1 and isinstance(ps[1], dict) else None
                out.append((bi, name, sub, T.rvalue(s["rv"]), ix))
    return out


def kind_table(rep, prog, rule="KIND-TABLE"):
    rep.rule(rule, "in TzifOwned::add_civil_datetimes_to_transitions: prev_offset == offset -> kind Unambiguous; prev_offset < offset -> "
                   "kind Gap with civil_starts from prev_offset and civil_ends from offset; otherwise kind Fold with civil_starts from "
                   "offset and civil_ends from prev_offset (both copies)")
    for crate in ("jiff", "jiff_static"):
        cands = [f for f in prog.fns.values() if f.crate == crate and f.path.endswith(">>::add_civil_datetimes_to_transitions")]
        if not cands:
            if crate in prog.crates:
                rep.anchor_missing(crate + " add_civil_datetimes_to_transitions")
            continue
        f = cands[0]
        T = Terms(f)
        cfg = mir.CFG(f)
        stores = _stores_through_index_mut(f, T)
        def is_prev(t):
            return any(is_call(x, "saturating_sub") for x in walk(t))
        def which(t):
            # to_datetime(timestamp, X): classify X as prev/this offset
            if not is_call(t, "to_datetime"):
                return "?"
            return "prev" if is_prev(t[2][1]) else "this"
        arms = {}
        for (bi, name, sub, val, ix) in stores:
            gs = [strip_not(c, t) for (c, t, sb) in guards(f, cfg, T, bi)]
            eq = [t for (c, t) in gs if c[0] == "bin" and c[1] == "Eq" and isinstance(t, bool)]
            lt = [(c, t) for (c, t) in gs if c[0] == "bin" and c[1] in ("Lt", "Gt") and isinstance(t, bool)]
            if eq and eq[0] is True:
                arm = "eq"
            elif lt:
                c, t = lt[0]
                a_prev = is_prev(c[2])
                less = (c[1] == "Lt") == a_prev      # condition reads prev < this
                arm = "prev<this" if (t == less) else "prev>this"
            else:
                arm = "?"
            d = arms.setdefault(arm, {})
            if name == "infos" and sub == "kind":
                d["kind"] = val[2] if val[0] == "agg" else show(val)
            elif name in ("civil_starts", "civil_ends"):
                d[name] = which(val)
        want = {"eq": {"kind": "Unambiguous"},
                "prev<this": {"kind": "Gap", "civil_starts": "prev", "civil_ends": "this"},
                "prev>this": {"kind": "Fold", "civil_starts": "this", "civil_ends": "prev"}}
        ok = True
        for arm, w in want.items():
            got = arms.get(arm, {})
            for k, v in w.items():
                if got.get(k) != v:
                    ok = False
        # the eq arm's start may use either offset (they are equal)
        if ok and set(arms) <= set(want):
            rep.ok(rule, crate, how=str(arms))
        else:
            rep.violation(rule, crate, "gap/fold bookkeeping is %s, documented table is %s" % (arms, want), f.loc())


def lookup_table_tzif(rep, prog, rule="LOOKUP-TABLE"):
    rep.rule(rule, "tz::tzif::Tzif::to_ambiguous_kind returns, under the Gap (Fold) arm of transition_kind, the AmbiguousOffset variant of "
                   "the same name with before <- type of transition i-1 and after <- type of transition i; "
                   "shared::posix::PosixTimeZone::to_ambiguous_kind returns at the DST start boundary before=std/after=dst and at "
                   "the end boundary before=dst/after=std, a Gap exactly when the clock jumps forward at that boundary (sign of the "
                   "offset difference), and unambiguous answers use the DST offset exactly when in_dst holds")
    f = prog.jiff("tz::tzif::Tzif::<STR, ABBREV, TYPES, TIMESTAMPS, STARTS, ENDS, INFOS>::to_ambiguous_kind")
    T = Terms(f)
    cfg = mir.CFG(f)
    kind_adt = prog.adts.get("jiff::shared::TzifTransitionKind")
    names = {int(v["discr"]): v["name"] for v in kind_adt["variants"]} if kind_adt else {}
    n = 0
    for bi, b in enumerate(f.blocks):
        for s in b["st"]:
            if s["s"] == "=" and s["rv"]["k"] == "agg" and s["rv"].get("adt") == "tz::ambiguous::AmbiguousOffset" and s["rv"]["variant"] in ("Gap", "Fold"):
                n += 1
                var = s["rv"]["variant"]
                d = dict(zip(s["rv"]["fields"], [T.operand(o) for o in s["rv"]["ops"]]))
                def idx(t):
                    # from_seconds_unchecked(local_time_type(self, IDX).offset)
                    if is_call(t, "Offset::from_seconds_unchecked") and t[2][0][0] == "field" and is_call(t[2][0][1], "::local_time_type"):
                        return t[2][0][1][2][1]
                    return None
                ib, ia = idx(d.get("before")), idx(d.get("after"))
                shape = (ib is not None and ia is not None and (is_call(ib, "::unwrap") or is_call(ib, "::expect"))
                         and is_call(ib[2][0], "::checked_sub") and ib[2][0][2] == (ia, ("const", 1)))
                arm = None
                for (c, t, sb) in guards(f, cfg, T, bi):
                    if c[0] == "disc" and is_call(c[1], "::transition_kind") and isinstance(t, tuple) and t[0] == "eq" and len(t[1]) == 1:
                        arm = names.get(t[1][0])
                key = "tzif %s#%d" % (var, n)
                if shape and arm == var:
                    rep.ok(rule, key, how="under kind==%s: before=type[i-1], after=type[i]" % arm)
                else:
                    rep.violation(rule, key, "AmbiguousOffset::%s built under transition kind %s with before=%s after=%s"
                                  % (var, arm, show(d.get("before"), maxd=5), show(d.get("after"), maxd=5)), "src/tz/tzif.rs:%s" % s.get("ln"))
    rep.floor(rule + " tzif aggregates", n, 2)
    # every answer that is not taken from the matched transition's own gap/fold window - the delegation to the POSIX
    # rule and the unambiguous answer - comes after the switch over the matched transition's kind, and that switch
    # has explicit arms for Gap and for Fold (a civil datetime inside the window of the last transition must not reach
    # the POSIX rule, which knows nothing about that transition)
    kind_sw = []
    for bi, b in enumerate(f.blocks):
        t = b["term"]
        if t["t"] == "switch":
            c = T.operand(t["op"], 0, (bi, "term"))
            if c[0] == "disc" and is_call(c[1], "::transition_kind"):
                handled = {names.get(v) for v in t["vals"]}
                if {"Gap", "Fold"} <= handled:
                    kind_sw.append(bi)
    m = 0
    for bi, t in mir.iter_calls(f):
        p_ = t.get("path", "")
        if p_.endswith("::to_ambiguous_kind") and "posix" in p_.lower():
            m += 1
            key = "tzif posix delegation#%d" % m
            loc = "src/tz/tzif.rs:%s" % t["span"]["line"]
            if any(cfg.dominates(sb, bi) for sb in kind_sw):
                rep.ok(rule, key, how="after the Gap/Fold switch over the matched transition's kind", loc=loc)
            else:
                rep.violation(rule, key, "the POSIX rule is consulted on a path that does not pass the switch over the matched "
                              "transition's kind with arms for both Gap and Fold: a datetime inside that transition's own gap/fold "
                              "window is answered by the rule", loc)
    rep.floor(rule + " tzif posix delegations", m, 1)


def lookup_table_posix(rep, prog, rule="LOOKUP-TABLE"):
    for crate in ("jiff", "jiff_static"):
        cands = [x for x in prog.fns.values() if x.crate == crate and x.path.endswith("::to_ambiguous_kind") and "shared::posix" in x.path]
        if not cands:
            if crate in prog.crates:
                rep.anchor_missing(crate + " posix to_ambiguous_kind")
            continue
        f = cands[0]
        T = Terms(f)
        cfg = mir.CFG(f)
        n = 0
        def cls(t):
            if is_call(t, "to_ioffset"):
                a = t[2][0]
                if a[0] == "field" and a[2] == "std_offset":
                    return "std"
                if is_call(a, "::offset"):
                    return "dst"
            return "?"
        for bi, b in enumerate(f.blocks):
            for s in b["st"]:
                if not (s["s"] == "=" and s["rv"]["k"] == "agg" and s["rv"].get("adt", "").endswith("IAmbiguousOffset")):
                    continue
                n += 1
                var = s["rv"]["variant"]
                d = dict(zip(s["rv"]["fields"], [cls(T.operand(o)) for o in s["rv"]["ops"]]))
                gs = [strip_not(c, t) for (c, t, sb) in guards(f, cfg, T, bi)]
                neg = [t for (c, t) in gs if is_call(c, "::is_negative")]
                in_dst = [t for (c, t) in gs if is_call(c, "::in_dst")]
                bounds = set()
                for (c, t) in gs[:2]:
                    if t is True and c[0] == "call" and c[1].split("::")[-1] in ("le", "lt", "ge", "gt"):
                        for a in c[2]:
                            if a[0] == "field" and a[2] in ("start", "end"):
                                bounds.add(a[2])
                key = "%s posix %s#%d" % (crate, var, n)
                loc = "%s:%s" % (f.file, s.get("ln"))
                if var in ("Gap", "Fold"):
                    if len(bounds) != 1 or len(neg) != 1:
                        rep.violation(rule, key, "cannot attribute the %s to one DST boundary and one sign of the offset difference "
                                      "(boundaries %s, is_negative guards %s)" % (var, sorted(bounds), neg), loc)
                        continue
                    bnd = bounds.pop()
                    forward = (bnd == "start") != neg[0]          # clock jumps forward
                    want_var = "Gap" if forward else "Fold"
                    want = {"before": "std", "after": "dst"} if bnd == "start" else {"before": "dst", "after": "std"}
                    if var == want_var and d == want:
                        rep.ok(rule, key, how="%s boundary, diff %s: %s %s" % (bnd, "<0" if neg[0] else ">0", var, d))
                    else:
                        rep.violation(rule, key, "at the DST %s boundary with offset difference %s the code returns %s%s; the table says %s%s"
                                      % (bnd, "<0" if neg[0] else ">0", var, d, want_var, want), loc)
                else:
                    want = "dst" if (in_dst and in_dst[0] is True) else "std"
                    if d.get("offset") == want:
                        rep.ok(rule, key, how="unambiguous -> %s (in_dst guards %s)" % (want, in_dst))
                    else:
                        rep.violation(rule, key, "unambiguous answer uses the %s offset although in_dst guards are %s" % (d.get("offset"), in_dst), loc)
        rep.floor(rule + " posix aggregates " + crate, n, 10)
