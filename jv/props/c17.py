"""C17 - parsers are total (panic-freedom clause) and lookups on parsed zones cannot panic."""
from ..rules_r5 import byte_guard
from ..rules_r5 import lookahead_agree
from ..rules_e1 import run_e1, by_names
from .. import mir
from ..rules_tables import bounded_recursion

LOOKUPS = ["tz::timezone::TimeZone::to_offset", "tz::timezone::TimeZone::to_offset_info", "tz::timezone::TimeZone::to_datetime",
           "tz::timezone::TimeZone::to_ambiguous_timestamp", "tz::timezone::TimeZone::to_ambiguous_zoned",
           "tz::timezone::TimeZone::into_ambiguous_zoned", "tz::timezone::TimeZone::to_fixed_offset",
           "tz::timezone::TimeZone::previous_transition", "tz::timezone::TimeZone::next_transition",
           "tz::timezone::TimeZone::preceding", "tz::timezone::TimeZone::following", "tz::timezone::TimeZone::iana_name",
           "<tz::timezone::TimeZonePrecedingTransitions<'t> as core::iter::Iterator>::next",
           "<tz::timezone::TimeZoneFollowingTransitions<'t> as core::iter::Iterator>::next",
           "timestamp::Timestamp::to_zoned", "zoned::Zoned::new"]


def parse_roots(E):
    out = []
    for k in E.public_result_roots():
        f = E.prog.fns[k]
        p = f.path
        if f.file.startswith("src/fmt/") or p.endswith("::from_str") or "strptime" in p or \
           p in ("tz::timezone::TimeZone::tzif", "tz::timezone::TimeZone::posix", "tz::timezone::TimeZone::get",
                 "tz::db::TimeZoneDatabase::get", "tz::db::TimeZoneDatabase::from_dir", "tz::db::TimeZoneDatabase::from_concatenated_path") or \
           "TryFrom<&" in p or "serde::Deserialize" in p:
            out.append(k)
    return out


def run(ctx, rep):
    byte_guard(rep, ctx.prog("Q"))
    lookahead_agree(rep, ctx.prog("Q"))
    rep.notes.append("Does not decide termination, work proportional to input, or re-parse equality.")
    run_e1(ctx, rep, lambda E: sorted(set(parse_roots(E)) | set(by_names(E, LOOKUPS))), rule="E1", min_roots=60, min_sites=600)
    validated_field(ctx, rep)
    bounded_recursion(ctx, rep)
    from ..rules_contract import transient_callers
    transient_callers(rep, ctx.prog("Q"))
    # the one structural part of "a parsed value prints and re-parses to an equal value" that is visible in the parsers
    from ..rules_parse import sign_distrib, prefix_remainder
    sign_distrib(rep, ctx.prog("Q"))
    prefix_remainder(rep, ctx.prog("Q"))
    from ..rules_tz import iter_strict
    iter_strict(rep, ctx.prog("Q"))


def validated_field(ctx, rep, rule="VALIDATED-FIELD"):
    rep.rule(rule, "every construction of a shared::TzifLocalTimeType stores an offset inside the SpanZoneOffset range (interval "
                   "analysis, both copies of the shared code): tz::tzif turns it into an Offset with from_seconds_unchecked")
    prog = ctx.prog("Q")
    A = ctx.auto("Q")
    n = 0
    lo, hi = -93599, 93599
    for f in prog.fns.values():
        if f.crate not in ("jiff", "jiff_static"):
            continue
        an = None
        for bi, b in enumerate(f.blocks):
            for si, s in enumerate(b["st"]):
                if s["s"] == "=" and s["rv"]["k"] == "agg" and s["rv"].get("adt") == "shared::TzifLocalTimeType":
                    n += 1
                    an = an or A.analyzer(f)
                    st = an.state_at(bi, si)
                    idx = s["rv"]["fields"].index("offset")
                    key = "%s::%s#%d" % (f.crate, f.path.split(">>::")[-1], n)
                    if st is None:
                        rep.ok(rule, key, how="infeasible block", nontrivial=False)
                        continue
                    v = an.read_op(st, s["rv"]["ops"][idx])
                    if v.iv is not None and lo <= v.iv[0] and v.iv[1] <= hi:
                        rep.ok(rule, key, how="offset in %s" % (v.iv,))
                    else:
                        rep.violation(rule, key, "TzifLocalTimeType built with offset %s not shown inside %d..=%d (line %s)"
                                      % (v.iv, lo, hi, s.get("ln")), "%s:%s" % (f.file, s.get("ln")))
    rep.floor(rule + " aggregates", n, 4)


