"""C02 - instant <-> civil datetime under a fixed offset (narrow)."""
from ..rules_shape import floor_a, const_agree, req_dep, split_pipeline
from ..rules_dep import run_dep, run_err_both
from ..rules_signpair import run_signpair, run_minpair
from ..rules_contract import public_precond
from ..rules_tz import floor_print


def run(ctx, rep):
    run_dep(ctx, rep, "C02")
    run_err_both(ctx, rep, "C02")
    run_signpair(ctx, rep)
    run_minpair(ctx, rep)
    prog = ctx.prog("Q")
    from ..rules_contract import transient_callers
    transient_callers(rep, prog)
    rep.notes.append("Does not decide exactness of the decomposition for all values.")
    floor_a(ctx, rep)
    req_dep(rep, prog)
    split_pipeline(rep, prog)
    const_agree(rep, prog)
    public_precond(ctx, rep)
    floor_print(rep, prog)
