"""C09 - default print -> parse round trip (narrow): the structural conditions the identity needs.
Does NOT decide that print and parse are inverse as functions of values."""
from ..rules_r5 import lookahead_agree
from .. import mir
from ..term import Terms, show, alts, walk, is_call
from ..rules_dep import run_dep


def run(ctx, rep):
    prog = ctx.prog("Q")
    lookahead_agree(rep, prog)
    rep.notes.append("Does not decide round-trip equality of values, RFC 3339/9557 grammar conformance of the printed text, or "
                     "agreement with an independent reader; decides only the three structural conditions listed.")
    run_dep(ctx, rep, "C09")
    resolve_candidate(rep, prog)
    round_agree(rep, prog)


def resolve_candidate(rep, prog, rule="RESOLVE-CANDIDATE"):
    rep.rule(rule, "OffsetConflict::resolve_via_reject / resolve_via_prefer accept a parsed offset through the tolerance predicate "
                   "is_equal (the default printer rounds offsets to the minute, so the parser's predicate compares up to that "
                   "rounding); whenever they then pin the ambiguous datetime to one offset, that offset is one of the zone's own "
                   "candidates (`before` / `after` of the fold), never the parsed offset itself - otherwise a zoned datetime in a "
                   "fold whose offset has non-zero seconds comes back up to 30 s away from the instant that was printed")
    n = 0
    for name in ("resolve_via_reject", "resolve_via_prefer"):
        f = prog.fns.get("jiff::tz::offset::OffsetConflict::" + name)
        if f is None:
            rep.anchor_missing("OffsetConflict::" + name)
            continue
        T = Terms(f)
        uses_tolerance = any(t.get("path", "").endswith(("FnMut::call_mut", "FnOnce::call_once", "Fn::call")) for _, t in mir.iter_calls(f)) \
            or any(any(x == ("param", 4, "is_equal") or (isinstance(x, tuple) and len(x) == 3 and x[0] == "param" and x[2] == "is_equal")
                       for i in range(len(t.get("args", []))) for x in walk(T.at_call(bi, t, i)))
                   for bi, t in mir.iter_calls(f))
        if not uses_tolerance:
            rep.violation(rule, name + " tolerance", "anchor missing: the function no longer calls its is_equal predicate", f.loc())
            continue
        # the construction may sit in a closure handed to Option::map / and_then (`matching_offset(..).map(|offset| ..)`): the
        # closure's parameter is then the Some payload of the receiver
        closures = [g for g in prog.fns.values() if g.crate == "jiff" and g.is_closure and g.path.startswith(f.path + "::{closure")]
        recv_of = {}
        for bi, t in mir.iter_calls(f):
            if t.get("path", "").rsplit("::", 1)[-1] in ("map", "and_then", "map_or", "map_or_else") and "Option" in t.get("path", ""):
                for i in range(len(t.get("args", []))):
                    x = T.at_call(bi, t, i)
                    if x[0] == "closure":
                        recv_of[x[1]] = T.at_call(bi, t, 0)
        for body in [f] + closures:
          Tb = T if body is f else Terms(body)
          for bi, b in enumerate(body.blocks):
            for si, s in enumerate(b["st"]):
                if s["s"] == "=" and s["rv"]["k"] == "agg" and s["rv"].get("adt", "").endswith("AmbiguousOffset") \
                        and s["rv"].get("variant") == "Unambiguous":
                    n += 1
                    key = "%s Unambiguous#%d" % (name, n)
                    loc = "%s:%s" % (body.file, s.get("ln"))
                    bad = []
                    for a in alts(Tb.operand(s["rv"]["ops"][0], pos=(bi, si))):
                        if body is not f and a[0] == "param" and a[1] >= 2:
                            recv = recv_of.get(body.path)
                            if recv is not None and _candidate(prog, ("field", ("variant", recv, "Some"), "0")):
                                continue
                        if not _candidate(prog, a):
                            bad.append(show(a, maxd=4)[:80])
                    if bad:
                        rep.violation(rule, key, "the offset that fixes the instant is `%s` (the parsed offset), not the zone's candidate that "
                                      "is_equal matched" % bad[0], loc)
                    else:
                        rep.ok(rule, key, how="offset taken from the zone's candidates", loc=loc)
    rep.floor(rule + " sites", n, 2)


def _from_zone(a):
    """`before` / `after` / `offset` payload of the zone's own answer for the datetime"""
    return a[0] == "field" and a[2] in ("before", "after", "offset") and any(
        is_call(x, "::offset") or is_call(x, "::to_ambiguous_timestamp") for x in walk(a))


def _candidate(prog, a, depth=0):
    """the term is one of the zone's candidate offsets, directly or as the Some(..) payload of a local selection helper
    each of whose Some results is one of its parameters bound to a candidate (one level of inlining)"""
    if _from_zone(a):
        return True
    t = a
    # look through payload projections and through the std adapters that hand an Option's payload on unchanged
    # (`opt.ok_or_else(..)?`, `opt.ok_or(..)?`, `opt.expect(..)`, `opt.unwrap()`)
    steps = 0
    while depth == 0 and steps < 12:
        steps += 1
        if t[0] in ("field", "variant", "try"):
            t = t[1]
        elif t[0] == "call" and t[1].rsplit("::", 1)[-1] in ("ok_or_else", "ok_or", "expect", "unwrap", "copied", "cloned") and t[2]:
            t = t[2][0]
        else:
            break
    if depth == 0 and t[0] == "call" and ("jiff::" + t[1]) in prog.fns:
        g = prog.fns["jiff::" + t[1]]
        Tg = Terms(g)
        somes = []
        for bi, b in enumerate(g.blocks):
            for si, s in enumerate(b["st"]):
                if s["s"] == "=" and s["rv"]["k"] == "agg" and s["rv"].get("adt") == "core::option::Option" and s["rv"].get("variant") == "Some":
                    somes += list(alts(Tg.operand(s["rv"]["ops"][0], pos=(bi, si))))
        if not somes:
            return False
        for x in somes:
            if x[0] != "param":
                return False
            idx = x[1] - 1
            if not (0 <= idx < len(t[2]) and _from_zone(t[2][idx])):
                return False
        return True
    return False


def round_agree(rep, prog, rule="ROUND-AGREE"):
    rep.rule(rule, "printer and parser round offsets the same way: DateTimePrinter::print_offset_rounded bumps the minute exactly when "
                   "|seconds| >= 30 (half away from zero) and carries a minute of 60 into the hour, the parser's tolerance predicate compares with Offset::round(Unit::Minute), "
                   "and OffsetRound's default mode is HalfExpand with increment 1")
    # (1) printer threshold
    f = prog.fns.get("jiff::fmt::temporal::printer::DateTimePrinter::print_offset_rounded")
    if f is None:
        rep.anchor_missing("DateTimePrinter::print_offset_rounded")
    else:
        T = Terms(f)
        hit = None
        for bi, t in mir.iter_calls(f):
            name = t.get("path", "").rsplit("::", 1)[-1]
            if name in ("ge", "gt", "le", "lt") and len(t.get("args", [])) == 2:
                a, b = T.at_call(bi, t, 0), T.at_call(bi, t, 1)
                if any(is_call(x, "::part_seconds_ranged") for x in walk(a)) and any(is_call(x, "::abs") for x in walk(a)):
                    c = [x for x in walk(b) if isinstance(x, tuple) and x and x[0] == "const" and isinstance(x[1], int)]
                    hit = (name, c[0][1] if c else None)
        if hit == ("ge", 30):
            rep.ok(rule, "printer threshold", how="|seconds| >= 30", loc=f.loc())
        else:
            rep.violation(rule, "printer threshold", "print_offset_rounded compares the seconds with %s, expected |seconds| >= 30" % (hit,), f.loc())
    # (1b) the carry of the rounded minute reaches the hour: 59 minutes 30+ seconds rounds to the next hour, so the printed
    # hour cannot be the offset's hour component alone - its term has an alternative that adds 1
    if f is not None:
        T = Terms(f)
        ints = [(bi, t) for bi, t in mir.iter_calls(f) if t.get("path", "").endswith("::write_int")]
        if len(ints) != 2:
            rep.violation(rule, "printer hour carry", "anchor missing: expected two write_int calls (hours, minutes) in print_offset_rounded, found %d" % len(ints), f.loc())
        else:
            hours = T.at_call(ints[0][0], ints[0][1], 2)
            carries = any(isinstance(x, tuple) and x and ((x[0] == "bin" and x[1] in ("Add", "AddWithOverflow")) or
                          (x[0] == "call" and x[1].rsplit("::", 1)[-1] in ("saturating_add", "checked_add", "wrapping_add", "add")))
                          and any(y == ("const", 1) for y in walk(x)) for x in walk(hours))
            from_hours = any(is_call(x, "::part_hours_ranged") for x in walk(hours))
            if carries and from_hours:
                rep.ok(rule, "printer hour carry", how="the printed hour is part_hours or part_hours + 1", loc=f.loc())
            else:
                rep.violation(rule, "printer hour carry", "the printed hour is %s: when 59 minutes and 30 or more seconds round up, the minute "
                              "wraps to 00 but no carry reaches the hour (-06:59:56 prints as -06:00 instead of -07:00, an hour away "
                              "from the offset, so the text no longer parses back to the instant)" % show(hours, maxd=4)[:160], f.loc())
    # (1c) a timestamp printed with an offset has no annotation to recover the offset from: the civil time it prints must be
    # computed with the very offset value it prints, and that value is the minute-rounded one
    g = prog.fns.get("jiff::fmt::temporal::printer::DateTimePrinter::print_timestamp")
    if g is None:
        rep.anchor_missing("DateTimePrinter::print_timestamp")
    else:
        Tg = Terms(g)
        civ = [Tg.at_call(bi, t, 0) for bi, t in mir.iter_calls(g) if t.get("path", "").endswith("Offset::to_datetime")]
        prt = [Tg.at_call(bi, t, 1) for bi, t in mir.iter_calls(g) if t.get("path", "").endswith("::print_offset_rounded")]
        strip = lambda t_: t_[1] if isinstance(t_, tuple) and t_ and t_[0] in ("ref", "deref") else t_
        same = bool(civ) and bool(prt) and all(strip(a) == strip(b) for a in civ for b in prt)
        rounded = bool(civ) and all(any(is_call(x, "Offset::round") for x in walk(a)) for a in civ)
        if same and rounded:
            rep.ok(rule, "timestamp with offset", how="civil time and printed offset use the same minute-rounded offset", loc=g.loc())
        else:
            rep.violation(rule, "timestamp with offset", "print_timestamp computes the civil time with %s and prints the offset %s "
                          "(same value: %s, minute-rounded before use: %s): with a sub-minute offset the printed local time and the "
                          "printed (rounded) offset disagree by up to 30 s, so the text decodes to a different instant (offset +30 s: "
                          "1970-01-01T00:00:30+00:01), and offsets in (-30 s, 0) print as -00:00"
                          % (show(civ[0], maxd=3)[:60] if civ else "?", show(prt[0], maxd=3)[:60] if prt else "?", same, rounded), g.loc())
    # (2) parser predicate
    cl = [g for g in prog.fns.values() if g.crate == "jiff" and g.is_closure and "temporal::parser::ParsedDateTime" in g.path
          and "to_ambiguous_zoned" in g.path]
    units = set()
    for g in cl:
        T = Terms(g)
        for bi, t in mir.iter_calls(g):
            if t.get("path", "").endswith("Offset::round"):
                units.add(show(T.at_call(bi, t, 1), maxd=3))
    if len(units) == 1 and "Minute" in next(iter(units)):
        rep.ok(rule, "parser tolerance", how="Offset::round(%s)" % next(iter(units)))
    else:
        rep.violation(rule, "parser tolerance", "the tolerance predicate of ParsedDateTime::to_ambiguous_zoned rounds with %s, expected "
                      "exactly Offset::round(Unit::Minute)" % sorted(units), "src/fmt/temporal/parser.rs")
    # (3) default mode
    f = prog.fns.get("jiff::tz::offset::OffsetRound::new")
    if f is None:
        rep.anchor_missing("OffsetRound::new")
    else:
        fs = [f] + [prog.fns[k] for k in ("jiff::" + t.get("path", "") for _, t in mir.iter_calls(f) if t.get("path", "").endswith("Round::new"))
                    if k in prog.fns]
        aggs = [s["rv"] for g in fs for b in g.blocks for s in b["st"] if s["s"] == "=" and s["rv"]["k"] == "agg"]
        modes = {a.get("variant") for a in aggs if a.get("adt", "").endswith("RoundMode")}
        if modes == {"HalfExpand"}:
            rep.ok(rule, "default mode", how="HalfExpand", loc=f.loc())
        else:
            rep.violation(rule, "default mode", "OffsetRound::new uses mode %s, expected HalfExpand" % sorted(map(str, modes)), f.loc())
