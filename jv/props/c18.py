"""C18 - all ways of loading a time zone give the same zone (narrow)."""
from ..e5 import run_e5


def run(ctx, rep):
    run_e5(rep)
