"""C18 - all ways of loading a time zone give the same zone (narrow)."""
from ..rules_r5 import canon_name, type_writers
from ..e5 import run_e5
from ..rules_tz import find_key, parse_order, fold_agree, special_names, handover_civil, noop_skip


def run(ctx, rep):
    fold_agree(rep, ctx.prog("Q"))
    # the bundled back-end is compiled only with tzdb-bundle-always (configuration T3): analysed in both tiers
    special_names(rep, [("Q", ctx.prog("Q")), ("T3", ctx.prog("T3"))])
    if "T3" not in rep.configs:
        rep.configs.append("T3")
    prog = ctx.prog("Q")
    canon_name(rep, prog)
    type_writers(rep, prog)
    rep.notes.append("Does not decide behavioural equivalence of back-ends, slim vs fat, name case folding, POSIX Display<->parse.")
    run_e5(rep)
    find_key(rep, prog)
    parse_order(rep, prog)
    handover_civil(rep, prog)
    noop_skip(rep, prog)
    from ..rules_parse import quote_agree, sign_distrib
    quote_agree(rep, prog)
    sign_distrib(rep, prog, files=("src/shared/posix.rs",), floor=2)
