"""C18 - all ways of loading a time zone give the same zone (narrow)."""
from ..e5 import run_e5
from ..rules_tz import find_key, parse_order, fold_agree


def run(ctx, rep):
    fold_agree(rep, ctx.prog("Q"))
    prog = ctx.prog("Q")
    rep.notes.append("Does not decide behavioural equivalence of back-ends, slim vs fat, name case folding, POSIX Display<->parse.")
    run_e5(rep)
    find_key(rep, prog)
    parse_order(rep, prog)
