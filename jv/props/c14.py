"""C14 - transition iterators (narrow)."""
from ..rules_shape import floor_a
from ..rules_tz import floor_b, iter_feedback, in_dst_single, handover, noop_skip, iter_strict
from ..rules_dep import run_dep
from ..rules_r5 import dummy_guard


def run(ctx, rep):
    run_dep(ctx, rep, "C14")
    prog = ctx.prog("Q")
    in_dst_single(rep, prog)
    handover(rep, prog)
    noop_skip(rep, prog)
    iter_strict(rep, prog)
    dummy_guard(rep, prog)
    rep.notes.append("Does not decide completeness ('omits none') or hand-over correctness.")
    floor_b(rep, prog, only=("previous_transition", "next_transition"))
    iter_feedback(rep, prog)
    floor_a(ctx, rep)
