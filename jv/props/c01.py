"""C01 - civil calendar facts are exactly proleptic Gregorian (narrow)."""
from ..rules_r5 import clamp_guard, day_succ
from ..rules_shape import floor_a, const_agree, month_table
from ..e5 import run_e5
from ..rules_contract import run_contracts

from ..rules_pair import ym_pair, year_fact


def run(ctx, rep):
    prog = ctx.prog("Q")
    ym_pair(rep, prog, floor=15)
    year_fact(rep, prog)
    clamp_guard(rep, prog)
    day_succ(rep, prog)
    rep.notes.append("Does not decide that the Neri-Schneider arithmetic computes Gregorian values.")
    floor_a(ctx, rep)
    const_agree(rep, prog)
    month_table(rep, prog)
    run_e5(rep)
    run_contracts(ctx, rep)
