"""C19 - time zone database: lock discipline, freshness guards, index freshness (discipline only)."""
from ..rules_r5 import canon_name
import re
from collections import defaultdict
from .. import mir
from ..term import Terms, show, walk, is_call, alts
from ..guards import guards, strip_not

MODULES = ("tz::db::zoneinfo::inner::", "tz::db::concatenated::inner::", "tz::db::bundled::inner::")
_lock = re.compile(r"^std::sync::RwLock::<T>::(read|write)(@bb\d+)?$")


def lock_calls(f):
    return [(bi, t) for bi, t in mir.iter_calls(f) if _lock.match(t.get("path", ""))]


def lock_name(T, bi, t):
    """identity of the lock: the field/static the RwLock lives in"""
    a = T.at_call(bi, t, 0)
    if a[0] == "field":
        return a[2]
    if a[0] == "const":
        return str(a[1]).split("::")[-1]
    return show(a, maxd=2)

from ..rules_tz import fold_agree, special_names


def run(ctx, rep):
    fold_agree(rep, ctx.prog("Q"))
    special_names(rep, [("Q", ctx.prog("Q")), ("T3", ctx.prog("T3"))])
    if "T3" not in rep.configs:
        rep.configs.append("T3")
    prog = ctx.prog("Q")
    canon_name(rep, ctx.prog("T3"), floor=3)
    rep.notes.append("Does not decide history/schedule independence of results or TTL timing.")
    progs = [("Q", prog)]
    if ctx.tier == "thorough":
        progs.append(("T3", ctx.prog("T3")))
    for cfg, pg in progs:
        fns = [f for f in pg.fns.values() if f.crate == "jiff" and f.path.startswith(MODULES)]
        sfx = "" if cfg == "Q" else " @" + cfg
        lock_order(rep, pg, fns, sfx)
        fresh_guard(rep, pg, fns, sfx)
        lock_scope(rep, pg, fns, sfx)
        recheck(rep, pg, fns, sfx)
        no_unsafe(rep, pg, fns, sfx)
    rep.floor("database functions", len([f for f in prog.fns.values() if f.crate == "jiff" and f.path.startswith(MODULES)]), 40)


def lock_order(rep, prog, fns, sfx, rule="LOCK-ORDER"):
    rep.rule(rule, "in the database back-ends no RwLock is acquired while a guard of the same lock is live in the same function or a "
                   "caller (self-deadlock / read->write upgrade), and the inter-procedural held->acquired relation over lock fields is acyclic")
    # direct acquisitions and transitive summaries
    byname = {f.path: f for f in fns}
    direct = {}
    T_of = {}
    for f in fns:
        T = Terms(f)
        T_of[f.path] = T
        direct[f.path] = {lock_name(T, bi, t) for bi, t in lock_calls(f)}
    acquires = {k: set(v) for k, v in direct.items()}
    changed = True
    while changed:
        changed = False
        for f in fns:
            for bi, t in mir.iter_calls(f):
                p = t.get("path")
                if p in acquires and not acquires[p] <= acquires[f.path]:
                    acquires[f.path] |= acquires[p]
                    changed = True
            # closures defined here
            for g in fns:
                if g.is_closure and g["parent"] == f.path and not acquires[g.path] <= acquires[f.path]:
                    acquires[f.path] |= acquires[g.path]
                    changed = True
    edges = defaultdict(set)
    n_sites = 0
    for f in fns:
        if not direct[f.path] and not any(t.get("path") in acquires and acquires[t["path"]] for _, t in mir.iter_calls(f)):
            continue
        T = T_of[f.path]
        cfg = mir.CFG(f)
        # guard locals: destinations of unwrap/expect on a read()/write() result, by type
        guard_of = {}
        for bi, t in mir.iter_calls(f):
            if t.get("path", "").endswith(("::unwrap", "::expect")) and "Guard<" in (t.get("dest_ty") or "") and "dest" in t:
                src = T.at_call(bi, t, 0)
                lk = [x for x in walk(src) if isinstance(x, tuple) and x and x[0] == "call" and _lock.match(x[1])]
                if lk:
                    a = lk[0][2][0]
                    nm = a[2] if a[0] == "field" else (str(a[1]).split("::")[-1] if a[0] == "const" else show(a, maxd=2))
                    guard_of[t["dest"]["l"]] = (nm, bi)
        # forward may-dataflow of live guards
        live_in = {0: frozenset()}
        work = [0]
        while work:
            b = work.pop()
            live = set(live_in[b])
            blk = f.blocks[b]
            for s in blk["st"]:
                if s["s"] == "dead":
                    live = {g for g in live if g[0] != s["l"]}
                elif s["s"] == "=" and s["rv"]["k"] == "use" and s["rv"]["a"].get("o") == "mv" and "p" not in s["rv"]["a"] and "p" not in s["lhs"]:
                    src = s["rv"]["a"]["l"]
                    moved = {g for g in live if g[0] == src}
                    if moved:
                        live = (live - moved) | {(s["lhs"]["l"], g[1]) for g in moved}
            t = blk["term"]
            out = set(live)
            if t["t"] == "call" and "dest" in t and t["dest"]["l"] in guard_of and "p" not in t["dest"]:
                out.add((t["dest"]["l"], guard_of[t["dest"]["l"]][0]))
            if t["t"] == "drop" and "p" not in t["place"]:
                out = {g for g in out if g[0] != t["place"]["l"]}
            if t["t"] == "call":
                # moving a guard into a callee (mem::drop) ends its life here
                for a in t["args"]:
                    if a.get("o") == "mv" and "p" not in a:
                        out = {g for g in out if g[0] != a["l"]}
            for s2 in mir.succs(t):
                new = frozenset(out) | live_in.get(s2, frozenset())
                if new != live_in.get(s2):
                    live_in[s2] = new
                    work.append(s2)
        for bi, t in mir.iter_calls(f):
            held = {g[1] for g in live_in.get(bi, frozenset())}
            acq = set()
            if _lock.match(t.get("path", "")):
                acq = {lock_name(T, bi, t)}
            elif t.get("path") in acquires:
                acq = acquires[t["path"]]
            if not acq:
                continue
            n_sites += 1
            key = "%s bb%d%s" % (f.path.split("inner::")[-1], bi, sfx)
            again = held & acq
            if again:
                rep.violation(rule, key, "lock %s is acquired (directly or in %s) while a guard of it is still live in %s"
                              % (sorted(again), t.get("path", "").split("::")[-1], f.path), "%s:%s" % (t["span"]["file"], t["span"]["line"]))
            else:
                rep.ok(rule, key, how="acquires %s holding %s" % (sorted(acq), sorted(held) or "nothing"))
            for h in held:
                for a in acq:
                    edges[h].add(a)
    # acyclicity of held -> acquired
    cyc = None
    for a in edges:
        stack, seen = [(a, [a])], set()
        while stack:
            x, pth = stack.pop()
            for y in edges.get(x, ()):
                if y == a:
                    cyc = pth + [y]
                if y not in seen:
                    seen.add(y)
                    stack.append((y, pth + [y]))
    if cyc:
        rep.violation(rule, "held->acquired graph" + sfx, "lock order cycle: %s" % " -> ".join(cyc), "src/tz/db")
    else:
        rep.ok(rule, "held->acquired graph" + sfx, how=str({k: sorted(v) for k, v in edges.items()}) or "no nested acquisition")
    if not sfx:
        rep.floor(rule + " acquisition sites", n_sites, 10)


def fresh_guard(rep, prog, fns, sfx, rule="FRESH-GUARD"):
    rep.rule(rule, "every Some(cached_zone.tz.clone()) returned by a Database::get is guarded by `!is_expired()` or by a successful "
                   "`revalidate(..)`; revalidate returns true only on the equal edge of the last-modified comparison and after re-arming the expiration")
    n = 0
    for f in fns:
        if not f.path.endswith("Database::get"):
            continue
        T = Terms(f)
        cfg = mir.CFG(f)
        for bi, b in enumerate(f.blocks):
            for si, s in enumerate(b["st"]):
                if not (s["s"] == "=" and s["rv"]["k"] == "agg" and s["rv"].get("variant") == "Some" and s["rv"].get("adt", "").endswith("option::Option")):
                    continue
                tt = T.rvalue(s["rv"], 0, (bi, si))
                pay = dict(tt[3])["0"]
                cached = [x for x in walk(pay) if isinstance(x, tuple) and x and x[0] == "field" and x[2] == "tz"]
                fresh = any(is_call(x, "CachedTimeZone::new") or is_call(x, "::new") and "Cached" in x[1] for x in walk(pay))
                if not cached or fresh:
                    continue
                n += 1
                gs = [strip_not(c, t) for (c, t, sb) in guards(f, cfg, T, bi)]
                ok = any((is_call(c, "::is_expired") and t is False) or (is_call(c, "::revalidate") and t is True) for (c, t) in gs)
                key = "%s Some(cached)#%d%s" % (f.path.split("::")[3], n, sfx)
                if ok:
                    rep.ok(rule, key, how="guarded by " + "; ".join("%s=%s" % (c[1].split("::")[-1], t) for (c, t) in gs if c[0] == "call")[:120])
                else:
                    rep.violation(rule, key, "a cached zone is returned without an is_expired()/revalidate() guard (guards: %s)"
                                  % [(show(c, maxd=2), t) for (c, t) in gs][:4], "%s:%s" % (f.file, s.get("ln")))
    if not sfx:
        rep.floor(rule + " cached returns", n, 3)
    # revalidate: `true` only after comparing last_modified and re-arming
    for f in fns:
        if not f.path.endswith("::revalidate"):
            continue
        T = Terms(f)
        cfg = mir.CFG(f)
        trues = []
        for bi, b in enumerate(f.blocks):
            for s in b["st"]:
                if s["s"] == "=" and s["lhs"] == {"l": 0} and s["rv"]["k"] == "use" and s["rv"]["a"].get("v") == 1 and s["rv"]["a"].get("ty") == "bool":
                    trues.append(bi)
        key = "%s revalidate%s" % (f.path.split("::")[3], sfx)
        if not trues:
            rep.violation(rule, key, "shape not recognised: no `true` return", f.loc())
            continue
        bad = []
        for bi in trues:
            gs = [strip_not(c, t) for (c, t, sb) in guards(f, cfg, T, bi)]
            cmp_ok = any(c[0] == "call" and c[1].split("::")[-1] in ("eq", "ne") and any(
                isinstance(x, tuple) and x and x[0] == "field" and x[2] == "last_modified" for x in walk(c)) and ((c[1].endswith("eq") and t is True) or (c[1].endswith("ne") and t is False))
                for (c, t) in gs)
            # re-arming store to self.expiration dominates the return
            rearm = False
            for b2, blk in enumerate(f.blocks):
                if not cfg.dominates(b2, bi):
                    continue
                for s in blk["st"]:
                    ps = s.get("lhs", {}).get("p") or []
                    if s["s"] == "=" and ps and isinstance(ps[-1], dict) and ps[-1].get("n") == "expiration":
                        rearm = True
                t2 = blk["term"]
                if t2["t"] == "call" and "dest" in t2 and (t2["dest"].get("p") or []) and isinstance(t2["dest"]["p"][-1], dict) and t2["dest"]["p"][-1].get("n") == "expiration":
                    rearm = True
            if not (cmp_ok and rearm):
                bad.append("true at bb%d: last_modified equal edge=%s, expiration re-armed=%s" % (bi, cmp_ok, rearm))
        if bad:
            rep.violation(rule, key, "; ".join(bad), f.loc())
        else:
            rep.ok(rule, key, how="true only after last_modified == and expiration re-armed")


def lock_scope(rep, prog, fns, sfx, rule="LOCK-SCOPE"):
    rep.rule(rule, "a position obtained by searching a lock-protected vector (get_zone_index / binary_search) is used to index or "
                   "insert into that vector only under the same lock acquisition that produced it (no index survives an unlock)")
    n = 0
    for f in fns:
        T = Terms(f)
        for bi, t in mir.iter_calls(f):
            nm = t.get("path", "").split("::")[-1]
            if nm not in ("index", "index_mut", "insert") or "Vec" not in t.get("path", ""):
                continue
            if t["arg_tys"][1] != "usize":
                continue
            vec, ix = T.at_call(bi, t, 0), T.at_call(bi, t, 1)
            searches = [x for x in walk(ix) if isinstance(x, tuple) and x and x[0] == "call" and
                        (x[1].endswith("get_zone_index") or "binary_search" in x[1])]
            if not searches:
                continue
            n += 1
            acq_v = {x for x in walk(vec) if isinstance(x, tuple) and x and x[0] == "call" and _lock.match(x[1])}
            acq_i = {x for s in searches for x in walk(s) if isinstance(x, tuple) and x and x[0] == "call" and _lock.match(x[1])}
            key = "%s %s#%d%s" % (f.path.split("inner::")[-1], nm, n, sfx)
            if acq_v == acq_i:
                rep.ok(rule, key, how="index and vector under %s" % (sorted(a[1].split("::")[-1] for a in acq_v) or "the caller's borrow"))
            else:
                rep.violation(rule, key, "the position comes from a search under %s but is used on the vector under %s: the lock was "
                              "released in between, the position may be stale" % (sorted(a[1].split("::")[-1] for a in acq_i), sorted(a[1].split("::")[-1] for a in acq_v)),
                              "%s:%s" % (t["span"]["file"], t["span"]["line"]))
    if not sfx:
        rep.floor(rule + " sites", n, 6)


def _unsafe_ops(f):
    """unsafe operations inside a body: calls of unsafe fns (not from a std macro expansion such as format_args!)
    and dereferences of raw pointers"""
    out = []
    for b in f.blocks:
        t = b["term"]
        if t["t"] == "call" and t.get("callee_unsafe") and not (t.get("span") or {}).get("macros"):
            out.append("call %s" % t.get("path"))

        def walk(x):
            if isinstance(x, dict):
                if x.get("rawderef"):
                    out.append("raw pointer dereference")
                for v in x.values():
                    walk(v)
            elif isinstance(x, list):
                for v in x:
                    walk(v)
        walk([s_ for s_ in b["st"] if not s_.get("exp")])      # `exp`: statement from a std macro expansion (vec![..])
        walk({k: v for k, v in t.items() if k != "span"})
    return out


def no_unsafe(rep, prog, fns, sfx, rule="NO-UNSAFE"):
    rep.rule(rule, "the cached vectors are only reachable through the locks: no unsafe fn, no call of an unsafe fn and no raw "
                   "pointer dereference in the database modules (positive control: the same matcher must find the unsafe "
                   "operations of tz::timezone::repr)")
    bad = [f.path for f in fns if f.get("unsafe")]
    ops = [(f.path, o) for f in fns for o in _unsafe_ops(f)]
    control = sum(len(_unsafe_ops(f)) for f in prog.fns.values()
                  if f.crate == "jiff" and f.file == "src/tz/timezone.rs" and "::repr::" in "::" + f.path + "::")
    if control < 4:
        rep.violation(rule, "unsafe matcher control" + sfx, "positive control failed: expected the matcher to see the "
                      "unsafe operations of the tagged pointer in tz::timezone::repr, saw %d" % control, "src/tz/timezone.rs")
    else:
        rep.ok(rule, "unsafe matcher control" + sfx, how="matcher sees %d unsafe operations in tz::timezone::repr" % control, nontrivial=False)
    if bad or ops:
        rep.violation(rule, "unsafe fns" + sfx, "unsafe in database modules: fns %s, operations %s" % (bad, ops[:6]), "src/tz/db")
    else:
        rep.ok(rule, "unsafe fns" + sfx, how="%d functions, none unsafe, no unsafe operation" % len(fns), nontrivial=False)


def recheck(rep, prog, fns, sfx, rule="RECHECK"):
    """double-checked lookups: a miss under the read lock proves nothing once the lock is released"""
    rep.rule(rule, "in every lookup that first searches under the read lock and then takes the write lock on the same field, each value "
                   "returned after the write lock was acquired is preceded, under that write lock, by a fresh search of the protected "
                   "collection (get / get_zone_index / binary search): another thread may have refreshed or filled it between the two "
                   "locks, so reporting the stale miss makes the answer depend on other threads' lookups")
    n = 0
    for f in fns:
        if f.is_closure:
            continue
        T = None
        acq = [(bi, t) for bi, t in lock_calls(f)]
        reads = [(bi, t) for bi, t in acq if t.get("path", "").endswith("::read")]
        writes = [(bi, t) for bi, t in acq if t.get("path", "").endswith("::write")]
        if not reads or not writes:
            continue
        T = Terms(f)
        cfg = mir.CFG(f)
        rnames = {lock_name(T, bi, t) for bi, t in reads}
        for (bw, tw) in writes:
            if lock_name(T, bw, tw) not in rnames:
                continue
            n += 1
            key = "%s write-locked returns%s" % (f.path.split("::")[-2] + "::" + f.path.split("::")[-1], sfx)
            searches = [bi for bi, t in mir.iter_calls(f)
                        if cfg.dominates(bw, bi) and bi != bw and (
                            t.get("path", "").rsplit("::", 1)[-1] in ("get", "get_zone_index", "binary_search", "binary_search_by", "binary_search_by_key")
                            and ("Cached" in t.get("path", "") or "Names" in t.get("path", "") or "slice" in t.get("path", "")))]
            bad = []
            for bi, b in enumerate(f.blocks):
                if not cfg.dominates(bw, bi) or bi == bw:
                    continue
                assigns = any(s["s"] == "=" and s["lhs"]["l"] == 0 for s in b["st"]) or \
                    (b["term"]["t"] == "call" and (b["term"].get("dest") or {}).get("l") == 0)
                if not assigns:
                    continue
                if not any(sb == bi or cfg.dominates(sb, bi) for sb in searches):
                    ln = next((s.get("ln") for s in b["st"] if s["s"] == "=" and s["lhs"]["l"] == 0), None) or (b["term"].get("span") or {}).get("line")
                    bad.append(ln)
            if bad:
                rep.violation(rule, key, "after taking the write lock, the function returns at line(s) %s without searching the protected "
                              "collection again" % sorted(set(x for x in bad if x)), f.loc())
            else:
                rep.ok(rule, key, how="%d search(es) under the write lock dominate every return" % len(searches), loc=f.loc())
    rep.floor(rule + " double-checked lookups" + sfx, n, 2)
