"""C06 - zoned arithmetic is DST-aware (composition only, rule PIPELINE)."""
from .. import mir
from ..term import Terms, show, alts, match, V, C, TRY, ok_payloads, is_call
from ..guards import guards
from ..term import walk
from ..rules_dep import run_dep
from .c08 import pipeline as civil_pipeline
from ..rules_signpair import run_signpair

SELF = ("param", 1, "self")


def closure_returns(prog, f, n=0):
    k = "%s::{closure#%d}" % (f.key, n)
    g = prog.fns.get(k)
    return (g, Terms(g).returns()) if g else (None, None)


def run(ctx, rep):
    run_dep(ctx, rep, "C06")
    prog = ctx.prog("Q")
    rep.notes.append("Does not decide that each step computes the right value, nor the 23/25-hour-day behaviour that emerges.")
    # "months/years clamp the day of month": the calendar step of zoned addition is Date::checked_add_span, whose own
    # pipeline (one clamp against the target month, after years and months were combined) is rule CIVIL-PIPELINE
    civil_pipeline(rep, prog, rule="CIVIL-PIPELINE")
    # the exact-time step of zoned arithmetic is Timestamp arithmetic: the instant it returns must be a well-formed pair
    run_signpair(ctx, rep, select=lambda f: f.file in ("src/timestamp.rs", "src/zoned.rs"), floor=5)
    rep.rule("PIPELINE", "Zoned::checked_add_span is, on the non-shortcut Ok path, exactly: c = span.only_calendar(); "
                         "dt = self.datetime().checked_add(c)?; ts = tz.to_ambiguous_timestamp(dt).compatible()?; "
                         "ts' = ts.checked_add(span.only_time())?; Ok(ts'.to_zoned(tz.clone())) with tz = self.time_zone(); the shortcut "
                         "and checked_add_duration are self.timestamp().checked_add(arg) mapped through to_zoned(self.time_zone()); "
                         "checked_sub negates and delegates to checked_add; start_of_day = civil midnight of datetime() resolved in tz, with the transition instant when midnight is in a gap; "
                         "end_of_day resolves the civil end of the day; Gap -> last instant before the transition that made the gap; Fold -> after")
    f = prog.jiff("zoned::Zoned::checked_add_span")
    r = Terms(f).returns()
    span = V("span")
    tz = C("Zoned::time_zone", SELF)
    want = C("Timestamp::to_zoned",
             TRY(C("Timestamp::checked_add",
                   TRY(C("AmbiguousTimestamp::compatible",
                         C("TimeZone::to_ambiguous_timestamp", tz,
                           TRY(C("DateTime::checked_add", C("Zoned::datetime", SELF), C("Span::only_calendar", span)))))),
                   C("Span::only_time", span))),
             tz)
    oks = ok_payloads(r)
    env = match(oks[0], want) if len(oks) == 1 else None
    if env is not None and env.get("span", ("x",))[0] == "param":
        rep.ok("PIPELINE", "Zoned::checked_add_span main path", how=show(oks[0], maxd=12))
    else:
        rep.violation("PIPELINE", "Zoned::checked_add_span main path",
                      "the Ok result is %s, not the documented composition" % (show(oks[0], maxd=12) if oks else "absent"), f.loc())
    # shortcut: map(checked_add(timestamp(self), span), |ts| ts.to_zoned(tz.clone()))
    short = [a for a in alts(r) if is_call(a, "::map")]
    g, cr = closure_returns(prog, f, 0)
    sc = len(short) == 1 and match(short[0][2][0], C("Timestamp::checked_add", C("Zoned::timestamp", SELF), V("span"))) is not None
    cl = cr is not None and is_call(cr, "Timestamp::to_zoned") and cr[2][0][0] == "param" and any(
        is_call(x, "Zoned::time_zone") for x in alts(cr[2][1]))
    # the shortcut must be guarded by span_calendar.is_zero()
    guard = any(t.get("path", "").endswith("Span::is_zero") for _, t in mir.iter_calls(f))
    if sc and cl and guard:
        rep.ok("PIPELINE", "Zoned::checked_add_span shortcut", how="is_zero(only_calendar) => timestamp().checked_add(span).map(to_zoned(tz))")
    else:
        rep.violation("PIPELINE", "Zoned::checked_add_span shortcut", "shortcut shape broken (checked_add on self.timestamp(): %s, closure "
                      "to_zoned(time_zone): %s, is_zero guard: %s): %s" % (sc, cl, guard, show(r, maxd=6)[:300]), f.loc())
    # duration
    f = prog.jiff("zoned::Zoned::checked_add_duration")
    r = Terms(f).returns()
    g, cr = closure_returns(prog, f, 0)
    ok = is_call(r, "::map") and match(r[2][0], C("Timestamp::checked_add", C("Zoned::timestamp", SELF), V("d"))) is not None \
        and cr is not None and is_call(cr, "Timestamp::to_zoned") and cr[2][0][0] == "param"
    if ok:
        rep.ok("PIPELINE", "Zoned::checked_add_duration", how=show(r, maxd=5))
    else:
        rep.violation("PIPELINE", "Zoned::checked_add_duration", "not timestamp().checked_add(duration).map(to_zoned): %s" % show(r, maxd=6), f.loc())
    # checked_sub = negate then checked_add
    f = prog.jiff("zoned::Zoned::checked_sub")
    r = Terms(f).returns()
    g, cr = closure_returns(prog, f, 0)
    neg = is_call(r, "::and_then") and is_call(r[2][0], "checked_neg")
    add = cr is not None and any(is_call(x, "checked_add") for x in alts(cr))
    if neg and add:
        rep.ok("PIPELINE", "Zoned::checked_sub", how="checked_neg(arg).and_then(|a| a.checked_add(self))")
    else:
        rep.violation("PIPELINE", "Zoned::checked_sub", "subtraction is not addition of the negated operand: %s / closure %s"
                      % (show(r, maxd=5), show(cr, maxd=5) if cr else None), f.loc())
    # start_of_day / end_of_day
    f = prog.jiff("zoned::Zoned::start_of_day")
    T = Terms(f)
    cfg = mir.CFG(f)
    # "the first instant whose civil date is that day": civil midnight resolved in the zone; and when midnight is in a gap the
    # instant of the transition that made the gap (the compatible strategy shifts midnight forward by the length of the gap,
    # which is the transition instant only if the gap starts exactly at midnight)
    calls = {t.get("path", "").split("::")[-2] + "::" + t.get("path", "").split("::")[-1]: bi for bi, t in mir.iter_calls(f) if "::" in t.get("path", "")}
    midnight = any(is_call(T.at_call(bi, t, 1), "DateTime::start_of_day") and is_call(T.at_call(bi, t, 1)[2][0], "Zoned::datetime")
                   for bi, t in mir.iter_calls(f) if t.get("path", "").endswith("TimeZone::to_ambiguous_timestamp"))
    gap_arm = False
    adt = prog.adts.get("jiff::tz::ambiguous::AmbiguousOffset")
    gap_v = [int(v["discr"]) for v in adt["variants"] if v["name"] == "Gap"][0] if adt else None
    for bi, t in mir.iter_calls(f):
        if t.get("path", "").endswith(("TimeZone::preceding", "TimeZone::previous_transition", "TimeZone::following")):
            for (c, truth, _sb) in guards(f, cfg, T, bi):
                if c[0] == "disc" and any(is_call(x, "AmbiguousTimestamp::offset") for x in walk(c)) and isinstance(truth, tuple) \
                        and truth[0] == "eq" and truth[1] == [gap_v]:
                    gap_arm = True
    compat = any(t.get("path", "").endswith("AmbiguousTimestamp::compatible") for _, t in mir.iter_calls(f))
    if midnight and gap_arm and compat:
        rep.ok("PIPELINE", "Zoned::start_of_day", how="civil midnight resolved in the zone; Gap arm takes the transition instant; otherwise compatible")
    else:
        rep.violation("PIPELINE", "Zoned::start_of_day", "start_of_day must resolve civil midnight of datetime() in the zone (found: %s), answer a "
                      "gap at midnight with the instant of the zone transition from the transition iterator (found: %s) and use the "
                      "compatible strategy otherwise (found: %s): shifting midnight by the length of the gap is the first instant of the "
                      "day only when the gap starts at 00:00" % (midnight, gap_arm, compat), f.loc())
    # end_of_day, the mirror image: 23:59:59.999999999 of datetime() resolved in the zone, a fold answered with the later
    # instant (`after`), and - when that civil time is in a gap - the last instant BEFORE the transition that made the gap
    # (taken from the transition iterator), not the civil time read with one of the two offsets: `after` applied to
    # 23:59:59.999999999 is the end of the day only if the gap starts at least its own length before midnight
    f = prog.jiff("zoned::Zoned::end_of_day")
    T = Terms(f)
    cfg = mir.CFG(f)
    last = any(is_call(T.at_call(bi, t, 1), "DateTime::end_of_day") and is_call(T.at_call(bi, t, 1)[2][0], "Zoned::datetime")
               for bi, t in mir.iter_calls(f) if t.get("path", "").endswith("TimeZone::to_ambiguous_timestamp"))
    gap_arm = False
    for bi, t in mir.iter_calls(f):
        if t.get("path", "").endswith(("TimeZone::preceding", "TimeZone::previous_transition", "TimeZone::following", "TimeZone::next_transition")):
            for (c, truth, _sb) in guards(f, cfg, T, bi):
                if c[0] == "disc" and any(is_call(x, "AmbiguousTimestamp::offset") for x in walk(c)) and isinstance(truth, tuple) \
                        and truth[0] == "eq" and truth[1] == [gap_v]:
                    gap_arm = True
    sel = set()
    for bi, t in mir.iter_calls(f):
        if t.get("path", "").endswith("Offset::to_timestamp"):
            for a in alts(T.at_call(bi, t, 0)):
                if a[0] == "field" and a[1][0] == "variant":
                    sel.add((a[1][2], a[2]))
    fold_ok = ("Fold", "after") in sel and ("Fold", "before") not in sel and ("Unambiguous", "offset") in sel
    if last and gap_arm and fold_ok:
        rep.ok("PIPELINE", "Zoned::end_of_day", how="civil 23:59:59.999999999 resolved in the zone; Gap arm takes the instant before the transition; Fold -> after")
    else:
        rep.violation("PIPELINE", "Zoned::end_of_day", "end_of_day must resolve the civil end of datetime()'s day in the zone (found: %s), answer a gap "
                      "at that time with the last instant before the zone transition, from the transition iterator (found: %s), and a "
                      "fold with the later instant (offsets selected: %s): reading 23:59:59.999999999 with the offset after the gap gives an "
                      "instant that is earlier by the part of the gap that lies after midnight (1919-03-30 in America/Toronto, 23:30 -> "
                      "00:30: 22:59:59.999999999 instead of 23:29:59.999999999)" % (last, gap_arm, sorted(sel)), f.loc())
