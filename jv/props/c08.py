"""C08 - civil date/time arithmetic follows the documented rules (narrow): pipeline of Date::checked_add_span,
range errors through checked epoch-day arithmetic, saturating tables, wrap-then-modulo (E2)."""
from ..rules_r5 import day_succ
import os
from .. import mir
from ..term import Terms, show, alts, is_call, walk, match, V, C, TRY
from ..guards import guards, strip_not
from ..rules_e2 import run_e2
from ..rules_contract import run_contracts
from ..rules_dep import run_dep, run_err_both

SELF, SPAN = ("param", 1, "self"), ("param", 2, "span")

from ..rules_pair import ym_pair
from ..rules_signpair import run_partsign


def run(ctx, rep):
    run_dep(ctx, rep, "C08")
    run_err_both(ctx, rep, "C08")
    prog = ctx.prog("Q")
    ym_pair(rep, prog, floor=15)
    run_partsign(ctx, rep)
    day_succ(rep, ctx.prog("Q"))
    rep.notes.append("Does not decide equality with wide-integer reference arithmetic in general.")
    pipeline(rep, prog)
    saturating(rep, prog)
    run_contracts(ctx, rep)
    if os.path.exists(os.path.join(os.path.dirname(__file__), "..", "..", "reviewed", "ranged.tsv")):
        run_e2(ctx, rep, select=lambda f: f.file in ("src/civil/date.rs", "src/civil/datetime.rs", "src/civil/time.rs", "src/duration.rs"), floor=100)


def pipeline(rep, prog, rule="PIPELINE"):
    rep.rule(rule, "Date::checked_add_span: months/years first (month_add_overflowing, two try_checked_add on the year), the day "
                   "clamped with constrain_ranged, then weeks*7 and days added to the epoch day with try_checked_add, then the time "
                   "units truncated to whole days (div_ceil) added with try_checked_add, result through from_unix_epoch_day; every "
                   "other Ok return is self (zero span), yesterday()/tomorrow() (+-1 day) or from_unix_epoch_day of a checked sum: "
                   "a range error arises exactly from a checked epoch-day/year addition")
    f = prog.jiff("civil::date::Date::checked_add_span")
    r = Terms(f).returns()
    # a fast path (or the tail) may have been extracted into a private helper of `impl Date` that returns the same
    # Result<Date, Error>: look through one level of such helpers
    from ..term import inline_helpers
    helper_pred = lambda g_: g_.path.startswith("civil::date::Date::") and g_.get("vis") != "pub" and "Date" in str(g_.get("ret", "")) \
        and g_.path.rsplit("::", 1)[-1] not in ("yesterday", "tomorrow", "from_unix_epoch_day", "constrain_ranged", "to_unix_epoch_day")
    helpers = {g_.key: g_ for _bi, t_ in mir.iter_calls(f) for g_ in [prog.fns.get("jiff::" + t_.get("path", ""))] if g_ is not None and helper_pred(g_)}
    if helpers:
        r = inline_helpers(r, prog, depth=1, pred=helper_pred)
    mao = C("month_add_overflowing", ("field", SELF, "month"), C("Span::get_months_ranged", SPAN))
    year = TRY(C("try_checked_add", TRY(C("try_checked_add", ("field", SELF, "year"), V("y1"), ("field", mao, "1"))), V("y2"),
                 C("Span::get_years_ranged", SPAN)))
    base = C("Date::to_unix_epoch_day", C("Date::constrain_ranged", year, ("field", mao, "0"), ("field", SELF, "day")))
    w = TRY(C("try_checked_add", base, V("l1"), C("::mul", C("util::t::C", ("const", 7)), C("::rfrom", C("Span::get_weeks_ranged", SPAN)))))
    d = TRY(C("try_checked_add", w, V("l2"), C("::rfrom", C("Span::get_days_ranged", SPAN))))
    dt = TRY(C("try_checked_add", d, V("l3"),
               C("::div_ceil", C("Span::to_invariant_nanoseconds", C("Span::only_lower", SPAN, V("unit"))), V("npd"))))
    fast = C("Date::from_unix_epoch_day", TRY(C("try_checked_add", C("Date::to_unix_epoch_day", SELF), V("l0"),
                                                C("::rfrom", C("Span::get_days_ranged", SPAN)))))
    seen = {"main": False, "self": False, "fast": False, "yesterday": False, "tomorrow": False}
    bad = []
    for a in alts(r):
        if a[0] == "residual":
            continue
        if a[0] == "agg" and a[2] == "Ok":
            p = dict(a[3])["0"]
            if p == SELF:
                seen["self"] = True
            elif match(p, fast) is not None:
                seen["fast"] = True
            elif is_call(p, "Date::from_unix_epoch_day"):
                alts_d = alts(p[2][0])
                ok = len(alts_d) == 2 and any(match(x, d) is not None for x in alts_d) and any(match(x, dt) is not None for x in alts_d)
                if ok:
                    seen["main"] = True
                else:
                    bad.append("main path is %s" % show(p, maxd=10)[:400])
            else:
                bad.append("unexpected Ok(%s)" % show(p, maxd=4)[:200])
        elif is_call(a, "Date::yesterday") and a[2][0] == SELF:
            seen["yesterday"] = True
        elif is_call(a, "Date::tomorrow") and a[2][0] == SELF:
            seen["tomorrow"] = True
        else:
            bad.append("unexpected return %s" % show(a, maxd=4)[:200])
    if not bad and all(seen.values()):
        rep.ok(rule, "Date::checked_add_span", how="self | yesterday | tomorrow | epoch+days | months/years->clamp->weeks->days->time")
    else:
        rep.violation(rule, "Date::checked_add_span", "not the documented composition: %s; recognised %s" % ("; ".join(bad) or "-", seen), f.loc())
    # the fast paths must be guarded: yesterday under days == -1, tomorrow under days == 1
    for host in [f] + list(helpers.values()):
        T = Terms(host)
        cfg = mir.CFG(host)
        # in a helper the day count arrives as a parameter: the one that receives Span::get_days_ranged(span) at the call site
        day_params = set()
        if host is not f:
            Tf = Terms(f)
            for bi, t in mir.iter_calls(f):
                if "jiff::" + t.get("path", "") == host.key:
                    for i in range(len(t.get("args", []))):
                        if any(is_call(x, "Span::get_days_ranged") for x in walk(Tf.at_call(bi, t, i))):
                            day_params.add(i + 1)
        is_days = lambda x: is_call(x, "Span::get_days_ranged") or (isinstance(x, tuple) and x and x[0] == "param" and x[1] in day_params)
        for bi, t in mir.iter_calls(host):
            nm = t.get("path", "").split("::")[-1]
            if nm in ("yesterday", "tomorrow") and t.get("path", "").startswith("civil::date::Date::"):
                want = -1 if nm == "yesterday" else 1
                g = [strip_not(c, tr) for (c, tr, sb) in guards(host, cfg, T, bi)]
                ok = any(tr is True and c[0] == "call" and c[1].endswith("::eq") and
                         any(is_days(x) for x in walk(c[2][0])) and
                         any(x == ("const", want) for x in walk(c[2][1])) for (c, tr) in g)
                if ok:
                    rep.ok(rule, "fast path " + nm, how="guarded by days == %d" % want)
                else:
                    rep.violation(rule, "fast path " + nm, "%s() is not guarded by span days == %d" % (nm, want), host.loc())


def saturating(rep, prog, rule="SATURATING-TABLE"):
    rep.rule(rule, "saturating_add of Date/DateTime is checked_add(..).unwrap_or_else(closure) where the closure yields MIN exactly "
                   "when the operand is negative and MAX otherwise; saturating_sub negates and delegates")
    for ty in ("civil::date::Date", "civil::datetime::DateTime"):
        f = prog.jiff(ty + "::saturating_add")
        r = Terms(f).returns()
        shape = is_call(r, "::unwrap_or_else") and is_call(r[2][0], ty.split("::")[-1] + "::checked_add") and r[2][0][2][0] == SELF
        g = prog.fns.get(f.key + "::{closure#0}")
        table = {}
        if g is not None:
            T = Terms(g)
            cfg = mir.CFG(g)
            for bi, b in enumerate(g.blocks):
                for s in b["st"]:
                    if s["s"] == "=" and s["lhs"] == {"l": 0} and s["rv"]["k"] == "use" and s["rv"]["a"].get("o") == "c":
                        name = (s["rv"]["a"].get("def") or s["rv"]["a"].get("sym") or "").split("::")[-1]
                        for (c, tr, sb) in guards(g, cfg, T, bi):
                            c, tr = strip_not(c, tr)
                            if is_call(c, "::is_negative") and isinstance(tr, bool):
                                table[name] = tr
        if shape and table == {"MIN": True, "MAX": False}:
            rep.ok(rule, ty.split("::")[-1] + "::saturating_add", how="negative -> MIN, else MAX")
        else:
            rep.violation(rule, ty.split("::")[-1] + "::saturating_add", "shape %s, clamp table %s (expected MIN iff negative)" % (shape, table), f.loc())
        f = prog.jiff(ty + "::saturating_sub")
        r = Terms(f).returns()
        ok = any(is_call(a, "::saturating_add") and any(is_call(x, "checked_neg") for x in walk(a)) for a in alts(r))
        if ok:
            rep.ok(rule, ty.split("::")[-1] + "::saturating_sub", how="saturating_add(self, -duration)")
        else:
            rep.violation(rule, ty.split("::")[-1] + "::saturating_sub", "not a negate-and-delegate: %s" % show(r, maxd=5)[:200], f.loc())
