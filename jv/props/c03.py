"""C03 - offset/DST/abbreviation for an instant match the TZ data (narrow)."""
from ..rules_r5 import type_writers
from ..rules_shape import floor_a, const_agree
from ..rules_tz import floor_b, parse_order, find_key, in_dst_single, handover
from ..e5 import run_e5
from ..rules_dep import run_dep


def run(ctx, rep):
    run_dep(ctx, rep, "C03")
    prog = ctx.prog("Q")
    in_dst_single(rep, prog)
    handover(rep, prog)
    type_writers(rep, prog)
    rep.notes.append("Does not decide agreement with tzdata, the binary search, POSIX rule evaluation or fattening.")
    floor_b(rep, prog)
    floor_a(ctx, rep)
    parse_order(rep, prog)
    find_key(rep, prog)
    const_agree(rep, prog)
    run_e5(rep)
