"""C05 - fallible operations return errors: no panics, no out-of-range results."""
from ..rules_e1 import run_e1


def run(ctx, rep):
    run_e1(ctx, rep, lambda E: E.public_result_roots(), min_roots=300, min_sites=800)
