"""C05 - fallible operations return errors: no panics, no out-of-range results."""
from ..rules_e1 import run_e1
from ..rules_contract import run_contracts
from ..rules_e2 import run_e2


def run(ctx, rep):
    run_e1(ctx, rep, lambda E: E.public_result_roots(), min_roots=300, min_sites=800)
    run_contracts(ctx, rep)
    from ..rules_contract import transient_callers
    transient_callers(rep, ctx.prog("Q"))
    from ..rules_r5 import byte_guard, caller_ratchet
    byte_guard(rep, ctx.prog("Q"))
    caller_ratchet(rep, ctx.prog("Q"))
    if ctx.tier == "thorough":
        from ..rules_ranged import ranged_checked
        ranged_checked(ctx, rep)
    import os
    if os.path.exists(os.path.join(os.path.dirname(__file__), '..', '..', 'reviewed', 'ranged.tsv')):
        run_e2(ctx, rep, floor=500)
