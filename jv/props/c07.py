"""C07 - differences: panic-freedom, since = -until, zoned differences are zone-aware (narrow)."""
from ..term import Terms, show, alts, is_call, walk, inline_helpers
from .. import mir
from ..rules_pair import ym_pair
from ..rules_e1 import run_e1, by_names
from ..rules_dep import run_dep

TYPES = {"zoned::Zoned": "zoned_until", "timestamp::Timestamp": "timestamp_until", "civil::date::Date": "date_until",
         "civil::datetime::DateTime": "datetime_until", "civil::time::Time": "time_until"}
NEG = "<span::Span as core::ops::Neg>::neg"


def strip_neg(t, count):
    if not isinstance(t, tuple) or not t:
        return t
    if t[0] == "call" and t[1] == NEG:
        count[0] += 1
        return strip_neg(t[2][0], count)
    if t[0] == "phi":
        return ("phi", frozenset(strip_neg(x, count) for x in t[1]))
    if t[0] == "agg":
        return ("agg", t[1], t[2], tuple((n, strip_neg(x, count)) for n, x in t[3]))
    if t[0] == "call":
        return ("call", t[1], tuple(strip_neg(x, count) for x in t[2]))
    return tuple(strip_neg(x, count) if isinstance(x, tuple) else x for x in t)


def is_mode_negation(t):
    """negate_mode(cfg) or mode(cfg, <something computed by RoundMode::negate>)"""
    if not (isinstance(t, tuple) and t and t[0] == "call" and "SpanRound" in t[1]):
        return False
    if t[1].endswith("::negate_mode"):
        return True
    return t[1].endswith("::mode") and len(t[2]) > 1 and any(is_call(y, "RoundMode::negate") for y in walk(t[2][1]))


def normal_form(t, cnt):
    """strip Span negations (cnt['neg']), mode negations (cnt['mode']), `?` and Ok(..) wrappers; drop error alternatives"""
    if not isinstance(t, tuple) or not t:
        return t
    if t[0] == "call" and t[1] == NEG:
        cnt["neg"] += 1
        return normal_form(t[2][0], cnt)
    if is_mode_negation(t):
        cnt["mode"] += 1
        return normal_form(t[2][0], cnt)
    if t[0] == "try":
        return normal_form(t[1], cnt)
    if t[0] == "agg" and t[2] == "Ok":
        return normal_form(dict(t[3])["0"], cnt)
    if t[0] == "phi":
        return ("phi", frozenset(normal_form(x, cnt) for x in t[1] if x[0] != "residual"))
    if t[0] == "agg":
        return ("agg", t[1], t[2], tuple((n, normal_form(x, cnt)) for n, x in t[3]))
    if t[0] == "call":
        return ("call", t[1], tuple(normal_form(x, cnt) for x in t[2]))
    return tuple(normal_form(x, cnt) if isinstance(x, tuple) else x for x in t)


def run(ctx, rep):
    run_dep(ctx, rep, "C07")
    prog = ctx.prog("Q")
    rep.notes.append("Does not decide a + s == b, balance or sign consistency of units.")
    roots = []
    for ty in TYPES:
        roots += [ty + "::until", ty + "::since", ty + "::duration_until", ty + "::duration_since"]
    roots += ["span::Span::to_duration", "span::Span::total", "span::Span::round", "span::Span::compare", "span::Span::checked_add"]
    run_e1(ctx, rep, lambda E: by_names(E, roots), min_roots=20, min_sites=300)

    rep.rule("TWIN", "per datetime type, `since` is `until` with exactly one Span negation on every non-error return: the two have "
                     "the same returns once negations, `?`/Ok wrappers and the negation of the rounding mode are stripped; when "
                     "the rounding is relative to a datetime, the span that is rounded is the kernel's (from self to other) and "
                     "the negation is applied to the rounded result with the mode negated - rounding the negated span relative "
                     "to self measures calendar units on the wrong side of self, and since is then not the negation of until; "
                     "duration_since is duration_until with the operands swapped")
    for ty, dur in TYPES.items():
        fu, fs = prog.jiff(ty + "::until"), prog.jiff(ty + "::since")
        tu, tsn = Terms(fu).returns(), Terms(fs).returns()
        name = ty.split("::")[-1]
        cu, cs = {"neg": 0, "mode": 0}, {"neg": 0, "mode": 0}
        nu, ns = normal_form(tu, cu), normal_form(tsn, cs)
        good = [a for a in alts(tsn) if a[0] != "residual" and not (a[0] == "agg" and a[2] == "Err")]
        per_alt = []
        for a in good:
            c = {"neg": 0, "mode": 0}
            normal_form(a, c)
            per_alt.append(c["neg"])
        if set(alts(nu)) == set(alts(ns)) and cu["neg"] == 0 and cu["mode"] == 0 and per_alt and all(k == 1 for k in per_alt):
            rep.ok("TWIN", name + " until/since", how="since = until with one negation on each of %d non-error returns" % len(per_alt))
        else:
            rep.violation("TWIN", name + " until/since",
                          "since is not the negation of until: negations per non-error return of since=%s, in until=%d, "
                          "returns equal after stripping: %s" % (per_alt, cu["neg"], set(alts(nu)) == set(alts(ns))), fs.loc())
        for x in [y for y in walk(tsn) if is_call(y, "span::Span::round")]:
            span, cfg = x[2][0], x[2][1]
            pre = any(is_call(y, NEG) for y in walk(span))
            relative = any(y and y[0] == "call" and "SpanRound" in y[1] and y[1].endswith("::relative") for y in walk(cfg))
            modeneg = any(is_mode_negation(y) for y in walk(cfg))
            key = name + "::since rounding side"
            if pre and relative:
                rep.violation("TWIN", key, "the negated span is rounded relative to self: calendar units (month lengths, days of 23/25 "
                              "hours) are measured going away from `other`, so since differs from the negation of until "
                              "(2023-01-01 since/until 2023-06-16, months, half-expand: -5mo against 6mo)", fs.loc())
            elif pre and modeneg:
                rep.violation("TWIN", key, "the span is negated before rounding and the rounding mode is negated as well", fs.loc())
            elif not pre and not modeneg:
                rep.violation("TWIN", key, "the rounded span is negated afterwards but the rounding mode is not negated: ceil and floor "
                              "(and their half- variants) then apply to the negation of the span returned", fs.loc())
            else:
                rep.ok("TWIN", key, how="negated before rounding, not relative" if pre else "rounded from self to other with the mode negated, then negated")
        du, ds = prog.jiff(ty + "::duration_until"), prog.jiff(ty + "::duration_since")
        a, b = Terms(du).returns(), Terms(ds).returns()
        ok = (a[0] == "call" and b[0] == "call" and a[1] == b[1] and a[1].endswith(dur) and len(a[2]) == 2
              and a[2][0] == b[2][1] and a[2][1] == b[2][0] and a[2][0][0] == "param" and a[2][1][0] == "param" and a[2][0] != a[2][1])
        if ok:
            rep.ok("TWIN", ty.split("::")[-1] + " duration_until/since", how="%s(self, other) / %s(other, self)" % (dur, dur))
        else:
            rep.violation("TWIN", ty.split("::")[-1] + " duration_until/since", "duration twins are %s and %s" % (show(a), show(b)), ds.loc())

    rep.rule("TZ-DEP", "every non-error return of ZonedDifference::until_with_largest_unit is the exact-time difference of the two "
                       "instants (largest < Day), the empty span (equal instants), or a span that depends on re-resolving an "
                       "intermediate civil datetime in the zone (DateTime::to_zoned with the operands' time zone): a calendar-unit "
                       "difference that ignores the zone's rules between the endpoints is wrong for some zone")
    f = prog.jiff("zoned::ZonedDifference::<'a>::until_with_largest_unit")
    r = Terms(f).returns()
    n = 0
    for a in alts(r):
        if a[0] == "residual" or (a[0] == "agg" and a[2] == "Err"):
            continue
        n += 1
        exact = is_call(a, "timestamp::Timestamp::until") and is_call(a[2][0], "Zoned::timestamp")
        empty = a[0] == "agg" and a[2] == "Ok" and is_call(dict(a[3])["0"], "Span::new") and not dict(a[3])["0"][2]
        zoneaware = any(is_call(x, "DateTime::to_zoned") and any(is_call(y, "Zoned::time_zone") for y in walk(x[2][1])) for x in walk(a))
        key = "return#%d %s" % (n, "exact" if exact else "empty" if empty else "calendar")
        if exact or empty or zoneaware:
            rep.ok("TZ-DEP", key, how="exact-time" if exact else "empty span" if empty else "depends on to_zoned(mid, tz)")
        else:
            rep.violation("TZ-DEP", key, "a non-error return does not depend on the time zone: %s" % show(a, maxd=4)[:300], f.loc())
    rep.floor("TZ-DEP returns", n, 3)
    until_search(rep, prog)
    round_largest(rep, prog)
    ym_pair(rep, prog, floor=15)


def round_largest(rep, prog, rule="ROUND-LARGEST"):
    """The difference kernel balances up to the effective largest unit (explicit or the type's documented default); the
    rounding step that follows re-balances, and Span::round's own default (max(smallest, largest non-zero unit of the span))
    is a different one: 59m40s rounded to minutes becomes 60m, not 1h."""
    rep.rule(rule, "in until/since of every datetime type, the configuration handed to Span::round has its largest unit set "
                   "(SpanRound::largest) from a value that depends on the configured largest unit (and the rule notes "
                   "whether it is the helper the difference kernel uses): left unset, Span::round balances only up to the largest non-zero unit of the "
                   "unrounded span, so a rounded-up difference is not balanced to the documented default largest unit")
    n = 0
    for ty in TYPES:
        for m in ("until", "since"):
            f = prog.jiff(ty + "::" + m)
            key = "%s::%s" % (ty.split("::")[-1], m)
            r = Terms(f).returns()
            rounds = [x for x in walk(r) if is_call(x, "span::Span::round")]
            if not rounds:
                r = inline_helpers(r, prog, depth=1, pred=lambda g: "_with_largest_unit" not in g.name)
                rounds = [x for x in walk(r) if is_call(x, "span::Span::round")]
            if not rounds:
                rep.violation(rule, key, "anchor missing: no call of Span::round in the rounding branch", f.loc())
                continue
            kernels = {x[1] for x in walk(r) if x and x[0] == "call" and "_with_largest_unit" in x[1]}
            kcalls = set()
            for k in kernels:
                g = prog.fns.get("jiff::" + k)
                if g is not None:
                    kcalls |= {t.get("path", "") for _bi, t in mir.iter_calls(g)}
            for x in rounds:
                n += 1
                cfg = x[2][1] if len(x[2]) > 1 else None
                sets = [y for y in walk(cfg) if y and y[0] == "call" and "SpanRound" in y[1] and y[1].endswith("::largest")]
                if not sets:
                    rep.violation(rule, key, "Span::round is given the configuration without a largest unit (%s): it then balances up to "
                                  "max(smallest, largest non-zero unit of the span) and not to the type's default largest unit"
                                  % show(cfg, maxd=3)[:160], f.loc())
                    continue
                u = sets[0][2][1]
                dep = any(y and y[0] == "call" and "SpanRound" in y[1] and y[1].endswith("::get_largest")
                          for d in (0, 1, 2) for y in walk(inline_helpers(u, prog, depth=d)))
                same = u[0] == "call" and u[1] in kcalls
                if not dep:
                    rep.violation(rule, key, "the largest unit given to Span::round (%s) does not depend on the configured largest unit"
                                  % show(u, maxd=3)[:160], f.loc())
                else:
                    rep.ok(rule, key, how="largest := %s%s" % (show(u, maxd=2)[:80], " (same helper as the kernel)" if same
                                                               else " (agreement with the kernel's default not decided)"))
    rep.floor(rule + " rounding calls", n, 10)


def until_search(rep, prog, rule="UNTIL-SEARCH"):
    """the search for the intermediate datetime in the zoned difference"""
    from .. import mir
    from ..guards import guards, strip_not
    rep.rule(rule, "ZonedDifference::until_with_largest_unit (largest >= Day): (1) whenever the order of the two civil dates is not the "
                   "order of the two instants - the dates are equal, or reversed (a fold that straddles midnight: America/Goose_Bay "
                   "went from 00:01-03 back to 23:01-04 of the previous day) - the result is the exact elapsed time: a return of "
                   "Timestamp::until guarded by a comparison of the sign of (date2, date1) with the sign of (instant2, instant1). "
                   "Equality of the dates alone covers only half of it; without the guard the search for an intermediate datetime "
                   "runs on the wrong side and the calendar part and the remainder get opposite signs; (2) no failing return of "
                   "the search is selected by the direction of the difference (a test of `sign` against a constant): an overshoot "
                   "is retried with one more day in both directions, otherwise ordinary backward differences that end in the second "
                   "occurrence of a fold are errors; (3) whether the intermediate datetime overshoots the end is decided by comparing "
                   "INSTANTS (t::sign over the intermediate datetime re-resolved in the zone), never civil datetimes")
    f = prog.jiff("zoned::ZonedDifference::<'a>::until_with_largest_unit")
    T = Terms(f)
    cfg = mir.CFG(f)
    # (1)
    def over_dates(t_):
        return any(is_call(x, "DateTime::date") for x in walk(t_))

    def sign_of(t_, dates):
        """a t::sign(..) term over the civil dates (dates=True) or over the zoned values / instants (dates=False)"""
        for x in walk(t_):
            if is_call(x, "util::t::sign") and len(x[2]) == 2:
                if dates and all(over_dates(a_) for a_ in x[2]):
                    return True
                if not dates and not any(over_dates(a_) for a_ in x[2]):
                    return True
        return False
    same_date = order = False
    for bi, t in mir.iter_calls(f):
        if t.get("path", "").endswith("Timestamp::until"):
            for (c, truth, _sb) in guards(f, cfg, T, bi):
                c2, tr2 = strip_not(c, truth)
                if not (c2[0] == "call" and c2[1].rsplit("::", 1)[-1] in ("eq", "ne") and len(c2[2]) == 2):
                    continue
                is_eq = c2[1].rsplit("::", 1)[-1] == "eq"
                a_, b_ = c2[2]
                if all(over_dates(x_) for x_ in c2[2]) and not sign_of(c2, True):
                    if (is_eq and tr2 is True) or (not is_eq and tr2 is False):
                        same_date = True
                if (sign_of(a_, True) and sign_of(b_, False)) or (sign_of(b_, True) and sign_of(a_, False)):
                    # taken when the two signs differ
                    if (is_eq and tr2 is False) or (not is_eq and tr2 is True):
                        order = True
            # other spellings of the same test: any guard of this return that *orders* the two civil dates (lt/le/gt/ge/cmp)
            for (c, truth, _sb) in guards(f, cfg, T, bi):
                for x in walk(c):
                    if isinstance(x, tuple) and x and x[0] == "call" and x[1].rsplit("::", 1)[-1] in ("lt", "le", "gt", "ge", "cmp", "partial_cmp") \
                            and len(x[2]) == 2 and all(over_dates(a_) for a_ in x[2]):
                        order = True
    if order:
        rep.ok(rule, "civil date order vs instant order", how="exact elapsed time under sign(date2, date1) != sign(instant2, instant1)", loc=f.loc())
    elif same_date:
        rep.violation(rule, "civil date order vs instant order", "the exact elapsed time is returned only when the two civil dates are equal; "
                      "when they are in the reverse order of the instants (1987-10-25T00:00:30-03 until 1987-10-24T23:01:00-04 in "
                      "America/Goose_Bay, 30 seconds later) the calendar part is -1 day, the remainder +24h30s and the result "
                      "\"1d 24h 30s ago\"", f.loc())
    else:
        rep.violation(rule, "civil date order vs instant order", "no return of the exact elapsed time guarded by a comparison of the order "
                      "of the two civil dates with the order of the instants: two instants on one civil date inside a fold (01:30-04 "
                      "and 01:10-05 on 2024-11-03 in America/New_York) get a calendar search on the wrong side and a span of mixed "
                      "signs", f.loc())
    # (3) the overshoot test of the search compares instants
    inst = civ = 0
    for bi, t in mir.iter_calls(f):
        if t.get("path", "").endswith("util::t::sign") and len(t.get("args", [])) == 2:
            aa = [T.at_call(bi, t, i) for i in range(2)]
            if any(any(is_call(y, "DateTime::to_zoned") for y in walk(x)) for x in aa):
                inst += 1
            elif any(any(is_call(y, "Date::to_datetime") for y in walk(x)) for x in aa):
                civ += 1
    if inst >= 1 and civ == 0:
        rep.ok(rule, "overshoot test compares instants", how="%d t::sign over the intermediate datetime re-resolved in the zone (to_zoned), "
               "none over the civil intermediate datetime" % inst, loc=f.loc())
    else:
        rep.violation(rule, "overshoot test compares instants", "the search decides whether the intermediate datetime overshoots the end "
                      "with %d comparison(s) of the re-resolved zoned value and %d of the civil datetime: the day correction was "
                      "already chosen from the clock times, so a civil comparison never reports an overshoot; when the start's clock "
                      "time falls into a gap or fold on the end's date (2024-03-01T02:30 until 2024-03-10T03:10 in America/New_York) "
                      "the result has the wrong sign" % (inst, civ), f.loc())
    # (2)
    bad = []
    n_err = 0
    for bi, b in enumerate(f.blocks):
        for si, s in enumerate(b["st"]):
            if s["s"] == "=" and s["lhs"]["l"] == 0 and s["rv"]["k"] == "agg" and s["rv"].get("variant") == "Err":
                n_err += 1
                for (c, truth, _sb) in guards(f, cfg, T, bi):
                    c2, _tr2 = strip_not(c, truth)
                    if c2[0] == "call" and c2[1].rsplit("::", 1)[-1] in ("eq", "ne") and len(c2[2]) == 2:
                        a_, b_ = c2[2]
                        is_sign = lambda t_: any(is_call(x, "util::t::sign") for x in walk(t_)) and not any(is_call(x, "DateTime::to_zoned") for x in walk(t_))
                        # a comparison with 0 is the "same instant" test; a direction test compares with +-1
                        is_const = lambda t_: t_[0] == "call" and t_[1].rsplit("::", 1)[-1] in ("C", "N") and t_[2] and t_[2][0][0] == "const" \
                            and t_[2][0][1] != 0
                        if (is_sign(a_) and is_const(b_)) or (is_sign(b_) and is_const(a_)):
                            bad.append(s.get("ln"))
    if n_err == 0:
        rep.violation(rule, "direction-independent search", "anchor missing: no failing return found", f.loc())
    elif bad:
        rep.violation(rule, "direction-independent search", "the failing return at line(s) %s is selected by the direction of the difference "
                      "(sign compared with a constant): an overshoot of the first intermediate datetime is not retried in that "
                      "direction" % sorted(set(bad)), f.loc())
    else:
        rep.ok(rule, "direction-independent search", how="%d failing return(s), none selected by the direction" % n_err, loc=f.loc())
