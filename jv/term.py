"""Symbolic provenance terms over one function's MIR (E3 def-use library).

term(operand) follows definitions backwards and returns a nested tuple:
  ('param', i, name) | ('const', value-or-text) | ('call', path, (args...))
  ('field', base, name) | ('variant', base, Name) | ('agg', adt, Variant, ((field, term)...))
  ('try', x)         the success payload of `x?`
  ('bin', op, a, b) | ('un', op, a) | ('cast', a, ty) | ('disc', a)
  ('phi', frozenset(terms)) for locals with several definitions
  ('fnref', path) | ('closure', path) | ('loop',) | ('unknown', why)
References, copies, moves, reborrows and a table of pass-through calls are
transparent. Terms are hashable, so rules compare them structurally.
"""
from . import mir

PASS_THROUGH = {
    "core::clone::Clone::clone", "<T as core::convert::Into<U>>::into", "<T as core::convert::From<T>>::from",
    "core::ops::Deref::deref", "core::borrow::Borrow::borrow", "core::convert::AsRef::as_ref",
    "<std::sync::Arc<T, A> as core::ops::Deref>::deref",
}
PASS_SUFFIX = ("as core::clone::Clone>::clone", "as core::ops::Deref>::deref", "as error::ErrorContext>::with_context",
               "as error::ErrorContext>::context", "core::result::Result::<T, E>::map_err")


class Terms:
    def __init__(self, fn, max_depth=40):
        self.fn = fn
        self.du = mir.DefUse(fn)
        self.max_depth = max_depth
        self._memo = {}
        self._active = set()
        self.names = {i: l.get("n") for i, l in enumerate(fn["locals"])}

    # ------------------------------------------------------------------
    def local(self, l, depth=0):
        if l in self._memo:
            return self._memo[l]
        if self.du.is_arg(l):
            t = ("param", l, self.names.get(l) or "")
            self._memo[l] = t
            return t
        if l in self._active or depth > self.max_depth:
            return ("loop",)
        self._active.add(l)
        defs = self.du.defs.get(l, [])
        ts = set()
        partial = {}
        for (bb, idx, s) in defs:
            if idx == "term":
                if "p" in s["dest"]:
                    ts.add(("unknown", "partial-call-dest"))
                else:
                    ts.add(self.call_term(s, depth + 1))
                continue
            if s["s"] == "setdisc":
                continue
            lhs = s["lhs"]
            if "p" in lhs:
                # field-wise initialisation `_l.f = x`
                ps = lhs["p"]
                if len(ps) == 1 and isinstance(ps[0], dict) and "f" in ps[0]:
                    partial.setdefault(ps[0].get("n", str(ps[0]["f"])), set()).add(self.rvalue(s["rv"], depth + 1))
                else:
                    ts.add(("unknown", "deep-store"))
                continue
            ts.add(self.rvalue(s["rv"], depth + 1))
        self._active.discard(l)
        if partial and not ts:
            t = ("agg", "?", "?", tuple(sorted((k, self._phi(v)) for k, v in partial.items())))
        elif not ts:
            t = ("unknown", "no-def _%d" % l)
        else:
            t = self._phi(ts)
        self._memo[l] = t
        return t

    def _phi(self, ts):
        flat = set()
        for t in ts:
            if t[0] == "phi":
                flat |= set(t[1])
            else:
                flat.add(t)
        flat.discard(("loop",))
        if not flat:
            return ("loop",)
        if len(flat) == 1:
            return next(iter(flat))
        return ("phi", frozenset(flat))

    # ------------------------------------------------------------------
    def place(self, p, depth=0):
        t = self.local(p["l"], depth)
        for e in p.get("p", []):
            t = self.project(t, e)
        return t

    def project(self, t, e):
        if t[0] == "phi":
            return self._phi({self.project(x, e) for x in t[1]})
        if e == "*":
            return t
        if isinstance(e, str):
            return t
        if "f" in e:
            name = e.get("n", str(e["f"]))
            if t[0] == "agg":
                for (fname, ft) in t[3]:
                    if fname == name:
                        return ft
            if t[0] == "variant" and t[2] == "Continue" and t[1][0] == "call" and t[1][1].endswith("::Try>::branch") and name == "0":
                return ("try", t[1][2][0])
            return ("field", t, name)
        if "d" in e:
            if t[0] == "agg" and t[2] == e["d"]:
                return t
            return ("variant", t, e["d"])
        if "i" in e:
            return ("index", t, self.local(e["i"]))
        if "ci" in e:
            return ("index", t, ("const", e["ci"]))
        return ("unknown", "proj")

    def operand(self, op, depth=0):
        o = op.get("o")
        if o == "c":
            if "fn_path" in op:
                return ("fnref", op["fn_path"])
            if "v" in op:
                return ("const", op["v"])
            if "def" in op:
                return ("const", op["def"])
            if "s" in op:
                return ("const", op["s"])
            return ("const", op.get("sym", "?"))
        if o in ("cp", "mv"):
            return self.place(op, depth)
        return ("unknown", "operand")

    def rvalue(self, rv, depth=0):
        k = rv["k"]
        if k == "use":
            return self.operand(rv["a"], depth)
        if k in ("ref", "rawptr"):
            return self.place(rv["place"], depth)
        if k == "cast":
            a = self.operand(rv["a"], depth)
            if rv["kind"].startswith("PointerCoercion") or rv["kind"] in ("Transmute", "Subtype"):
                return a
            return ("cast", a, rv["ty"])
        if k == "bin":
            return ("bin", rv["op"], self.operand(rv["a"], depth), self.operand(rv["b"], depth))
        if k == "un":
            return ("un", rv["op"], self.operand(rv["a"], depth))
        if k == "disc":
            return ("disc", self.place(rv["place"], depth))
        if k == "agg":
            kind = rv.get("agg")
            ops = [self.operand(o, depth) for o in rv["ops"]]
            if kind == "adt":
                return ("agg", rv["adt"], rv["variant"], tuple(zip(rv["fields"], ops)))
            if kind == "tuple":
                return ("agg", "tuple", "tuple", tuple((str(i), o) for i, o in enumerate(ops)))
            if kind == "closure":
                return ("closure", rv["closure"], tuple(ops))
            return ("agg", kind, kind, tuple((str(i), o) for i, o in enumerate(ops)))
        if k == "repeat":
            return ("repeat", self.operand(rv["a"], depth))
        return ("unknown", k)

    def call_term(self, t, depth=0):
        path = t.get("path") or "indirect"
        args = tuple(self.operand(a, depth) for a in t["args"])
        if (path in PASS_THROUGH or path.endswith(PASS_SUFFIX)) and args:
            return args[0]
        if "::FromResidual<" in path and path.endswith(">::from_residual"):
            return ("residual", args[0] if args else None)
        return ("call", path, args)

    # ------------------------------------------------------------------
    def returns(self):
        """term of the returned value `_0`"""
        return self.local(0)


# ---------------------------------------------------------------- helpers
def walk(t):
    """pre-order traversal of all sub-terms"""
    stack = [t]
    while stack:
        x = stack.pop()
        yield x
        if not isinstance(x, tuple):
            continue
        if x and x[0] == "phi":
            stack.extend(x[1])
        elif x and x[0] == "agg":
            stack.extend(ft for (_, ft) in x[3])
        elif x and x[0] == "call":
            stack.extend(x[2])
        elif x and x[0] == "closure":
            stack.extend(x[2])
        else:
            for y in x[1:]:
                if isinstance(y, tuple):
                    stack.append(y)


def calls_in(t, suffix=None):
    out = []
    for x in walk(t):
        if isinstance(x, tuple) and x and x[0] == "call" and (suffix is None or x[1].endswith(suffix) or x[1] == suffix):
            out.append(x)
    return out


def alts(t):
    """alternatives of a phi (or the term itself)"""
    return list(t[1]) if isinstance(t, tuple) and t and t[0] == "phi" else [t]


def strip_try(t):
    while isinstance(t, tuple) and t and t[0] == "try":
        t = t[1]
    return t


def is_call(t, path_suffix):
    return isinstance(t, tuple) and t and t[0] == "call" and (t[1] == path_suffix or t[1].endswith(path_suffix))


def show(t, depth=0, maxd=6):
    if not isinstance(t, tuple) or not t:
        return str(t)
    if depth > maxd:
        return "..."
    k = t[0]
    if k == "param":
        return t[2] or "arg%d" % t[1]
    if k == "const":
        return repr(t[1])
    if k == "call":
        return "%s(%s)" % (t[1].split("::")[-1] if not t[1].startswith("<") else t[1][-40:], ", ".join(show(a, depth + 1, maxd) for a in t[2]))
    if k == "field":
        return "%s.%s" % (show(t[1], depth + 1, maxd), t[2])
    if k == "variant":
        return "%s as %s" % (show(t[1], depth + 1, maxd), t[2])
    if k == "try":
        return "%s?" % show(t[1], depth + 1, maxd)
    if k == "phi":
        return "phi{%s}" % " | ".join(sorted(show(x, depth + 1, maxd) for x in t[1]))
    if k == "agg":
        return "%s::%s{%s}" % (t[1].split("::")[-1], t[2], ", ".join("%s: %s" % (n, show(x, depth + 1, maxd)) for n, x in t[3]))
    return "%s(%s)" % (k, ", ".join(show(x, depth + 1, maxd) if isinstance(x, tuple) else str(x) for x in t[1:]))
