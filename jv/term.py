"""Symbolic provenance terms over one function's MIR (E3 def-use library).

term(operand) follows definitions backwards and returns a nested tuple:
  ('param', i, name) | ('const', value-or-text) | ('call', path, (args...))
  ('field', base, name) | ('variant', base, Name) | ('agg', adt, Variant, ((field, term)...))
  ('try', x)         the success payload of `x?`
  ('bin', op, a, b) | ('un', op, a) | ('cast', a, ty) | ('disc', a)
  ('phi', frozenset(terms)) for locals with several definitions
  ('fnref', path) | ('closure', path) | ('loop',) | ('unknown', why)
References, copies, moves, reborrows and a table of pass-through calls are
transparent. Terms are hashable, so rules compare them structurally.
"""
from . import mir

PASS_THROUGH = {
    "core::clone::Clone::clone", "<T as core::convert::Into<U>>::into", "<T as core::convert::From<T>>::from",
    "core::ops::Deref::deref", "core::borrow::Borrow::borrow", "core::convert::AsRef::as_ref",
    "<std::sync::Arc<T, A> as core::ops::Deref>::deref",
}
PASS_SUFFIX = ("as core::clone::Clone>::clone", "as core::ops::Deref>::deref", "as error::ErrorContext>::with_context",
               "as error::ErrorContext>::context", "core::result::Result::<T, E>::map_err")


class Terms:
    """Flow-sensitive when a position is given: `pos=(block, index)` with
    index a statement index or 'term'. Without a position every definition of
    a multiply-defined local is merged into a phi."""

    def __init__(self, fn, max_depth=60):
        self.fn = fn
        self.du = mir.DefUse(fn)
        self.cfg = mir.CFG(fn)
        self.max_depth = max_depth
        self._memo = {}
        self._defmemo = {}
        self._active = set()
        self.names = {i: l.get("n") for i, l in enumerate(fn["locals"])}
        # per local, per block: [(index, def)]
        self._bdefs = {}
        for l, ds in self.du.defs.items():
            per = {}
            for (bb, idx, s) in ds:
                n = len(fn.blocks[bb]["st"]) if idx == "term" else idx
                per.setdefault(bb, []).append((n, (bb, idx, s)))
            for bb in per:
                per[bb].sort(key=lambda x: x[0])
            self._bdefs[l] = per

    # ------------------------------------------------------------------
    def _pos_index(self, pos):
        bb, idx = pos
        return len(self.fn.blocks[bb]["st"]) if idx == "term" else idx

    def reaching(self, l, pos):
        """definitions of local l that reach position pos"""
        per = self._bdefs.get(l, {})
        bb, _ = pos
        n = self._pos_index(pos)
        best = None
        for (i, d) in per.get(bb, []):
            if i < n:
                best = d
        if best is not None:
            return [best], False
        out, seen, undef = [], set(), False
        stack = list(self.cfg.pred[bb])
        if bb == 0:
            undef = True
        while stack:
            p = stack.pop()
            if p in seen:
                continue
            seen.add(p)
            ds = per.get(p)
            if ds:
                # a call's destination is written on the normal edge only
                out.append(ds[-1][1])
                continue
            if p == 0:
                undef = True
            stack.extend(self.cfg.pred[p])
        return out, undef

    def local(self, l, depth=0, pos=None):
        if self.du.is_arg(l) and not self.du.defs.get(l):
            return ("param", l, self.names.get(l) or "")
        if pos is None:
            return self._local_all(l, depth)
        ds, undef = self.reaching(l, pos)
        ts = set()
        partial = {}
        for d in ds:
            self._def_term(l, d, depth, ts, partial)
        if undef and self.du.is_arg(l):
            ts.add(("param", l, self.names.get(l) or ""))
        if partial and not ts:
            return ("agg", "?", "?", tuple(sorted((k, self._phi(v)) for k, v in partial.items())))
        if not ts:
            return ("unknown", "no-def _%d" % l)
        return self._phi(ts)

    def _def_term(self, l, d, depth, ts, partial):
        (bb, idx, s) = d
        key = (l, bb, idx)
        if key in self._defmemo:
            t = self._defmemo[key]
            if isinstance(t, tuple) and t and t[0] == "__partial__":
                partial.setdefault(t[1], set()).add(t[2])
            else:
                ts.add(t)
            return
        if key in self._active or depth > self.max_depth:
            ts.add(("loop",))
            return
        self._active.add(key)
        try:
            pos = (bb, idx)
            if idx == "term":
                if "p" in s["dest"]:
                    t = ("unknown", "partial-call-dest")
                else:
                    t = self.call_term(s, depth + 1, pos=pos)
            elif s["s"] == "setdisc":
                t = ("unknown", "setdisc")
            else:
                lhs = s["lhs"]
                if "p" in lhs:
                    ps = lhs["p"]
                    if len(ps) == 1 and isinstance(ps[0], dict) and "f" in ps[0]:
                        t = ("__partial__", ps[0].get("n", str(ps[0]["f"])), self.rvalue(s["rv"], depth + 1, pos=pos))
                    else:
                        t = ("unknown", "deep-store")
                else:
                    t = self.rvalue(s["rv"], depth + 1, pos=pos)
        finally:
            self._active.discard(key)
        self._defmemo[key] = t
        if isinstance(t, tuple) and t and t[0] == "__partial__":
            partial.setdefault(t[1], set()).add(t[2])
        else:
            ts.add(t)

    def _local_all(self, l, depth=0):
        if l in self._memo:
            return self._memo[l]
        ts = set()
        partial = {}
        for d in self.du.defs.get(l, []):
            self._def_term(l, d, depth, ts, partial)
        if partial and not ts:
            t = ("agg", "?", "?", tuple(sorted((k, self._phi(v)) for k, v in partial.items())))
        elif not ts:
            t = ("param", l, self.names.get(l) or "") if self.du.is_arg(l) else ("unknown", "no-def _%d" % l)
        else:
            t = self._phi(ts)
        self._memo[l] = t
        return t

    def _phi(self, ts):
        flat = set()
        for t in ts:
            if t[0] == "phi":
                flat |= set(t[1])
            else:
                flat.add(t)
        if len(flat) > 1:
            flat.discard(("loop",))
        if not flat:
            return ("loop",)
        if len(flat) == 1:
            return next(iter(flat))
        return ("phi", frozenset(flat))

    # ------------------------------------------------------------------
    def place(self, p, depth=0, pos=None):
        t = self.local(p["l"], depth, pos)
        for e in p.get("p", []):
            t = self.project(t, e, pos)
        return t

    def project(self, t, e, pos=None):
        if t[0] == "phi":
            return self._phi({self.project(x, e, pos) for x in t[1]})
        if e == "*":
            return t
        if isinstance(e, str):
            return t
        if "f" in e:
            name = e.get("n", str(e["f"]))
            if t[0] == "agg":
                for (fname, ft) in t[3]:
                    if fname == name:
                        return ft
            if t[0] == "variant" and t[2] == "Continue" and t[1][0] == "call" and t[1][1].endswith("::Try>::branch") and name == "0":
                return ("try", t[1][2][0])
            return ("field", t, name)
        if "d" in e:
            if t[0] == "agg" and t[2] == e["d"]:
                return t
            return ("variant", t, e["d"])
        if "i" in e:
            return ("index", t, self.local(e["i"], 0, pos))
        if "ci" in e:
            return ("index", t, ("const", e["ci"]))
        return ("unknown", "proj")

    def operand(self, op, depth=0, pos=None):
        o = op.get("o")
        if o == "c":
            if "fn_path" in op:
                return ("fnref", op["fn_path"])
            if "v" in op:
                return ("const", op["v"])
            if "pointee_variant" in op:
                # `&Enum::Variant` constant (promoted): the same term as the by-value aggregate
                return ("agg", op.get("ty", "").lstrip("&").strip(), op["pointee_variant"], ())
            if "pointee_v" in op:
                return ("const", op["pointee_v"])
            if "def" in op:
                return ("const", op["def"])
            if "s" in op:
                return ("const", op["s"])
            return ("const", op.get("sym", "?"))
        if o in ("cp", "mv"):
            return self.place(op, depth, pos)
        return ("unknown", "operand")

    def rvalue(self, rv, depth=0, pos=None):
        k = rv["k"]
        if k == "use":
            return self.operand(rv["a"], depth, pos)
        if k in ("ref", "rawptr"):
            return self.place(rv["place"], depth, pos)
        if k == "cast":
            a = self.operand(rv["a"], depth, pos)
            if rv["kind"].startswith("PointerCoercion") or rv["kind"] in ("Transmute", "Subtype"):
                return a
            return ("cast", a, rv["ty"])
        if k == "bin":
            return ("bin", rv["op"], self.operand(rv["a"], depth, pos), self.operand(rv["b"], depth, pos))
        if k == "un":
            return ("un", rv["op"], self.operand(rv["a"], depth, pos))
        if k == "disc":
            return ("disc", self.place(rv["place"], depth, pos))
        if k == "agg":
            kind = rv.get("agg")
            ops = [self.operand(o, depth, pos) for o in rv["ops"]]
            if kind == "adt":
                return ("agg", rv["adt"], rv["variant"], tuple(zip(rv["fields"], ops)))
            if kind == "tuple":
                return ("agg", "tuple", "tuple", tuple((str(i), o) for i, o in enumerate(ops)))
            if kind == "closure":
                return ("closure", rv["closure"], tuple(ops))
            return ("agg", kind, kind, tuple((str(i), o) for i, o in enumerate(ops)))
        if k == "repeat":
            return ("repeat", self.operand(rv["a"], depth, pos))
        return ("unknown", k)

    def call_term(self, t, depth=0, pos=None):
        path = t.get("path") or "indirect"
        args = tuple(self.operand(a, depth, pos) for a in t["args"])
        if (path in PASS_THROUGH or path.endswith(PASS_SUFFIX)) and args:
            return args[0]
        if "::FromResidual<" in path and path.endswith(">::from_residual"):
            return ("residual", args[0] if args else None)
        if path in ("std::sync::RwLock::<T>::read", "std::sync::RwLock::<T>::write") and pos is not None:
            # distinguish lock acquisitions by their site
            return ("call", "%s@bb%d" % (path, pos[0]), args)
        return ("call", path, args)

    def at_call(self, bi, t, i):
        """term of argument i of the call terminator of block bi"""
        return self.operand(t["args"][i], 0, (bi, "term"))

    # ------------------------------------------------------------------
    def returns(self):
        """term of the returned value `_0` (flow-sensitive, merged over return blocks)"""
        ts = set()
        reach = self.cfg.reachable()
        for bi, b in enumerate(self.fn.blocks):
            if b["term"]["t"] == "return" and bi in reach:
                ts.add(self.local(0, 0, (bi, "term")))
        if not ts:
            return self._local_all(0)
        return self._phi(ts)


# ---------------------------------------------------------------- helpers
def walk(t):
    """pre-order traversal of all sub-terms"""
    stack = [t]
    while stack:
        x = stack.pop()
        yield x
        if not isinstance(x, tuple):
            continue
        if x and x[0] == "phi":
            stack.extend(x[1])
        elif x and x[0] == "agg":
            stack.extend(ft for (_, ft) in x[3])
        elif x and x[0] == "call":
            stack.extend(x[2])
        elif x and x[0] == "closure":
            stack.extend(x[2])
        else:
            for y in x[1:]:
                if isinstance(y, tuple):
                    stack.append(y)


def calls_in(t, suffix=None):
    out = []
    for x in walk(t):
        if isinstance(x, tuple) and x and x[0] == "call" and (suffix is None or x[1].endswith(suffix) or x[1] == suffix):
            out.append(x)
    return out


def alts(t):
    """the alternatives of a phi (nested phis flattened), or [t]"""
    if isinstance(t, tuple) and t and t[0] == "phi":
        out = []
        for x in t[1]:
            out.extend(alts(x))
        return out
    return [t]


def strip_try(t):
    while isinstance(t, tuple) and t and t[0] == "try":
        t = t[1]
    return t


def is_call(t, path_suffix):
    return isinstance(t, tuple) and t and t[0] == "call" and (t[1] == path_suffix or t[1].endswith(path_suffix))


def show(t, depth=0, maxd=6):
    if not isinstance(t, tuple) or not t:
        return str(t)
    if depth > maxd:
        return "..."
    k = t[0]
    if k == "param":
        return t[2] or "arg%d" % t[1]
    if k == "const":
        return repr(t[1])
    if k == "call":
        return "%s(%s)" % (t[1].split("::")[-1] if not t[1].startswith("<") else t[1][-40:], ", ".join(show(a, depth + 1, maxd) for a in t[2]))
    if k == "field":
        return "%s.%s" % (show(t[1], depth + 1, maxd), t[2])
    if k == "variant":
        return "%s as %s" % (show(t[1], depth + 1, maxd), t[2])
    if k == "try":
        return "%s?" % show(t[1], depth + 1, maxd)
    if k == "phi":
        return "phi{%s}" % " | ".join(sorted(show(x, depth + 1, maxd) for x in t[1]))
    if k == "agg":
        return "%s::%s{%s}" % (t[1].split("::")[-1], t[2], ", ".join("%s: %s" % (n, show(x, depth + 1, maxd)) for n, x in t[3]))
    return "%s(%s)" % (k, ", ".join(show(x, depth + 1, maxd) if isinstance(x, tuple) else str(x) for x in t[1:]))


# ---------------------------------------------------------------- patterns
class V:
    """pattern variable: binds on first use, must be equal afterwards"""
    def __init__(self, name):
        self.name = name


def C(suffix, *args):
    """pattern for a call whose resolved path ends with `suffix`"""
    return ("callp", suffix, tuple(args))


def TRY(p):
    return ("try", p)


def match(t, p, env=None):
    """structural match of term t against pattern p; returns the binding env or None"""
    env = {} if env is None else env
    if isinstance(p, V):
        if p.name in env:
            return env if env[p.name] == t else None
        env[p.name] = t
        return env
    if isinstance(p, tuple) and p and p[0] == "callp":
        if not (isinstance(t, tuple) and t and t[0] == "call"):
            return None
        if not (t[1] == p[1] or t[1].endswith(p[1])):
            return None
        if len(t[2]) != len(p[2]):
            return None
        for a, b in zip(t[2], p[2]):
            env = match(a, b, env)
            if env is None:
                return None
        return env
    if isinstance(p, tuple) and p and p[0] == "any":
        for q in p[1:]:
            e2 = match(t, q, dict(env))
            if e2 is not None:
                return e2
        return None
    if isinstance(p, tuple):
        if not isinstance(t, tuple) or len(t) != len(p):
            return None
        for a, b in zip(t, p):
            env = match(a, b, env)
            if env is None:
                return None
        return env
    return env if t == p else None


def ok_payloads(t):
    """payload terms of the `Ok(..)` alternatives of a returned term"""
    return [dict(a[3])["0"] for a in alts(t) if a[0] == "agg" and a[2] == "Ok"]


# ---------------------------------------------------------------- helper inlining
def subst_params(t, args):
    """replace ('param', i, name) by args[i-1] (1-based MIR locals) throughout term t"""
    if not isinstance(t, tuple) or not t:
        return t
    k = t[0]
    if k == "param":
        i = t[1]
        return args[i - 1] if 1 <= i <= len(args) else t
    if k == "phi":
        return ("phi", frozenset(subst_params(x, args) for x in t[1]))
    if k == "agg":
        return ("agg", t[1], t[2], tuple((n, subst_params(x, args)) for (n, x) in t[3]))
    if k in ("call", "closure"):
        return (k, t[1], tuple(subst_params(x, args) for x in t[2])) + tuple(t[3:])
    return tuple(subst_params(x, args) if isinstance(x, tuple) else x for x in t)


def inline_helpers(t, prog, crate="jiff", depth=1, max_blocks=60, _active=None, pred=None):
    """Replace calls of small functions of `crate` by their (parameter-substituted) return terms, `depth` levels deep.
    Shape rules use it so that extracting a few lines into a private helper does not change what they see.  Callees that
    are recursive, large, or unknown are left as calls."""
    if depth <= 0 or not isinstance(t, tuple) or not t:
        return t
    _active = _active or set()
    k = t[0]
    if k == "call":
        args = tuple(inline_helpers(a, prog, crate, depth, max_blocks, _active, pred) for a in t[2])
        key = crate + "::" + t[1]
        g = prog.fns.get(key)
        if g is not None and key not in _active and len(g.blocks) <= max_blocks and (g.get("argc") or 0) == len(args) \
                and (pred is None or pred(g)):
            try:
                r = Terms(g).returns()
            except Exception:
                r = None
            if r is not None:
                r = subst_params(r, args)
                return inline_helpers(r, prog, crate, depth - 1, max_blocks, _active | {key}, pred)
        return ("call", t[1], args) + tuple(t[3:])
    if k == "phi":
        return ("phi", frozenset(inline_helpers(x, prog, crate, depth, max_blocks, _active, pred) for x in t[1]))
    if k == "agg":
        return ("agg", t[1], t[2], tuple((n, inline_helpers(x, prog, crate, depth, max_blocks, _active, pred)) for (n, x) in t[3]))
    if k == "closure":
        return t
    return tuple(inline_helpers(x, prog, crate, depth, max_blocks, _active, pred) if isinstance(x, tuple) else x for x in t)
