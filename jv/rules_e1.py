"""E1 as a reusable rule: panic sites reachable from a root set."""
from . import e1
from .report import load_tsv

TRIVIAL = {"DIV-CONST", "TYPE", "WIDEN-OK"}

E1_CLAUSE = ("every panic site (explicit panic/assert/unreachable, listed std panicking calls, MIR Assert "
             "terminators) reachable over the resolved call graph from the root set is discharged by a sound "
             "local rule (LEN-GUARD, CONST-OK, WIDEN-OK, DIV-CONST, INTERVAL, OP-ARG, UNREACHABLE-BLOCK), carries a "
             "reviewed reason, or is a listed known finding")


def run_e1(ctx, rep, roots_fn, rule="E1", configs=None, min_roots=1, min_sites=1):
    reviewed = load_tsv("panics")
    rep.rule(rule, E1_CLAUSE)
    seen = {}
    tot_roots = tot_sites = tot_fns = 0
    for cfg in (configs or ctx.configs):
        E = ctx.e1(cfg)
        A = ctx.auto(cfg)
        roots = roots_fn(E)
        parent, sites = E.reachable_sites(roots)
        tot_roots = max(tot_roots, len(roots)); tot_sites = max(tot_sites, len(sites)); tot_fns = max(tot_fns, len(parent))
        for s in sites:
            key = s.key()
            if seen.get(key) == "classified":
                continue
            r = A.discharge(s)
            if r:
                if key not in seen:
                    rep.ok(rule, key, how=r, loc=s.loc(), nontrivial=r not in TRIVIAL)
                    seen[key] = "auto"
                continue
            # not discharged in this configuration (even if an earlier configuration discharged it)
            seen[key] = "classified"
            path = E.cg.path_to(parent, s.fn.key)
            chain = " -> ".join(k for (k, _, _) in path[:1] + path[-3:]) if len(path) > 4 else " -> ".join(k for (k, _, _) in path)
            shift = ""
            if key not in reviewed:
                grp = key.rsplit("#", 1)[0] + "#"
                nrev = sum(1 for k_ in reviewed if k_.startswith(grp))
                if nrev:
                    shift = (" | NOTE: %d reviewed site(s) of the same kind exist in this function; keys are ordinal within the "
                             "function, so a site inserted before them has SHIFTED their ordinals - re-read every `%s..` entry of "
                             "reviewed/panics.tsv against the code, not only this one" % (nrev, grp.split(" | ", 1)[1]))
            rep.classify(rule, key, reviewed, loc=s.loc(),
                         detail="%s | config %s | reachable from root via %s%s" % (s.src, cfg, chain, shift))
        rep.analysed.setdefault(cfg, {}).update({
            "bodies": len(E.prog.fns), "call_edges": sum(E.cg.stats.values()),
            rule + "_roots": len(roots), rule + "_reachable_fns": len(parent), rule + "_sites": len(sites)})
    rep.floor(rule + " roots", tot_roots, min_roots)
    rep.floor(rule + " reachable sites", tot_sites, min_sites)
    return set(seen)


def by_names(E, names, crate="jiff"):
    """roots: functions whose def path ends with one of `names`."""
    out = []
    for f in E.prog.fns.values():
        if f.crate != crate or f.is_closure:
            continue
        for n in names:
            if f.path == n or f.path.endswith("::" + n):
                out.append(f.key)
    return sorted(set(out))
