"""Entry point: python3 -m jv.run <property id> [--tier quick|thorough] [--replay path]"""
import argparse, importlib, json, os, sys, traceback
from . import facts, e1, e1_auto
from .report import Report, load_tsv

TIER_CONFIGS = {"quick": ["Q"], "thorough": ["Q", "T1", "T2a", "T2b", "T3"]}


class Ctx:
    def __init__(self, tier):
        self.tier = tier
        self.configs = TIER_CONFIGS[tier]
        self._e1 = {}
        self._auto = {}

    def prog(self, config="Q"):
        return facts.load(config)

    def e1(self, config="Q"):
        if config not in self._e1:
            self._e1[config] = e1.E1(self.prog(config))
        return self._e1[config]

    def auto(self, config="Q"):
        if config not in self._auto:
            a = e1_auto.Auto(self.prog(config))
            a.infer_params(self.e1(config).cg)
            self._auto[config] = a
        return self._auto[config]


def main():
    ap = argparse.ArgumentParser()
    ap.add_argument("prop")
    ap.add_argument("--tier", default=os.environ.get("VERIF_TIER") or "quick")
    ap.add_argument("--replay")
    a = ap.parse_args()
    tier = a.tier if a.tier in TIER_CONFIGS else "quick"
    if a.replay:
        with open(a.replay) as fh:
            r = json.load(fh)
        print("replaying rule %s on instance %s (re-runs the property's rules and filters)" % (r["rule"], r["instance"]))
    mod = importlib.import_module("jv.props." + a.prop.lower())
    rep = Report(a.prop, tier)
    ctx = Ctx(tier)
    rep.configs = list(ctx.configs)
    try:
        mod.run(ctx, rep)
    except facts.BuildFailed as e:
        print("ERROR: %s (the tree must compile for a static check)" % e)
        sys.exit(2)
    except facts.AnchorMissing as e:
        rep.anchor_missing(str(e))
    rc = rep.finish()
    if a.replay:
        hit = [o for o in rep.obs if o.status == "violation" and o.key == r["instance"] and o.rule == r["rule"]]
        print("replay: instance %s" % ("still violates" if hit else "no longer violates"))
        sys.exit(1 if hit else 0)
    sys.exit(rc)


if __name__ == "__main__":
    main()
