"""A small Rust lexer (comments dropped, literals kept whole) used for
token-level comparison of source files and for literal-table extraction."""
import re

_tok = re.compile(r"""
    (?P<ws>\s+)
  | (?P<lc>//[^\n]*)
  | (?P<rawstr>b?r(?P<h>\#*)"(?:.|\n)*?"(?P=h))
  | (?P<str>b?"(?:[^"\\]|\\.|\\\n)*")
  | (?P<char>b?'(?:[^'\\\n]|\\(?:x[0-9a-fA-F]{2}|u\{[0-9a-fA-F_]+\}|.))')
  | (?P<life>'[A-Za-z_][A-Za-z0-9_]*)
  | (?P<num>[0-9][0-9A-Za-z_]*(?:\.[0-9][0-9A-Za-z_]*)?)
  | (?P<id>(?:r\#)?[A-Za-z_][A-Za-z0-9_]*)
  | (?P<op>::|->|=>|==|!=|<=|>=|&&|\|\||\.\.=|\.\.\.|\.\.|<<=|>>=|<<|>>|\+=|-=|\*=|/=|%=|\^=|&=|\|=|[-+*/%^!&|=<>@.,;:\#$?~\\(){}\[\]])
""", re.X)


def tokenize(src):
    out = []
    i, n = 0, len(src)
    while i < n:
        if src.startswith("/*", i):
            depth, j = 1, i + 2
            while j < n and depth:
                if src.startswith("/*", j):
                    depth += 1; j += 2
                elif src.startswith("*/", j):
                    depth -= 1; j += 2
                else:
                    j += 1
            i = j
            continue
        m = _tok.match(src, i)
        if not m:
            out.append(("?", src[i])); i += 1
            continue
        k = m.lastgroup
        if k == "h":
            k = "rawstr"
        if k not in ("ws", "lc"):
            out.append((k, m.group(0)))
        i = m.end()
    return out


def normalize(tokens):
    """drop trailing commas before a closing bracket (rustfmt noise)"""
    out = []
    for t in tokens:
        if t[1] in (")", "]", "}") and out and out[-1][1] == ",":
            out.pop()
        out.append(t)
    return out
