"""Field and parameter contracts for the plain-integer types of
`shared::util::itime` / `shared::{Posix*, Tzif*}` and `SignedDuration`
(DESIGN.md section 3/E1 "field contracts").

The module header of itime.rs states that its routines "implicitly assume
that the inputs are valid"; this table makes the assumption explicit.  Every
entry is *assumed* where the field is read and *checked* (rule CONTRACT) at
every aggregate construction and field store of these types, in both copies
of the shared code; parameter contracts are assumed on entry and checked at
every call site (rule PRECOND).  Ranges come from util/t.rs (cross-checked by
CONST-AGREE in E4) or from the POSIX parser's own range checks.
"""
NS = 999_999_999
UNIX_S = (-377705023201, 253402207200)

FIELD = {
    # (adt path, variant or None, field name) -> (lo, hi)
    ("shared::util::itime::ITimestamp", None, "second"): UNIX_S,
    ("shared::util::itime::ITimestamp", None, "nanosecond"): (-NS, NS),
    ("shared::util::itime::IOffset", None, "second"): (-93599, 93599),
    ("shared::util::itime::IEpochDay", None, "epoch_day"): (-4371587, 2932896),
    ("shared::util::itime::IDate", None, "year"): (-9999, 9999),
    ("shared::util::itime::IDate", None, "month"): (1, 12),
    ("shared::util::itime::IDate", None, "day"): (1, 31),
    ("shared::util::itime::ITime", None, "hour"): (0, 23),
    ("shared::util::itime::ITime", None, "minute"): (0, 59),
    ("shared::util::itime::ITime", None, "second"): (0, 59),
    ("shared::util::itime::ITime", None, "subsec_nanosecond"): (0, NS),
    ("shared::util::itime::ITimeSecond", None, "second"): (0, 86399),
    ("shared::util::itime::ITimeNanosecond", None, "nanosecond"): (0, 86_399_999_999_999),
    ("shared::util::itime::IWeekday", None, "offset"): (1, 7),
    ("shared::PosixTime", None, "second"): (-604799, 604799),
    ("shared::PosixOffset", None, "second"): (-93599, 93599),
    ("shared::PosixDay", "JulianOne", "0"): (1, 365),
    ("shared::PosixDay", "JulianZero", "0"): (0, 365),
    ("shared::PosixDay", "WeekdayOfMonth", "month"): (1, 12),
    ("shared::PosixDay", "WeekdayOfMonth", "week"): (1, 5),
    ("shared::PosixDay", "WeekdayOfMonth", "weekday"): (0, 6),
    ("shared::TzifLocalTimeType", None, "offset"): (-93599, 93599),
    ("signed_duration::SignedDuration", None, "nanos"): (-NS, NS),
    # the fraction handed to Fractional::new by FractionalPrinter::print
    ("fmt::friendly::printer::FractionalPrinter", None, "fraction"): (0, NS),
}

# parameter contracts: fn path -> {param index (1-based MIR local): (lo, hi)}
PARAM = {
    "shared::util::itime::IWeekday::from_monday_zero_offset": {1: (0, 6)},
    "shared::util::itime::IWeekday::from_monday_one_offset": {1: (1, 7)},
    "shared::util::itime::IWeekday::from_sunday_zero_offset": {1: (0, 6)},
    "shared::util::itime::IWeekday::from_sunday_one_offset": {1: (1, 7)},
    # "assumes that year and month are valid" (rustdoc); day must be positive
    "shared::util::itime::IDate::try_new": {1: (-9999, 9999), 2: (1, 12), 3: (1, 127)},
    "shared::util::itime::IDate::from_day_of_year": {1: (-9999, 9999)},
    "shared::util::itime::IDate::from_day_of_year_no_leap": {1: (-9999, 9999)},
    "shared::util::itime::ITimestamp::from_second": {1: UNIX_S},
    # documented preconditions of panicking (non-Result) public constructors that
    # fallible paths call internally: assumed inside, checked at every internal
    # call site (external misuse of a `# Panics` API is out of scope)
    "civil::time::Time::constant": {1: (0, 23), 2: (0, 59), 3: (0, 59), 4: (0, 999_999_999)},
    "civil::time": {1: (0, 23), 2: (0, 59), 3: (0, 59), 4: (0, 999_999_999)},
    "civil::date::Date::at": {2: (0, 23), 3: (0, 59), 4: (0, 59), 5: (0, 999_999_999)},
    "civil::datetime::DateTime::constant": {4: (0, 23), 5: (0, 59), 6: (0, 59), 7: (0, 999_999_999)},
    "civil::datetime": {4: (0, 23), 5: (0, 59), 6: (0, 59), 7: (0, 999_999_999)},
    "tz::offset": {1: (-25, 25)},
    # pub(crate) constructor with a documented precondition (only a debug_assert in the body): the callers owe it
    "signed_duration::SignedDuration::new_unchecked": {2: (-NS, NS)},
    "signed_duration::SignedDuration::from_hours": {1: (-2_562_047_788_015_215, 2_562_047_788_015_215)},
    "signed_duration::SignedDuration::from_mins": {1: (-153_722_867_280_912_930, 153_722_867_280_912_930)},
    "tz::offset::Offset::constant": {1: (-25, 25)},
    "timestamp::Timestamp::constant": {1: UNIX_S, 2: (-NS, NS)},
    # Fractional::new asserts 0 <= value <= 999_999_999 ("This panics if the value given isn't in the range"): the callers
    # owe it, at every call site (a reviewed reason on the assert that lists today's callers would silently cover a caller
    # whose arithmetic changed - seed C15-c)
    "fmt::util::Fractional::new": {2: (0, 999_999_999)},
    "fmt::util::FractionalFormatter::format": {2: (0, 999_999_999)},
    "fmt::WriteExt::write_fraction": {3: (0, 999_999_999)},
    "fmt::strtime::format::<impl fmt::strtime::Extension>::write_fractional_seconds": {2: (0, 999_999_999)},
    # unchecked entrances used by tz::tzif on validated TZif fields
    "tz::offset::Offset::from_seconds_unchecked": {1: (-93599, 93599)},
}
