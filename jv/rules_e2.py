"""E2 as a rule pack: obligations of the ranged-integer value analysis."""
from . import e2
from .e1 import norm_key
from .report import load_tsv

CLAUSES = {
    "O-UNCHECKED": "every unchecked entrance into a ranged type (new_unchecked, Composite::to_rint) receives a value whose interval lies within the declared bounds",
    "O-NARROW": "every unchecked conversion (rfrom/rinto) into a ranged type whose bounds do not contain the source type's bounds receives a value whose interval lies within the target bounds",
    "O-REPR": "non-wrapping ranged arithmetic cannot leave the primitive representation (release builds would wrap silently, debug builds panic)",
    "O-WRAPMOD": "a value produced by wrapping arithmetic that may actually have wrapped does not flow into a division or remainder",
    "O-WRAP-PRIM": "wrapping_* is only used on ranged types spanning their whole primitive (otherwise unimplemented!())",
    "O-DIVZERO": "the divisor of ranged division/remainder cannot be zero",
    "O-BOUNDARY": "a ranged value that is returned, passed to a non-rangeint function or stored in a field lies within the declared bounds of that type",
    "E2-BAILED": "the value analysis converged",
}


def run_e2(ctx, rep, select=lambda f: True, cfg=None, floor=0, label="E2"):
    """quick: configuration Q; thorough: every configuration of the tier (a site already decided in an earlier
    configuration is re-analysed and reported again only if it is no longer discharged)."""
    for k, v in CLAUSES.items():
        rep.rule(k, v)
    reviewed = load_tsv("ranged")
    seen = {}
    best = 0
    for cfg in ([cfg] if cfg else ctx.configs):
        prog = ctx.prog(cfg)
        A = ctx.auto(cfg)
        n = 0
        nf = 0
        for f in sorted(prog.fns.values(), key=lambda f: f.key):
            if f.crate != "jiff" or f.file == "src/util/rangeint.rs" or not select(f):
                continue
            nf += 1
            an, obl = e2.analyse(f, A)
            ords = {}
            for (kind, bi, ok, detail, ln, tag) in obl:
                n += 1
                ords[(kind, tag)] = ords.get((kind, tag), 0) + 1
                key = norm_key("%s | %s | %s#%d" % (f.key, kind, tag, ords[(kind, tag)]))
                loc = "%s:%s" % (f.file, ln)
                if seen.get(key) == "classified":
                    continue
                if ok:
                    if key not in seen:
                        rep.ok(kind, key, how=detail[:120], loc=loc, nontrivial=kind not in ("O-WRAP-PRIM",))
                        seen[key] = "auto"
                else:
                    seen[key] = "classified"
                    rep.classify(kind, key, reviewed, loc=loc, detail=("config %s | " % cfg) + detail[:300])
        rep.analysed.setdefault(cfg, {}).update({label + "_functions": nf, label + "_obligations": n})
        best = max(best, n)
    rep.floor(label + " obligations", best, floor)
