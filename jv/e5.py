"""E5 - shared-copy drift between src/shared/** and the generated copy in
crates/jiff-static/src/shared/** (re-implements `jiff-cli generate shared`)."""
import os, re
from .rusttok import tokenize, normalize
from .facts import REPO

_only = re.compile(r"^[ \t]*//\s+only-jiff-start\n(?:.|\n)+?\n[ \t]*//\s+only-jiff-end\n", re.M)
_cfg = re.compile(r'#\[cfg\(feature = "alloc"\)\]\n')


def transform(code):
    return _only.sub("", _cfg.sub("", code))


def listing(root):
    out = []
    for d, _, fs in os.walk(root):
        for f in fs:
            out.append(os.path.relpath(os.path.join(d, f), root))
    return sorted(out)


def run_e5(rep, rule="E5"):
    rep.rule(rule, "every file of src/shared/** equals, token for token after `jiff-cli generate shared`'s two "
                   "textual transformations, its counterpart under crates/jiff-static/src/shared/** and the two "
                   "listings are equal (one parser, one copy)")
    a_root = os.path.join(REPO, "src/shared")
    b_root = os.path.join(REPO, "crates/jiff-static/src/shared")
    la, lb = listing(a_root), listing(b_root)
    if la != lb:
        rep.violation(rule, "listing", "file listings differ: only in src/shared: %s; only in jiff-static: %s"
                      % (sorted(set(la) - set(lb)), sorted(set(lb) - set(la))), loc="src/shared")
    else:
        rep.ok(rule, "listing", how="equal listings (%d files)" % len(la), nontrivial=False)
    n = 0
    for f in sorted(set(la) & set(lb)):
        if not f.endswith(".rs"):
            continue
        n += 1
        with open(os.path.join(a_root, f)) as fh:
            ta = normalize(tokenize(transform(fh.read())))
        with open(os.path.join(b_root, f)) as fh:
            tb = normalize(tokenize(fh.read()))
        if ta == tb:
            rep.ok(rule, "shared/" + f, how="token streams equal (%d tokens)" % len(ta))
            continue
        i = 0
        while i < min(len(ta), len(tb)) and ta[i] == tb[i]:
            i += 1
        ctx_a = " ".join(t[1] for t in ta[max(0, i - 6):i + 6])
        ctx_b = " ".join(t[1] for t in tb[max(0, i - 6):i + 6])
        rep.violation(rule, "shared/" + f,
                      "copies diverge at token %d: src/shared has `%s`, jiff-static has `%s`" % (i, ctx_a, ctx_b),
                      loc="src/shared/" + f)
    rep.floor(rule + " files", n, 11)
