"""E2 - ranged-integer value analysis (release semantics of util::rangeint).

Every `riN<MIN, MAX>` value is tracked as a plain integer interval. The
declared bounds are the contract at boundaries (parameters, fields, results of
non-rangeint calls) and are *checked* where a ranged value is created without
a check:

  O-UNCHECKED  new_unchecked(v) / Composite::to_rint: interval(v) within bounds
  O-NARROW     rfrom / rinto / without_bounds into a type whose bounds do not
               contain the source interval
  O-REPR       non-wrapping arithmetic whose mathematical result does not fit
               the representation (release builds wrap silently)
  O-WRAPMOD    a value that may have wrapped flows into a division/remainder
  O-WRAP-PRIM  wrapping_* on a non-primitive ranged type (unimplemented!())
  O-BOUNDARY   a ranged value returned, passed to a non-rangeint function or
               stored in a field lies within the declared bounds of that type

The debug-only tracked min/max of rangeint are *not* modelled: they are
functions of the path, not of the input, and are computed component-wise
(min op min, max op max), not as intervals.
"""
import re
from . import mir
from .absint import (AV, TOP, PRIM, BITS, ranged_bounds, fits, clip, iv_add, iv_sub, iv_mul, iv_neg,
                     iv_div_trunc, iv_rem_trunc, iv_div_euclid, iv_rem_euclid, strip_refs, payload_type, _opkey)

_inh = re.compile(r"^util::rangeint::ri(\d+)::<MIN, MAX>::(\w+)$")
_bin = re.compile(r"^<util::rangeint::ri(\d+)<[^>]*> as core::ops::(Add|Sub|Mul|Div|Rem)(Assign)?<(.*)>>::(\w+)$")
_neg = re.compile(r"^<util::rangeint::ri(\d+)<MIN, MAX> as core::ops::Neg>::neg$")
_rfrom = re.compile(r"^<(.*) as util::rangeint::(Try)?RFrom<(.*)>>::(try_)?rfrom$")
_from_prim = re.compile(r"^util::rangeint::<impl core::convert::From<util::rangeint::ri\d+<MIN, MAX>> for (\w+)>::from$")
_constN = re.compile(r"::(N|N128)::<(-?\d+)>$")
_constV = re.compile(r"::V::<(-?\d+), (-?\d+), (-?\d+)>$")


def repr_range(bits):
    return PRIM["i%d" % bits]


def rb(ty):
    r = ranged_bounds(strip_refs(ty or ""))
    return r


class E2Hooks:
    """Analyzer hooks implementing the rangeint transfer functions and
    collecting obligations (only while `collect` is set)."""

    def __init__(self):
        self.collect = False
        self.obl = []          # (kind, bb, ok, detail)

    def note(self, an, kind, where, ok, detail):
        if self.collect:
            bi = where[0] if isinstance(where, tuple) else where
            t = an.fn.blocks[bi]["term"]
            tag = _short(t.get("fn") or t.get("path") or "?") if t["t"] == "call" else "?"
            self.obl.append((kind, bi, bool(ok), detail, tag))

    # ------------------------------------------------------------------
    def call(self, an, st, t, avs, where):
        path = t.get("path", "")
        if "rangeint" not in path and "util::t::" not in path:
            return self.boundary_args(an, st, t, avs, where)
        dest_ty = t.get("dest_ty") or ""
        if path in ("util::t::C", "util::t::C128"):
            return AV(iv=avs[0].iv) if avs and avs[0].iv is not None else None
        if path == "<util::t::Constant as core::ops::Neg>::neg" and avs and avs[0].iv is not None:
            return AV(iv=iv_neg(avs[0].iv))
        mcc = re.match(r"^<util::t::Constant as core::ops::(Add|Sub|Mul|Div|Rem)(?:<util::t::Constant>)?>::\w+$", path)
        if mcc and len(avs) == 2 and avs[0].iv is not None and avs[1].iv is not None:
            f = {"Add": iv_add, "Sub": iv_sub, "Mul": iv_mul, "Div": iv_div_trunc, "Rem": iv_rem_trunc}[mcc.group(1)]
            r = f(avs[0].iv, avs[1].iv)
            return AV(iv=r) if r is not None else None
        db = rb(dest_ty)
        mcr = re.match(r"^<util::t::Constant as core::ops::(Add|Sub|Mul|Div|Rem)<util::rangeint::ri(\d+)<[^>]*>>>::\w+$", path)
        if mcr and len(avs) == 2 and avs[0].iv is not None:
            bits = int(mcr.group(2))
            rr = repr_range(bits)
            b_ = rb(t["arg_tys"][1])
            biv = avs[1].iv if avs[1].iv is not None else ((b_[1], b_[2]) if b_ else rr)
            f = {"Add": iv_add, "Sub": iv_sub, "Mul": iv_mul, "Div": iv_div_euclid, "Rem": iv_rem_euclid}[mcr.group(1)]
            r = f(avs[0].iv, biv)
            if mcr.group(1) in ("Add", "Sub", "Mul"):
                self.note(an, "O-REPR", where, r is not None and fits(r, rr), "%s of constant %s and %s leaves the %d-bit representation"
                          % (mcr.group(1), avs[0].iv, biv, bits))
            return AV(iv=r if (r is not None and fits(r, rr)) else rr)
        a0 = avs[0] if avs else TOP
        a0b = rb(t["arg_tys"][0]) if t.get("arg_tys") else None
        full = t.get("fn", "")

        m = _inh.match(path)
        if m:
            bits, name = int(m.group(1)), m.group(2)
            rr = repr_range(bits)
            sb = rb(re.sub(r"::\w+(::<.*>)?$", "", full).replace("::<", "<", 1)) or a0b
            # the receiver's declared bounds are in the full callee string
            mm = re.match(r"^util::rangeint::ri\d+::<(-?\d+|i\d+::M\w+), (-?\d+|i\d+::M\w+)>", full)
            if mm:
                from .absint import _bound
                sb = (bits, _bound(mm.group(1)), _bound(mm.group(2)))
            bounds = (sb[1], sb[2]) if sb else rr
            if name in ("N", "N128"):
                mc = _constN.search(full)
                if mc:
                    v = int(mc.group(2))
                    return AV(iv=(v, v))
                return AV(iv=bounds)
            if name == "V":
                mc = _constV.search(full)
                if mc:
                    v = int(mc.group(1))
                    return AV(iv=(v, v))
                return AV(iv=bounds)
            if name == "new_unchecked":
                iv = a0.iv
                ok = iv is not None and fits(iv, bounds)
                self.note(an, "O-UNCHECKED", where, ok, "new_unchecked(%s) into %s" % (iv, bounds))
                return AV(iv=clip(iv, bounds) if ok else bounds)
            if name in ("new", "new_const", "try_new", "try_new128"):
                src = avs[-1] if avs else TOP
                return AV(pay=clip(src.iv, bounds) if src.iv is not None else bounds)
            if name == "constrain":
                return AV(iv=clip(a0.iv, bounds) if a0.iv is not None else bounds)
            if name in ("get", "get_unchecked"):
                iv = a0.iv if a0.iv is not None else bounds
                return AV(iv=clip(iv, PRIM.get(dest_ty, rr)))
            if name == "contains":
                # a range test of a primitive against the type's own bounds: the true edge refines the argument
                res = (0, 1)
                if a0.iv is not None:
                    if bounds[0] <= a0.iv[0] and a0.iv[1] <= bounds[1]:
                        res = (1, 1)
                    elif a0.iv[1] < bounds[0] or a0.iv[0] > bounds[1]:
                        res = (0, 0)
                if t.get("args") and t["args"][0].get("o") != "c":
                    return AV(iv=res, cmp=("inrange", _opkey(t["args"][0]), bounds[0], bounds[1]))
                return AV(iv=res)
            if name == "without_bounds":
                return AV(iv=a0.iv if a0.iv is not None else bounds, mod=None)
            if name == "abs":
                if a0.iv is None:
                    return AV(iv=bounds)
                lo = 0 if a0.iv[0] <= 0 <= a0.iv[1] else min(abs(a0.iv[0]), abs(a0.iv[1]))
                r = (lo, max(abs(a0.iv[0]), abs(a0.iv[1])))
                self.note(an, "O-REPR", where, fits(r, rr), "abs of %s" % (a0.iv,))
                return AV(iv=r if fits(r, rr) else rr)
            if name == "signum":
                iv = a0.iv or bounds
                return AV(iv=(-1 if iv[0] < 0 else (0 if iv[0] == 0 else 1), 1 if iv[1] > 0 else (0 if iv[1] == 0 else -1)))
            b = avs[1] if len(avs) > 1 else None
            biv = b.iv if b is not None else None
            aiv = a0.iv if a0.iv is not None else bounds
            if name in ("min", "max") and biv is not None:
                f = min if name == "min" else max
                return AV(iv=(f(aiv[0], biv[0]), f(aiv[1], biv[1])))
            if name == "clamp" and len(avs) == 3 and avs[1].iv and avs[2].iv:
                lo, hi = max(aiv[0], avs[1].iv[0]), min(aiv[1], avs[2].iv[1])
                return AV(iv=(lo, hi) if lo <= hi else (avs[1].iv[0], avs[2].iv[1]))
            if name in ("div_ceil", "div_floor", "rem_ceil", "rem_floor") and biv is not None:
                f = {"div_ceil": iv_div_trunc, "div_floor": iv_div_euclid, "rem_ceil": iv_rem_trunc, "rem_floor": iv_rem_euclid}[name]
                if a0.mod is not None or (b is not None and b.mod is not None):
                    self.note(an, "O-WRAPMOD", where, False, "%s of a value that may have wrapped" % name)
                r = f(aiv, biv)
                self.note(an, "O-DIVZERO", where, r is not None, "%s by %s" % (name, biv))
                return AV(iv=r if (r is not None and fits(r, rr)) else rr)
            if name in ("checked_add", "checked_sub", "checked_mul", "try_checked_add", "try_checked_sub", "try_checked_mul"):
                arg = avs[-1]
                f = {"add": iv_add, "sub": iv_sub, "mul": iv_mul}[name.split("_")[-1]]
                r = f(aiv, arg.iv) if arg.iv is not None else None
                return AV(pay=clip(r, bounds) if r is not None else bounds)
            if name in ("wrapping_add", "wrapping_sub", "wrapping_mul") and biv is not None:
                prim = bounds == rr
                self.note(an, "O-WRAP-PRIM", where, prim, "%s on ranged type with bounds %s" % (name, bounds))
                f = {"wrapping_add": iv_add, "wrapping_sub": iv_sub, "wrapping_mul": iv_mul}[name]
                r = f(aiv, biv)
                if fits(r, rr):
                    return AV(iv=r)
                return AV(iv=rr, mod=(bits, r))     # may have wrapped
            if name in ("saturating_add", "saturating_sub", "saturating_mul") and biv is not None:
                f = {"saturating_add": iv_add, "saturating_sub": iv_sub, "saturating_mul": iv_mul}[name]
                return AV(iv=clip(f(aiv, biv), bounds))
            if name in ("vary", "vary_many", "debug", "to_error_with_bounds", "error"):
                return None
            return None

        m = _bin.match(path)
        if m:
            bits, op, assign = int(m.group(1)), m.group(2), m.group(3)
            rr = repr_range(bits)
            if assign:
                # `*self op= rhs`: the receiver is a &mut reference
                tgt = a0.ref
                cur = an.read_place(st, _place_of(tgt)) if tgt is not None else TOP
                lhs_iv = cur.iv if cur.iv is not None else ((a0b[1], a0b[2]) if a0b else rr)
                lmod = cur.mod
            else:
                lhs_iv = a0.iv if a0.iv is not None else ((a0b[1], a0b[2]) if a0b else rr)
                lmod = a0.mod
            b = avs[1] if len(avs) > 1 else TOP
            bb_ = rb(t["arg_tys"][1]) if len(t.get("arg_tys", [])) > 1 else None
            biv = b.iv if b.iv is not None else ((bb_[1], bb_[2]) if bb_ else None)
            if biv is None:
                res = AV(iv=rr)
            else:
                if op in ("Div", "Rem") and (lmod is not None or b.mod is not None):
                    self.note(an, "O-WRAPMOD", where, False, "%s of a value that may have wrapped (wrapping arithmetic then reduction)" % op)
                f = {"Add": iv_add, "Sub": iv_sub, "Mul": iv_mul, "Div": iv_div_euclid, "Rem": iv_rem_euclid}[op]
                r = f(lhs_iv, biv)
                if op in ("Div", "Rem"):
                    self.note(an, "O-DIVZERO", where, r is not None, "%s by %s" % (op, biv))
                else:
                    self.note(an, "O-REPR", where, r is not None and fits(r, rr),
                              "%s of %s and %s leaves the %d-bit representation" % (op, lhs_iv, biv, bits))
                res = AV(iv=r if (r is not None and fits(r, rr)) else rr)
            if assign:
                if a0.ref is not None:
                    an.kill_prefix(st, a0.ref)
                    st.vals[a0.ref] = res
                return TOP
            return res

        if _neg.match(path):
            bits = int(_neg.match(path).group(1))
            rr = repr_range(bits)
            iv = a0.iv if a0.iv is not None else ((a0b[1], a0b[2]) if a0b else rr)
            r = iv_neg(iv)
            self.note(an, "O-REPR", where, fits(r, rr), "negation of %s" % (iv,))
            return AV(iv=r if fits(r, rr) else rr)

        m = _rfrom.match(path)
        if m or path in ("<T as util::rangeint::RInto<U>>::rinto", "util::rangeint::RInto::rinto",
                         "<T as util::rangeint::TryRInto<U>>::try_rinto", "util::rangeint::TryRInto::try_rinto"):
            is_try = "try_r" in path
            src = avs[-1] if avs else TOP
            sty = t["arg_tys"][-1] if t.get("arg_tys") else ""
            sbnd = rb(sty)
            siv = src.iv if src.iv is not None else ((sbnd[1], sbnd[2]) if sbnd else PRIM.get(strip_refs(sty)))
            if is_try:
                pt = payload_type(dest_ty)
                pb = rb(pt) if pt else None
                tgt = (pb[1], pb[2]) if pb else PRIM.get(pt)
                return AV(pay=clip(siv, tgt) if (siv is not None and tgt is not None) else tgt)
            tgt = (db[1], db[2]) if db else PRIM.get(dest_ty)
            if tgt is None:
                return None
            if siv is None:
                siv = tgt
            decl_src = (sbnd[1], sbnd[2]) if sbnd else PRIM.get(strip_refs(sty))
            widening = decl_src is not None and fits(decl_src, tgt)
            ok = fits(siv, tgt)
            if src.mod is not None:
                ok = False
            if not widening:
                self.note(an, "O-NARROW", where, ok, "%s -> %s: value interval %s vs target bounds %s"
                          % (strip_refs(sty).split("::")[-1], (dest_ty or "").split("::")[-1], siv, tgt))
            return AV(iv=clip(siv, tgt) if ok else tgt, mod=None)

        m = _from_prim.match(path)
        if m:
            iv = a0.iv if a0.iv is not None else ((a0b[1], a0b[2]) if a0b else None)
            tr_ = PRIM.get(m.group(1))
            return AV(iv=clip(iv, tr_) if iv else tr_)

        # Composite<T>::to_rint: unchecked in release
        if path.startswith("util::rangeint::Composite::<") and path.endswith("::to_rint"):
            if db:
                self.note(an, "O-UNCHECKED", where, False, "Composite::to_rint into %s (unchecked entrance)" % ((db[1], db[2]),))
                return AV(iv=(db[1], db[2]))
        if path.endswith("::try_to_rint") and payload_type(dest_ty):
            pb = rb(payload_type(dest_ty))
            return AV(pay=(pb[1], pb[2]) if pb else None)
        return None

    # ------------------------------------------------------------------
    def boundary_args(self, an, st, t, avs, where):
        """O-BOUNDARY at calls of non-rangeint functions: ranged arguments lie
        within the declared bounds of the parameter type."""
        if not self.collect:
            return None
        for i, (a, ty) in enumerate(zip(avs, t.get("arg_tys", []))):
            b = rb(ty) if not ty.startswith("&") else None
            if b is None:
                continue
            iv = a.iv
            if iv is None:
                continue
            bounds = (b[1], b[2])
            ok = fits(iv, bounds) and a.mod is None
            if not ok or iv != bounds:
                self.note(an, "O-BOUNDARY", where, ok, "argument %d of %s: value interval %s vs declared %s"
                          % (i, t.get("path", "?").split("::")[-1], iv, bounds))
        return None


_short_re = re.compile(r"util::rangeint::|util::t::|core::ops::|core::convert::|shared::util::itime::")


def _short(path):
    """compact, configuration-independent rendering of a callee with its generic arguments"""
    p = _short_re.sub("", path)
    return p if len(p) <= 110 else p[:110]


def _place_of(key):
    from .absint import _key_to_place
    return _key_to_place(key)


def analyse(fn, auto):
    """Run the value analysis of one function with the E2 hooks and return
    the list of obligations [(kind, bb, ok, detail, line)]."""
    from .absint import Analyzer
    h = E2Hooks()
    hooks = dict(auto.hooks)
    hooks["call"] = h.call
    an = Analyzer(fn, auto.prog, auto.contracts, auto.summary, hooks, auto.param_contracts)
    an.run()
    if an.bailed:
        return an, [("E2-BAILED", 0, False, "analysis did not converge", fn.line, "-")]
    h.collect = True
    for bi in sorted(an.entry):
        an.block_out(bi, an.entry[bi])
    # boundaries: returns and field stores of ranged type
    out = []
    ret_b = rb(fn.get("ret") or "")
    for bi in sorted(an.entry):
        b = fn.blocks[bi]
        for si, s in enumerate(b["st"]):
            if s["s"] != "=":
                continue
            # stores / aggregates with ranged fields
            if s["rv"]["k"] == "agg" and s["rv"].get("agg") == "adt" and not s["rv"].get("adt", "").startswith("util::rangeint"):
                st = an.state_at(bi, si)
                if st is None:
                    continue
                adt = auto.prog.adts.get(fn.crate + "::" + s["rv"]["adt"])
                if adt is None:
                    continue
                var = [v for v in adt["variants"] if v["name"] == s["rv"]["variant"]]
                if not var:
                    continue
                ftys = {f["name"]: f["ty"] for f in var[0]["fields"]}
                for fname, op in zip(s["rv"]["fields"], s["rv"]["ops"]):
                    fb = rb(ftys.get(fname, ""))
                    if fb is None:
                        continue
                    v = an.read_op(st, op)
                    if v.iv is None:
                        continue
                    ok = fits(v.iv, (fb[1], fb[2])) and v.mod is None
                    if not ok or v.iv != (fb[1], fb[2]):
                        out.append(("O-BOUNDARY", bi, ok, "field %s.%s: value interval %s vs declared %s"
                                    % (s["rv"]["adt"].split("::")[-1], fname, v.iv, (fb[1], fb[2])), s.get("ln"),
                                    "field %s.%s" % (s["rv"]["adt"].split("::")[-1], fname)))
        if b["term"]["t"] == "return" and ret_b is not None and bi in an.pre:
            v = an.read_place(an.pre[bi], {"l": 0})
            if v.iv is not None:
                ok = fits(v.iv, (ret_b[1], ret_b[2])) and v.mod is None
                if not ok or v.iv != (ret_b[1], ret_b[2]):
                    out.append(("O-BOUNDARY", bi, ok, "return value interval %s vs declared %s" % (v.iv, (ret_b[1], ret_b[2])), fn.line, "return"))
    for (kind, bi, ok, detail, tag) in h.obl:
        t = fn.blocks[bi]["term"]
        ln = t.get("span", {}).get("line", fn.line)
        out.append((kind, bi, ok, detail, ln, tag))
    return an, out
