"""Rules over tz::tzif / shared::tzif: FLOOR-B, PARSE-ORDER, ITER-FEEDBACK."""
import re
from . import mir
from .term import Terms, walk, show, is_call, alts


def floor_b(rep, prog, rule="FLOOR-B", only=None):
    rep.rule(rule, "a function of tz::tzif that takes the whole-second view of a Timestamp by truncation (as_second*) and "
                   "uses it to search or compare against the transition table must branch on the sign of the sub-second "
                   "part (an order comparison of subsec_nanosecond*() with 0): truncation is not floor for pre-1970 "
                   "fractional instants, and `preceding` needs the ceiling")
    n = 0
    for f in prog.fns.values():
        if f.crate != "jiff" or f.file != "src/tz/tzif.rs" or f.is_closure:
            continue
        if only and not any(f.path.endswith(o) for o in only):
            continue
        trunc = [t for _, t in mir.iter_calls(f) if t.get("path") in ("timestamp::Timestamp::as_second", "timestamp::Timestamp::as_second_ranged")]
        if not trunc:
            continue
        searches = [t for _, t in mir.iter_calls(f) if "binary_search" in t.get("path", "")]
        if not searches:
            continue
        n += 1
        T = Terms(f)
        ok = False
        for b in f.blocks:
            t = b["term"]
            if t["t"] != "switch":
                continue
            d = T.operand(t["op"])
            for x in walk(d):
                if isinstance(x, tuple) and x and x[0] == "bin" and x[1] in ("Lt", "Le", "Gt", "Ge"):
                    sides = (x[2], x[3])
                    has_sub = any(any(is_call(y, "Timestamp::subsec_nanosecond") or is_call(y, "Timestamp::subsec_nanosecond_ranged")
                                      for y in walk(s)) for s in sides)
                    has_zero = any(s == ("const", 0) for s in sides)
                    if has_sub and has_zero:
                        ok = True
        key = f.path.split("::")[-1]
        if ok:
            rep.ok(rule, key, how="sign of subsec_nanosecond() is consulted")
        else:
            rep.violation(rule, key, "%s looks transitions up by Timestamp::as_second() (truncation toward zero) and never "
                          "tests the sign of the sub-second part: an instant like -0.5s is keyed as second 0" % f.path, f.loc())
    rep.floor(rule + " functions", n, 3 if not only else len(only))


def parse_order(rep, prog, rule="PARSE-ORDER"):
    rep.rule(rule, "in TzifOwned::parse every Ok return is dominated by fatten() followed by add_civil_datetimes_to_transitions() "
                   "(the wall-clock table must cover the synthesised transitions too) and by verify_posix_time_zone_consistency()?, "
                   "whose error is propagated; the position of the verification relative to fatten() is not constrained (today it runs "
                   "after it, which makes it vacuous for footers with a DST rule when tz-fat is on: see DESIGN 9.7)")
    for crate in ("jiff", "jiff_static"):
        cands = [f for f in prog.fns.values() if f.crate == crate and f.path.endswith(">>::parse") and "shared::tzif::<impl shared::Tzif<" in f.path]
        if not cands:
            if crate in prog.crates:
                rep.anchor_missing(crate + " TzifOwned::parse")
            continue
        f = cands[0]
        cfg = mir.CFG(f)
        def blocks_calling(sfx):
            return [bi for bi, t in mir.iter_calls(f) if t.get("path", "").endswith(sfx)]
        bf, ba, bv = blocks_calling(">>::fatten"), blocks_calling(">>::add_civil_datetimes_to_transitions"), blocks_calling(">>::verify_posix_time_zone_consistency")
        oks = [bi for bi, b in enumerate(f.blocks) if bi in cfg.reachable() and any(
            s["s"] == "=" and s["rv"]["k"] == "agg" and s["rv"].get("adt", "").endswith("result::Result") and s["rv"].get("variant") == "Ok"
            and s["lhs"] == {"l": 0} for s in b["st"])]
        key = crate + " TzifOwned::parse"
        if len(bf) != 1 or len(ba) != 1 or len(bv) != 1 or not oks:
            rep.violation(rule, key, "expected exactly one call each of fatten/add_civil_datetimes_to_transitions/"
                          "verify_posix_time_zone_consistency and an Ok return (found %d/%d/%d, %d Ok blocks)" % (len(bf), len(ba), len(bv), len(oks)), f.loc())
            continue
        good = cfg.dominates(bf[0], ba[0]) and all(cfg.dominates(ba[0], o) and cfg.dominates(bv[0], o) for o in oks)
        # the verification's error must be propagated: its Err edge reaches a return without passing an Ok block
        T = Terms(f)
        propagated = any(x[0] == "residual" and any(is_call(y, "verify_posix_time_zone_consistency") for y in walk(x)) for x in alts(T.returns()))
        if good and propagated:
            rep.ok(rule, key, how="fatten -> add_civil_datetimes and verify? dominate the Ok return")
        else:
            rep.violation(rule, key, "order/dominance broken (dominance chain=%s, verification error propagated=%s)" % (good, propagated), f.loc())


def iter_feedback(rep, prog, rule="ITER-FEEDBACK"):
    rep.rule(rule, "the preceding/following iterator adapters query the zone with their cursor, yield the returned transition "
                   "and store that transition's timestamp as the next cursor; the POSIX variants convert the instant with "
                   "to_itimestamp_const (whose civil decomposition floors, FLOOR-A)")
    for name, meth in (("TimeZonePrecedingTransitions", "previous_transition"), ("TimeZoneFollowingTransitions", "next_transition")):
        k = "jiff::<tz::timezone::%s<'t> as core::iter::Iterator>::next" % name
        f = prog.fns.get(k)
        if f is None:
            rep.anchor_missing(k)
            continue
        T = Terms(f)
        q = [t for _, t in mir.iter_calls(f) if t.get("path") == "tz::timezone::TimeZone::" + meth]
        ok_q = len(q) == 1 and T.operand(q[0]["args"][1]) == ("field", ("param", 1, "self"), "cur")
        # store to self.cur
        stored = None
        for b in f.blocks:
            for s in b["st"]:
                if s["s"] == "=" and s["lhs"].get("p") and isinstance(s["lhs"]["p"][-1], dict) and s["lhs"]["p"][-1].get("n") == "cur":
                    stored = T.rvalue(s["rv"])
            t = b["term"]
            if t["t"] == "call" and "dest" in t and t["dest"].get("p") and isinstance(t["dest"]["p"][-1], dict) and t["dest"]["p"][-1].get("n") == "cur":
                stored = T.call_term(t)
        ok_s = stored is not None and is_call(stored, "TimeZoneTransition::<'t>::timestamp") and \
            any(is_call(y, "TimeZone::" + meth) for y in walk(stored))
        if ok_q and ok_s:
            rep.ok(rule, name, how="cur -> %s(cur) -> cur = trans.timestamp()" % meth)
        else:
            rep.violation(rule, name, "adapter shape broken: queries with self.cur=%s, stores %s" % (ok_q, show(stored) if stored else None), f.loc())
    for meth in ("previous_transition", "next_transition"):
        f = prog.fns.get("jiff::tz::posix::PosixTimeZone::<ABBREV>::" + meth)
        if f is None:
            rep.anchor_missing("tz::posix::PosixTimeZone::" + meth)
            continue
        T = Terms(f)
        inner = [t for _, t in mir.iter_calls(f) if t.get("path", "").endswith(">::" + meth) and "shared::posix" in t.get("path", "")]
        ok = len(inner) == 1 and is_call(T.operand(inner[0]["args"][1]), "Timestamp::to_itimestamp_const") and \
            T.operand(inner[0]["args"][1])[2][0][0] == "param"
        if ok:
            rep.ok(rule, "posix " + meth, how="inner.%s(ts.to_itimestamp_const())" % meth)
        else:
            rep.violation(rule, "posix " + meth, "POSIX %s does not pass the unmodified instant as an ITimestamp" % meth, f.loc())


def find_key(rep, prog, rule="FIND-KEY"):
    """find-or-create helpers must compare every input that the created element records"""
    rep.rule(rule, "in TzifOwned::find_or_create_local_time_type / find_or_create_designation every parameter that flows into the "
                   "element created on the miss path also flows into the match condition of the search (a lookup that ignores part "
                   "of the key returns an element that differs from what would have been created)")
    for crate in ("jiff", "jiff_static"):
        for name in ("find_or_create_local_time_type", "find_or_create_designation"):
            cands = [f for f in prog.fns.values() if f.crate == crate and f.path.endswith(">>::" + name)]
            if not cands:
                if crate in prog.crates:
                    rep.anchor_missing("%s %s" % (crate, name))
                continue
            f = cands[0]
            T = Terms(f)
            params = {i: ("param", i, f["locals"][i].get("n") or "") for i in range(2, f["argc"] + 1)}
            created = set()
            for bi, b in enumerate(f.blocks):
                for si, s in enumerate(b["st"]):
                    if s["s"] == "=" and s["rv"]["k"] == "agg" and s["rv"].get("adt", "").endswith("TzifLocalTimeType"):
                        tt = T.rvalue(s["rv"], 0, (bi, si))
                        for x in walk(tt):
                            if x in params.values():
                                created.add(x)
                t = b["term"]
                if t["t"] == "call" and (t.get("path", "").endswith("::push_str") or t.get("path", "").endswith("Vec::<T, A>::push")):
                    for i in range(1, len(t["args"])):
                        for x in walk(T.at_call(bi, t, i)):
                            if x in params.values():
                                created.add(x)
            compared = set()
            for bi, b in enumerate(f.blocks):
                t = b["term"]
                if t["t"] == "switch":
                    for x in walk(T.operand(t["op"], 0, (bi, "term"))):
                        if x in params.values():
                            compared.add(x)
            key = "%s %s" % (crate, name)
            missing = created - compared
            if not created:
                rep.violation(rule, key, "shape not recognised: no created element uses a parameter", f.loc())
            elif missing:
                rep.violation(rule, key, "the created element records %s but the search never compares %s"
                              % (sorted(p[2] for p in created), sorted(p[2] for p in missing)), f.loc())
            else:
                rep.ok(rule, key, how="compares %s" % sorted(p[2] for p in compared))


def in_dst_single(rep, prog, rule="IN-DST"):
    """POSIX rule zones: whether an instant is in DST is decided by DstInfo::in_dst alone (it is the one place that
    knows about DST periods wrapping the new year); every function that chooses between the DST offset and the standard
    offset must make that choice under in_dst."""
    from .guards import guards
    from .term import Terms, walk, is_call
    rep.rule(rule, "in shared::posix::PosixTimeZone::{to_offset, to_offset_info, previous_transition, next_transition} (both "
                   "copies) every use of the DST offset (DstInfo::offset) is selected by the result of DstInfo::in_dst - either "
                   "as a dominating branch condition or as the Option::filter predicate in front of the map that reads the "
                   "offset; in_dst is the only place that handles DST periods wrapping the new year (southern hemisphere, "
                   "negative DST), so an ad-hoc comparison against the rule's end point mislabels those zones")
    n = 0
    for crate in ("jiff", "jiff_static"):
        for name in ("to_offset", "to_offset_info", "previous_transition", "next_transition"):
            cands = [f for f in prog.fns.values() if f.crate == crate and not f.is_closure and f.path.endswith("::" + name)
                     and "posix" in f.path and "PosixTimeZone" in f.path and f.file.endswith("shared/posix.rs")]
            if len(cands) != 1:
                rep.violation(rule, "%s %s" % (crate, name), "anchor missing: expected exactly one PosixTimeZone::%s in %s shared/posix.rs, found %d"
                              % (name, crate, len(cands)), "shared/posix.rs")
                continue
            f = cands[0]
            n += 1

            def uses_in(fn_):
                """(sites, bad) for the uses of DstInfo::offset in fn_ and its closures"""
                closures = [g for g in prog.fns.values() if g.crate == crate and g.is_closure and g.path.startswith(fn_.path + "::{closure")]
                T = Terms(fn_)
                cfg = mir.CFG(fn_)
                bad, sites = [], 0
                for bi, t in mir.iter_calls(fn_):
                    if t.get("path", "").endswith("DstInfo<'a, ABBREV>::offset") or t.get("path", "").endswith("DstInfo::offset") \
                            or (t.get("path", "").endswith("::offset") and "DstInfo" in t.get("path", "")):
                        sites += 1
                        gs = guards(fn_, cfg, T, bi)
                        if not any(any(is_call(x, "::in_dst") for x in walk(c)) for (c, _truth, _sb) in gs):
                            bad.append((t.get("span") or {}).get("line"))
                # closure form: filter(|d| d.in_dst(dt)).map(|d| d.offset()..)
                clos_offset = [g for g in closures if any("DstInfo" in t.get("path", "") and t.get("path", "").endswith("::offset") for _, t in mir.iter_calls(g))]
                clos_in_dst = [g for g in closures if any(t.get("path", "").endswith("::in_dst") for _, t in mir.iter_calls(g))]
                if clos_offset:
                    sites += len(clos_offset)
                    filt = [t for _, t in mir.iter_calls(fn_) if t.get("path", "").endswith("Option::<T>::filter")]
                    if not (filt and clos_in_dst):
                        bad.append("closure")
                return sites, bad
            sites, bad = uses_in(f)
            via = ""
            if sites == 0:
                # the choice may have been extracted into a private helper of the same file: follow calls one level (not into
                # the other named entry points, and not into to_ambiguous_kind / dst_info_*, which read the DST offset for the
                # window arithmetic, not to label an instant)
                for _bi, t in mir.iter_calls(f):
                    g = prog.fns.get(crate + "::" + t.get("path", ""))
                    if g is None or g.is_closure or not g.file.endswith("shared/posix.rs"):
                        continue
                    last = g.path.rsplit("::", 1)[-1]
                    if last in ("to_offset", "to_offset_info", "previous_transition", "next_transition", "to_ambiguous_kind") or last.startswith("dst_info"):
                        continue
                    s2, b2 = uses_in(g)
                    if s2:
                        sites += s2
                        bad += b2
                        via = " (in helper %s)" % last
            key = "%s PosixTimeZone::%s" % (crate, name)
            if sites == 0:
                rep.violation(rule, key, "anchor missing: no use of DstInfo::offset found", f.loc())
            elif bad:
                rep.violation(rule, key, "the DST offset is used at line(s) %s%s without DstInfo::in_dst deciding it" % (bad, via), f.loc())
            else:
                rep.ok(rule, key, how="%d use(s) of the DST offset%s, each under in_dst" % (sites, via), loc=f.loc())
    rep.floor(rule + " functions", n, 8)


def fold_agree(rep, prog, rule="FOLD-AGREE"):
    """names are sorted by their ASCII-lowercase form and looked up by binary search with a comparator that must induce
    the same order: the comparator folds with the same function that built the key"""
    rep.rule(rule, "the zoneinfo name list is ordered by the key `lower` = name.to_ascii_lowercase() (Ord for ZoneInfoName compares "
                   "that field) and binary-searched with util::utf8::cmp_ignore_ascii_case, so the comparator must fold both sides "
                   "with u8::to_ascii_lowercase as well: folding to upper case is the same equivalence but a different order ('_' "
                   "sorts before letters in one and after them in the other), and a binary search under a different order misses "
                   "names that are present")
    f = prog.fns.get("jiff::util::utf8::cmp_ignore_ascii_case_bytes")
    if f is None:
        rep.anchor_missing("util::utf8::cmp_ignore_ascii_case_bytes")
        return
    bodies = [f] + [g for g in prog.fns.values() if g.crate == "jiff" and g.is_closure and g.path.startswith(f.path + "::{closure")]
    folds = [t.get("path", "") for g in bodies for _, t in mir.iter_calls(g) if "to_ascii_" in t.get("path", "") or "to_lowercase" in t.get("path", "") or "to_uppercase" in t.get("path", "")]
    lower = [p for p in folds if p.endswith("to_ascii_lowercase")]
    if len(lower) >= 2 and len(lower) == len(folds):
        rep.ok(rule, "comparator fold", how="%d x u8::to_ascii_lowercase" % len(lower), loc=f.loc())
    else:
        rep.violation(rule, "comparator fold", "cmp_ignore_ascii_case_bytes folds with %s; the sort key is the ASCII-lowercase name" % sorted(set(folds)), f.loc())
    k = [g for g in prog.fns.values() if g.crate == "jiff" and not g.is_closure and g.path.endswith("ZoneInfoName::new") and "zoneinfo" in g.path]
    if not k:
        if any(g.path.startswith("tz::db::zoneinfo::inner") for g in prog.fns.values()):
            rep.anchor_missing("tz::db::zoneinfo ZoneInfoName::new")
        return
    kf = [t.get("path", "") for _, t in mir.iter_calls(k[0]) if "to_ascii_" in t.get("path", "") or "to_lowercase" in t.get("path", "") or "to_uppercase" in t.get("path", "")]
    if kf and all(p.endswith("to_ascii_lowercase") for p in kf):
        rep.ok(rule, "sort key fold", how="str::to_ascii_lowercase", loc=k[0].loc())
    else:
        rep.violation(rule, "sort key fold", "ZoneInfoName::new builds its key with %s; the comparator folds to ASCII lower case" % kf, k[0].loc())
    o = [g for g in prog.fns.values() if g.crate == "jiff" and "ZoneInfoName as core::cmp::Ord>::cmp" in g.path]
    if o:
        T = Terms(o[0])
        r = T.returns()
        fields = {x[2] for x in walk(r) if isinstance(x, tuple) and x and x[0] == "field"}
        if "lower" in fields and "original" not in fields:
            rep.ok(rule, "order", how="Ord for ZoneInfoName compares `lower`", loc=o[0].loc())
        else:
            rep.violation(rule, "order", "Ord for ZoneInfoName compares fields %s, expected `lower`" % sorted(fields), o[0].loc())
    else:
        rep.anchor_missing("Ord for ZoneInfoName")



def special_names(rep, progs, rule="SPECIAL-NAMES"):
    """sibling agreement of the database back-ends on the names they special-case"""
    rep.rule(rule, "the back-ends' Database::get (zoneinfo, concatenated, bundled) are siblings behind TimeZoneDatabase::get: the names "
                   "they answer without consulting their data (\"UTC\" -> TimeZone::UTC, \"Etc/Unknown\" -> TimeZone::unknown()) are "
                   "compared like every other name, ignoring ASCII case (no `==` on the query), and every enabled back-end "
                   "special-cases the same set of names: otherwise the same name yields different (unequal) zone values depending on "
                   "the back-end or on its spelling, and a printed zone does not parse back to an equal one")
    seen = {}
    for cfg, prog in progs:
        for g in sorted(prog.fns.values(), key=lambda g: g.key):
            if g.crate != "jiff" or g.is_closure or not (g.path.startswith("tz::db::") and g.path.endswith("::Database::get")):
                continue
            calls = list(mir.iter_calls(g))
            if not calls:
                continue   # the disabled stub of a back-end that is compiled out
            backend = g.path.split("::")[-4]
            if backend in seen:
                continue
            T = Terms(g)
            exact, names = [], set()
            for bi, t in calls:
                pth = t.get("path", "")
                if not t.get("args") or len(t["args"]) < 2:
                    continue
                a0, a1 = T.at_call(bi, t, 0), T.at_call(bi, t, 1)
                if not any(x and x[0] == "param" and x[1] == 2 for x in (a0, a1)):
                    continue
                if re.search(r"PartialEq<.*>.*::(eq|ne)$|PartialEq>::(eq|ne)$", pth):
                    exact.append(t["span"]["line"])
                elif pth.endswith("eq_ignore_ascii_case"):
                    names |= {x[1] for x in (a0, a1) if x and x[0] == "const"}
            seen[backend] = (names, g.loc(), cfg)
            key = "special names in " + backend + " get"
            if exact:
                rep.violation(rule, key, "the query is compared with a name by `==` at line(s) %s: another spelling (\"utc\", \"etc/unknown\") "
                              "then falls through to the ordinary case-insensitive lookup and yields a different zone value (or none) "
                              "than the canonical spelling" % exact, g.loc())
            else:
                rep.ok(rule, key, how="no case-sensitive comparison of the query; special-cased %s (%s)" % (sorted(names), cfg), loc=g.loc())
    rep.floor(rule + " back-ends", len(seen), 2)
    union = set().union(*[v[0] for v in seen.values()]) if seen else set()
    for backend, (names, loc, cfg) in sorted(seen.items()):
        key = "special names agree: " + backend
        if names == union:
            rep.ok(rule, key, how="%s" % sorted(names), loc=loc)
        else:
            rep.violation(rule, key, "the %s back-end does not special-case %s (case-insensitively) while a sibling back-end does: "
                          "TimeZoneDatabase::get of that name returns a TZif-backed or no zone here and the special constant there"
                          % (backend, sorted(union - names)), loc)


def handover(rep, prog, rule="HANDOVER"):
    """where the recorded TZif transitions end and the POSIX rule of the footer takes over"""
    from .guards import guards, strip_not
    rep.rule(rule, "Tzif::next_transition consults the footer's POSIX rule only when the search index lies past the last recorded "
                   "transition (index >= len / == len, not len - 1: the last recorded transition must itself be yielded), and the "
                   "index of the transition it yields always comes from the binary search (a constant `len - 1` fallback yields the "
                   "last transition again and again, so following() never ends on data without a footer); Tzif::previous_transition "
                   "returns the POSIX rule's answer only after comparing it with the last recorded transition (the rule describes "
                   "what happens after that transition and may name an earlier instant)")
    base = "jiff::tz::tzif::Tzif::<STR, ABBREV, TYPES, TIMESTAMPS, STARTS, ENDS, INFOS>::"
    f = prog.fns.get(base + "next_transition")
    g = prog.fns.get(base + "previous_transition")
    if f is None or g is None:
        rep.anchor_missing("tz::tzif::Tzif::{next,previous}_transition")
        return

    def has_len_minus_one(t):
        return any(isinstance(x, tuple) and x and x[0] == "bin" and x[1] in ("Sub", "SubWithOverflow") and len(x) == 4
                   and any(is_call(y, "::len") for y in walk(x[2])) and x[3] == ("const", 1) for x in walk(t))

    # --- next_transition
    T = Terms(f)
    cfg = mir.CFG(f)
    posix_calls = [(bi, t) for bi, t in mir.iter_calls(f) if t.get("path", "").endswith("::next_transition") and "posix" in t.get("path", "").lower()]
    if not posix_calls:
        rep.violation(rule, "next: delegation", "anchor missing: next_transition no longer consults the POSIX rule", f.loc())
    for bi, t in posix_calls:
        bound = None
        for (c, truth, _sb) in guards(f, cfg, T, bi):
            c2, tr2 = strip_not(c, truth)
            if c2[0] == "bin" and c2[1] in ("Ge", "Gt", "Eq", "Lt", "Le", "Ne") and any(is_call(y, "::len") for y in walk(c2)):
                bound = c2
        key = "next: POSIX rule only past the last recorded transition"
        loc = "%s:%s" % (t["span"]["file"], t["span"]["line"])
        if bound is None:
            rep.violation(rule, key, "the call of the POSIX rule is not guarded by a comparison of the search index with the number of transitions", loc)
        elif has_len_minus_one(bound):
            rep.violation(rule, key, "the POSIX rule is consulted when index >= len - 1, i.e. also when the last recorded transition is still "
                          "ahead of the instant: that transition is never yielded (and a footer without DST rule ends the iteration early)", loc)
        else:
            rep.ok(rule, key, how=show(bound, maxd=3)[:120], loc=loc)
    # the index of the entry that is yielded: timestamps()[IDX] inside the returned Some(TimeZoneTransition { timestamp, .. })
    idx_alts = []
    from .term import inline_helpers
    for r in alts(T.returns()):
        if not (r[0] == "agg" and r[2] == "Some"):
            continue
        # the construction of the transition may live in a private helper that returns it
        r = inline_helpers(r, prog, depth=1, pred=lambda g_: "TimeZoneTransition" in str(g_.get("ret", "")))
        for x in walk(r):
            if isinstance(x, tuple) and x and x[0] == "index" and any(is_call(y, "::timestamps") for y in walk(x[1])):
                idx_alts += list(alts(x[2]))
    key = "next: yielded index comes from the search"
    if not idx_alts:
        rep.violation(rule, key, "anchor missing: no indexing of the transition table found", f.loc())
    elif any(has_len_minus_one(a) and not any(is_call(y, "binary_search") for y in walk(a)) for a in idx_alts):
        rep.violation(rule, key, "one alternative of the yielded index is the constant `len - 1`, independent of the search: without a "
                      "footer the last transition is yielded for every later instant and following() never terminates", f.loc())
    else:
        rep.ok(rule, key, how="%d alternative(s), all from binary_search" % len(idx_alts), loc=f.loc())
    # --- previous_transition
    T = Terms(g)
    cfg = mir.CFG(g)
    key = "previous: POSIX answer compared with the last recorded transition"
    rets = []
    for bi, b in enumerate(g.blocks):
        for si, s in enumerate(b["st"]):
            if s["s"] == "=" and s["lhs"]["l"] == 0 and s["rv"]["k"] == "agg" and s["rv"].get("variant") == "Some":
                tm = T.operand(s["rv"]["ops"][0], pos=(bi, si))
                if any(is_call(y, "::previous_transition") for y in walk(tm)):
                    rets.append((bi, s.get("ln")))
    if not rets:
        rep.violation(rule, key, "anchor missing: previous_transition never returns the POSIX rule's transition", g.loc())
    for bi, ln in rets:
        ok = False
        for (c, truth, _sb) in guards(g, cfg, T, bi):
            c2, _tr2 = strip_not(c, truth)
            w = list(walk(c2))
            cmp_ = (c2[0] == "bin" and c2[1] in ("Gt", "Ge", "Lt", "Le")) or (c2[0] == "call" and c2[1].rsplit("::", 1)[-1] in ("gt", "ge", "lt", "le"))
            if cmp_ and any(is_call(y, "::previous_transition") for y in w) and any(is_call(y, "::timestamps") for y in w):
                ok = True
        loc = "%s:%s" % (g.file, ln)
        if ok:
            rep.ok(rule, key, how="returned only when later than the last recorded transition", loc=loc)
        else:
            rep.violation(rule, key, "the transition computed from the POSIX rule is returned without comparing it with the last recorded "
                          "transition: a rule whose previous transition falls before it skips recorded transitions", loc)
    # a file without recorded transitions has only the dummy first entry: it is the last entry too, and the footer's rule is
    # then the only source of transitions - the rule must be consulted before the "landed on the dummy entry" exit
    key = "previous: POSIX rule consulted even when the last entry is the dummy first entry"
    pcalls = [(bi, t) for bi, t in mir.iter_calls(g) if t.get("path", "").endswith("::previous_transition") and "posix" in t.get("path", "").lower()]
    if not pcalls:
        rep.violation(rule, key, "anchor missing: previous_transition no longer consults the POSIX rule", g.loc())
    for bi, t in pcalls:
        excluded = False
        for (c, truth, _sb) in guards(g, cfg, T, bi):
            c2, tr2 = strip_not(c, truth)
            if c2[0] == "bin" and c2[1] in ("Eq", "Ne") and (c2[3] == ("const", 0) or c2[2] == ("const", 0)) \
                    and not any(is_call(y, "::len") for y in walk(c2)):
                is_zero = (c2[1] == "Eq") == (tr2 is True)
                if not is_zero:
                    excluded = True
        loc = "%s:%s" % (t["span"]["file"], t["span"]["line"])
        if excluded:
            rep.violation(rule, key, "the POSIX rule is consulted only when the search index is not 0: TZif data with no recorded transitions "
                          "and a DST rule in the footer (RFC 8536: 'local time for all timestamps is specified by the TZ string') has "
                          "its only entry at index 0, so preceding() yields nothing while following() yields every rule transition", loc)
        else:
            rep.ok(rule, key, how="the consult is not guarded by index != 0", loc=loc)


def handover_civil(rep, prog, rule="HANDOVER"):
    """the civil-time side of the hand-over from recorded transitions to the footer's POSIX rule"""
    from .guards import guards, strip_not
    rep.rule(rule, "Tzif::to_ambiguous_kind hands a civil datetime at or after the last recorded transition to the footer's POSIX "
                   "rule, which is evaluated as if it had always applied; the rule only governs instants at or after that "
                   "transition, so a candidate offset it reports is accepted only after the instant it denotes has been tested "
                   "against the recorded transitions (a guard that depends on both the POSIX answer and timestamps() / "
                   "to_local_time_type). Returning the POSIX answer unexamined reports folds that the recorded data does not "
                   "have when the last recorded transition coincides with a rule transition but is a no-op (slim "
                   "America/Nuuk, 2023-10-29)")
    f = prog.fns.get("jiff::tz::tzif::Tzif::<STR, ABBREV, TYPES, TIMESTAMPS, STARTS, ENDS, INFOS>::to_ambiguous_kind")
    if f is None:
        rep.anchor_missing("tz::tzif::Tzif::to_ambiguous_kind")
        return
    T = Terms(f)
    cfg = mir.CFG(f)
    is_posix = lambda y: is_call(y, "::to_ambiguous_kind") and "posix" in y[1].lower()
    calls = [(bi, t) for bi, t in mir.iter_calls(f) if t.get("path", "").endswith("::to_ambiguous_kind") and "posix" in t.get("path", "").lower()]
    key = "civil: POSIX answer tested against the recorded transitions"
    if not calls:
        rep.violation(rule, key, "anchor missing: to_ambiguous_kind no longer consults the POSIX rule", f.loc())
        return
    tested = []
    for bi in range(len(f.blocks)):
        for (c, truth, _sb) in guards(f, cfg, T, bi):
            w = list(walk(c))
            if any(is_posix(y) for y in w) and any(is_call(y, "::to_local_time_type") or is_call(y, "::timestamps") for y in w):
                tested.append(bi)
    for bi, t in calls:
        loc = "%s:%s" % (t["span"]["file"], t["span"]["line"])
        if tested:
            rep.ok(rule, key, how="%d block(s) guarded by a test of the POSIX answer against the recorded transitions" % len(set(tested)), loc=loc)
        else:
            rep.violation(rule, key, "the POSIX rule's answer is returned without testing its candidate instants against the last recorded "
                          "transition: a fold (or offset) the rule reports for an instant before that transition contradicts the recorded data", loc)


def noop_skip(rep, prog, rule="NOOP-SKIP"):
    """TZif data contains entries that change nothing; the transition iterators must not yield them"""
    rep.rule(rule, "TZif files contain transition entries after which offset, DST flag and abbreviation are what they were before "
                   "(zic writes one at 2^31-1 into fat files, and slim files can end with one), so Tzif::next_transition and "
                   "Tzif::previous_transition - which must yield exactly the instants where that information changes - compare the "
                   "local time type of the candidate entry with that of the entry before it (offset, is_dst and designation) inside "
                   "the loop that moves the index: decided as 'a loop block of the function evaluates, directly or through a crate "
                   "function it calls, equality comparisons between local_time_type(i) and local_time_type(j), i != j, on all "
                   "three components'")
    base = "jiff::tz::tzif::Tzif::<STR, ABBREV, TYPES, TIMESTAMPS, STARTS, ENDS, INFOS>::"

    def aspects_of(g):
        """which components of two *different* local time types g compares for equality"""
        T = Terms(g)
        cfg = mir.CFG(g)
        terms = list(alts(T.returns()))
        for bi, b in enumerate(g.blocks):
            t = b["term"]
            if t["t"] == "switch" and bi in cfg.reachable():
                terms.append(T.operand(t["op"], 0, (bi, "term")))
        got = set()
        for tm in terms:
            for x in walk(tm):
                if not (isinstance(x, tuple) and x):
                    continue
                if x[0] == "bin" and x[1] in ("Eq", "Ne") and len(x) == 4:
                    a, b = x[2], x[3]
                elif x[0] == "call" and x[1].rsplit("::", 1)[-1] in ("eq", "ne") and len(x[2]) == 2:
                    a, b = x[2]
                else:
                    continue
                la = [y for y in walk(a) if is_call(y, "::local_time_type")]
                lb = [y for y in walk(b) if is_call(y, "::local_time_type")]
                if not la or not lb or la[0] == lb[0]:
                    continue
                for side in (a, b):
                    for y in walk(side):
                        if isinstance(y, tuple) and y and y[0] == "field" and y[2] in ("offset", "is_dst"):
                            got.add(y[2])
                        if is_call(y, "::designation"):
                            got.add("designation")
        return got

    n = 0
    for name in ("next_transition", "previous_transition"):
        f = prog.fns.get(base + name)
        if f is None:
            rep.anchor_missing("tz::tzif::Tzif::" + name)
            continue
        n += 1
        cfg = mir.CFG(f)
        loop_blocks = {bi for bi in cfg.reachable() if any(cfg.can_reach(sx, bi) for sx in cfg.succ[bi])}
        found = set()
        if loop_blocks:
            found |= set()  # direct comparisons inside the function itself count only when the switch sits in a loop
            T = Terms(f)
        for bi, t in mir.iter_calls(f):
            if bi not in loop_blocks:
                continue
            g = prog.fns.get(t.get("path", "")) or prog.fns.get("jiff::" + t.get("path", ""))
            if g is not None and g.crate == "jiff":
                found |= aspects_of(g)
        if loop_blocks:
            # inline form: comparisons evaluated by switches that are themselves in the loop
            sub = aspects_of(f)
            sw_in_loop = any(f.blocks[bi]["term"]["t"] == "switch" for bi in loop_blocks)
            if sub and sw_in_loop:
                found |= sub
        key = name + ": entries that change nothing are skipped"
        need = {"offset", "is_dst", "designation"}
        if need <= found:
            rep.ok(rule, key, how="%d loop block(s); adjacent local time types compared on %s" % (len(loop_blocks), sorted(found)), loc=f.loc())
        elif not loop_blocks:
            rep.violation(rule, key, "the entry found by the binary search is yielded as it is (no loop moves the index past entries "
                          "that change nothing): following()/preceding() report the no-op entries zic writes (e.g. 2038-01-19T03:14:07Z "
                          "in fat files), and slim and fat compilations of one zone disagree", f.loc())
        else:
            rep.violation(rule, key, "the index loop does not compare adjacent local time types on %s" % sorted(need - found), f.loc())
    rep.floor(rule + " functions", n, 2)


def floor_print(rep, prog, rule="FLOOR-PRINT"):
    """%s is the number of whole seconds since the epoch in the C library's sense: the floor"""
    rep.rule(rule, "a strtime formatter that prints the whole-second view of a Timestamp obtained by truncation (as_second) branches on "
                   "the sign of the sub-second part: the other directives of the same call (%S, %f, %.f) come from the civil "
                   "decomposition, which floors, so for a pre-1970 instant with a fraction the truncated second belongs to a "
                   "different second than the one the rest of the text describes (and the parser reads %s as a floor)")
    n = 0
    for f in prog.fns.values():
        if f.crate != "jiff" or f.is_closure or not f.file.startswith("src/fmt/strtime"):
            continue
        trunc = [t for _, t in mir.iter_calls(f) if t.get("path") in ("timestamp::Timestamp::as_second", "timestamp::Timestamp::as_second_ranged")]
        writes = [t for _, t in mir.iter_calls(f) if t.get("path", "").endswith("::write_int")]
        if not trunc or not writes:
            continue
        n += 1
        T = Terms(f)
        ok = False
        for b in f.blocks:
            t = b["term"]
            if t["t"] != "switch":
                continue
            for x in walk(T.operand(t["op"])):
                if isinstance(x, tuple) and x and x[0] == "bin" and x[1] in ("Lt", "Le", "Gt", "Ge"):
                    sides = (x[2], x[3])
                    if any(any(is_call(y, "Timestamp::subsec_nanosecond") or is_call(y, "Timestamp::subsec_nanosecond_ranged") for y in walk(s_)) for s_ in sides) \
                            and any(s_ == ("const", 0) for s_ in sides):
                        ok = True
        key = f.path.split("::")[-1]
        if ok:
            rep.ok(rule, key, how="sign of subsec_nanosecond() is consulted", loc=f.loc())
        else:
            rep.violation(rule, key, "%s prints Timestamp::as_second() (truncation toward zero) without testing the sign of the sub-second "
                          "part: -1.5s prints as -1 where the C library and this crate's own parser mean floor (-2)" % f.path, f.loc())
    rep.floor(rule + " functions", n, 1)


def iter_strict(rep, prog, rule="ITER-STRICT"):
    """termination of preceding()/following() must not depend on the data being well formed"""
    from .guards import guards
    rep.rule(rule, "TimeZone::preceding/following feed each yielded instant back as the next cursor (ITER-FEEDBACK), so they terminate "
                   "only if every yielded transition is strictly before / after the cursor. The recorded times can repeat (times "
                   "outside the supported range are clamped to its ends when a TZif file is read), so a binary search alone does not "
                   "give that: Tzif::previous_transition and Tzif::next_transition compare the time of the entry they are about to "
                   "yield with the search key in a loop that moves the index (`timestamps()[index] >= key` / `<= key`), and "
                   "TzifOwned::parse_transitions (both copies) rejects a file whose raw transition times are not strictly ascending "
                   "(a comparison of each time with the one before it that leads to Err)")
    base = "jiff::tz::tzif::Tzif::<STR, ABBREV, TYPES, TIMESTAMPS, STARTS, ENDS, INFOS>::"
    n = 0
    for name, ops in (("previous_transition", ("Ge", "Gt")), ("next_transition", ("Le", "Lt"))):
        f = prog.fns.get(base + name)
        if f is None:
            rep.anchor_missing("tz::tzif::Tzif::" + name)
            continue
        n += 1
        T = Terms(f)
        cfg = mir.CFG(f)
        loop_blocks = {bi for bi in cfg.reachable() if any(cfg.can_reach(sx, bi) for sx in cfg.succ[bi])}
        found = False
        for bi in loop_blocks:
            t = f.blocks[bi]["term"]
            if t["t"] != "switch":
                continue
            c = T.operand(t["op"], 0, (bi, "term"))
            for x in walk(c):
                if isinstance(x, tuple) and x and x[0] == "bin" and x[1] in ops + tuple({"Ge": "Le", "Gt": "Lt", "Le": "Ge", "Lt": "Gt"}[o] for o in ops):
                    sides = (x[2], x[3])
                    has_entry = [any(isinstance(y, tuple) and y and y[0] == "index" and any(is_call(z, "::timestamps") for z in walk(y[1])) for y in walk(sd)) for sd in sides]
                    has_key = [any(is_call(y, "Timestamp::as_second") for y in walk(sd)) for sd in sides]
                    if (has_entry[0] and has_key[1]) or (has_entry[1] and has_key[0]):
                        found = True
        key = name + ": strict progress"
        if found:
            rep.ok(rule, key, how="a loop compares timestamps()[index] with the search key", loc=f.loc())
        else:
            rep.violation(rule, key, "no loop compares the time of the entry about to be yielded with the search key: with repeated recorded "
                          "times (two transitions clamped to Timestamp::MIN) the entry found by the binary search is not strictly %s "
                          "the cursor, the iterator yields it again and again and never ends" % ("before" if name.startswith("prev") else "after"), f.loc())
    for crate in ("jiff", "jiff_static"):
        cands = [f for f in prog.fns.values() if f.crate == crate and not f.is_closure and f.path.endswith("::parse_transitions") and "shared::tzif" in f.path]
        if not cands:
            if crate in prog.crates:
                rep.anchor_missing(crate + " TzifOwned::parse_transitions")
            continue
        f = cands[0]
        n += 1
        T = Terms(f)
        cfg = mir.CFG(f)
        errs = [bi for bi, b in enumerate(f.blocks) for s in b["st"] if s["s"] == "=" and s["lhs"]["l"] == 0 and s["rv"]["k"] == "agg" and s["rv"].get("variant") == "Err"]
        ordered = False
        for bi in errs:
            for (c, _truth, _sb) in guards(f, cfg, T, bi):
                for x in walk(c):
                    if isinstance(x, tuple) and x and x[0] == "bin" and x[1] in ("Le", "Lt", "Ge", "Gt"):
                        is_ts = lambda sd: any(is_call(y, "from_be_bytes_i64") or is_call(y, "from_be_bytes_i32") for y in walk(sd))
                        if is_ts(x[2]) and is_ts(x[3]):
                            ordered = True
        key = crate + " parse_transitions: strictly ascending"
        if ordered:
            rep.ok(rule, key, how="each raw transition time is compared with the previous one; a failure is an error", loc=f.loc())
        else:
            rep.violation(rule, key, "the transition times are stored without comparing each with the one before it: a file with repeated or "
                          "descending times is accepted and every lookup binary-searches an unsorted table", f.loc())
    rep.floor(rule + " functions", n, 4)
