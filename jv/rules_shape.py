"""E3/E4 rules shared by C01-C03, C08, C14: FLOOR-A, REQ-DEP, CONST-AGREE,
MONTH-TABLE."""
import re
from . import mir
from .absint import ranged_bounds
from .term import Terms, walk, alts
from .rusttok import tokenize
from .e1 import src_line
from . import contracts as C

ITIME = "src/shared/util/itime.rs"


def _parse_struct_const(pretty):
    """`path {{ a: 1_i64, b: 2_i32 }}` -> {a: 1, b: 2} (flat, nested names joined)"""
    out = {}
    for m in re.finditer(r"(\w+): (-?\d+)_[iu]\d+", pretty or ""):
        out.setdefault(m.group(1), []).append(int(m.group(2)))
    return out


def const_agree(rep, prog, rule="CONST-AGREE"):
    rep.rule(rule, "each duplicated range constant agrees with its source in util/t.rs: ITimestamp/IEpochDay/IDate/ITime "
                   "MIN/MAX, shared::tzif TIMESTAMP_*/OFFSET_*, the millisecond/microsecond/nanosecond views of the instant range (UnixSeconds scaled by 10^k, plus the largest fraction at the upper end), the twin s/K/L constants of the two Neri-Schneider "
                   "routines, the field-contract table, and the two copies of the shared code")
    al = lambda n: ranged_bounds(prog.aliases["jiff::util::t::" + n]["ty"])[1:]
    def cst(crate, path):
        c = prog.consts.get(crate + "::" + path)
        if c is None:
            rep.anchor_missing("const " + crate + "::" + path)
        return c
    loc = ITIME
    def expect(key, got, want, where=loc):
        if got == want:
            rep.ok(rule, key, how="%s" % (want,))
        else:
            rep.violation(rule, key, "constant disagrees: %s has %s but util/t.rs says %s" % (key, got, want), where)
    crates = [c for c in ("jiff", "jiff_static") if c in prog.crates]
    for crate in crates:
        p = crate + " "
        c = cst(crate, "shared::util::itime::ITimestamp::MIN")
        d = cst(crate, "shared::util::itime::ITimestamp::MAX")
        if c and d:
            a, b = _parse_struct_const(c["pretty"]), _parse_struct_const(d["pretty"])
            expect(p + "ITimestamp::{MIN,MAX}.second", (a["second"][0], b["second"][0]), al("UnixSeconds"))
            expect(p + "ITimestamp::MAX.nanosecond", b["nanosecond"][0], al("SubsecNanosecond")[1])
            expect(p + "ITimestamp::MIN.nanosecond", a["nanosecond"][0], 0)
        tmin, tmax = cst(crate, "shared::tzif::TIMESTAMP_MIN"), cst(crate, "shared::tzif::TIMESTAMP_MAX")
        if tmin and tmax:
            expect(p + "tzif::TIMESTAMP_{MIN,MAX}", (tmin["v"], tmax["v"]), al("UnixSeconds"), "src/shared/tzif.rs")
        omin, omax = cst(crate, "shared::tzif::OFFSET_MIN"), cst(crate, "shared::tzif::OFFSET_MAX")
        if omin and omax:
            expect(p + "tzif::OFFSET_{MIN,MAX}", (omin["v"], omax["v"]), al("SpanZoneOffset"), "src/shared/tzif.rs")
        c, d = cst(crate, "shared::util::itime::IEpochDay::MIN"), cst(crate, "shared::util::itime::IEpochDay::MAX")
        if c and d:
            expect(p + "IEpochDay::{MIN,MAX}", (_parse_struct_const(c["pretty"])["epoch_day"][0],
                                               _parse_struct_const(d["pretty"])["epoch_day"][0]), al("UnixEpochDay"))
        c, d = cst(crate, "shared::util::itime::IDate::MIN"), cst(crate, "shared::util::itime::IDate::MAX")
        if c and d:
            a, b = _parse_struct_const(c["pretty"]), _parse_struct_const(d["pretty"])
            expect(p + "IDate::{MIN,MAX}", ((a["year"][0], a["month"][0], a["day"][0]), (b["year"][0], b["month"][0], b["day"][0])),
                   ((al("Year")[0], al("Month")[0], al("Day")[0]), (al("Year")[1], al("Month")[1], al("Day")[1])))
        d = cst(crate, "shared::util::itime::ITime::MAX")
        if d:
            b = _parse_struct_const(d["pretty"])
            expect(p + "ITime::MAX", (b["hour"][0], b["minute"][0], b["second"][0], b["subsec_nanosecond"][0]),
                   (al("Hour")[1], al("Minute")[1], al("Second")[1], al("SubsecNanosecond")[1]))
        for n in ("s", "K", "L"):
            a = cst(crate, "shared::util::itime::IEpochDay::to_date::" + n)
            b = cst(crate, "shared::util::itime::IDate::to_epoch_day::" + n)
            if a and b:
                expect(p + "Neri-Schneider twin " + n, a["v"], b["v"])
    # the scaled views of the instant range: every whole second of UnixSeconds with every fraction of it
    smin, smax = al("UnixSeconds")
    for n, k in (("UnixMilliseconds", 3), ("UnixMicroseconds", 6), ("UnixNanoseconds", 9)):
        expect("t::%s = UnixSeconds x 10^%d (+ the largest fraction)" % (n, k), al(n), (smin * 10 ** k, smax * 10 ** k + 10 ** k - 1), "src/util/t.rs")
    # the field-contract table against t.rs
    pairs = [(("shared::util::itime::ITimestamp", None, "second"), "UnixSeconds"),
             (("shared::util::itime::IOffset", None, "second"), "SpanZoneOffset"),
             (("shared::util::itime::IEpochDay", None, "epoch_day"), "UnixEpochDay"),
             (("shared::util::itime::IDate", None, "year"), "Year"), (("shared::util::itime::IDate", None, "month"), "Month"),
             (("shared::util::itime::IDate", None, "day"), "Day"), (("shared::util::itime::ITime", None, "hour"), "Hour"),
             (("shared::util::itime::ITime", None, "minute"), "Minute"), (("shared::util::itime::ITime", None, "second"), "Second"),
             (("shared::util::itime::ITime", None, "subsec_nanosecond"), "SubsecNanosecond"),
             (("shared::util::itime::ITimeSecond", None, "second"), "CivilDaySecond"),
             (("shared::util::itime::ITimeNanosecond", None, "nanosecond"), "CivilDayNanosecond"),
             (("shared::util::itime::IWeekday", None, "offset"), "WeekdayOne"),
             (("shared::TzifLocalTimeType", None, "offset"), "SpanZoneOffset")]
    for k, a in pairs:
        expect("contract %s.%s" % (k[0].split("::")[-1], k[2]), C.FIELD[k], al(a), "verif/jv/contracts.py")


def month_table(rep, prog, rule="MONTH-TABLE"):
    rep.rule(rule, "the two DAYS_BY_MONTH tables of Date::day_of_year are the prefix sums of the Gregorian month lengths")
    lens = [31, 28, 31, 30, 31, 30, 31, 31, 30, 31, 30, 31]
    for name, feb in (("DAYS_BY_MONTH_NO_LEAP", 28), ("DAYS_BY_MONTH_LEAP", 29)):
        c = prog.consts.get("jiff::civil::date::Date::day_of_year::" + name)
        if c is None:
            rep.anchor_missing("static " + name)
            continue
        f, ln = c["span"]["file"], c["span"]["line"]
        text = " ".join(src_line(f, ln + i) for i in range(0, 4))
        m = re.search(name + r"\s*:\s*\[i16;\s*14\]\s*=\s*\[([^\]]*)\]", text)
        vals = [int(x) for x in re.findall(r"-?\d+", m.group(1))] if m else None
        ls = list(lens); ls[1] = feb
        want = [0, 0]
        for x in ls:
            want.append(want[-1] + x)
        if vals == want:
            rep.ok(rule, name, how=str(vals))
        else:
            rep.violation(rule, name, "table is %s, Gregorian prefix sums are %s" % (vals, want), "%s:%s" % (f, ln))


def floor_a(ctx, rep, rule="FLOOR-A", crates=("jiff", "jiff_static"), files=(ITIME, "crates/jiff-static/" + ITIME), cfg="Q", floor=20):
    rep.rule(rule, "inside shared::util::itime no truncating `/` or `%` (MIR Div/Rem on a signed type) is applied to a value that "
                   "the interval analysis cannot show non-negative, except divisibility tests whose result is only compared with 0; "
                   "epoch-relative quantities are split with div_euclid/rem_euclid (pre-1970 instants and days floor)")
    prog = ctx.prog(cfg)
    A = ctx.auto(cfg)
    n = 0
    for f in prog.fns.values():
        if f.crate not in crates or not any(f.file.endswith(x) for x in files):
            continue
        an = A.analyzer(f)
        ords = {}
        for bi, b in enumerate(f.blocks):
            for si, s in enumerate(b["st"]):
                if s["s"] != "=" or s["rv"]["k"] != "bin" or s["rv"]["op"] not in ("Div", "Rem"):
                    continue
                ty = s["rv"]["ty"]
                if not ty.startswith("i"):
                    continue
                n += 1
                ords[(s["rv"]["op"], ty)] = ords.get((s["rv"]["op"], ty), 0) + 1
                key = "%s::%s | %s %s#%d" % (f.crate, f.path, s["rv"]["op"], ty, ords[(s["rv"]["op"], ty)])
                st = an.state_at(bi, si)
                if st is None:
                    rep.ok(rule, key, how="infeasible block", nontrivial=False)
                    continue
                a = an.read_op(st, s["rv"]["a"])
                if a.iv is not None and a.iv[0] >= 0:
                    rep.ok(rule, key, how="dividend in %s" % (a.iv,))
                    continue
                if s["rv"]["op"] == "Rem" and _only_zero_tested(f, s["lhs"]["l"]):
                    rep.ok(rule, key, how="divisibility test (result only compared with 0)")
                    continue
                rep.violation(rule, key, "truncating %s on a possibly negative %s value %s (line %s: `%s`); use div_euclid/rem_euclid"
                              % (s["rv"]["op"], ty, a.iv, s.get("ln"), src_line(f.file, s.get("ln", 0))), "%s:%s" % (f.file, s.get("ln")))
    rep.floor(rule + " signed Div/Rem sites", n, floor)


def _only_zero_tested(f, local):
    """every use of `local` is `local ==/!= 0` (possibly through one copy)"""
    uses = 0
    work = {local}
    seen = set()
    while work:
        l = work.pop()
        seen.add(l)
        for b in f.blocks:
            for s in b["st"]:
                if s["s"] != "=":
                    continue
                rv = s["rv"]
                ops = mir.rvalue_operands(rv)
                if not any(o.get("o") in ("cp", "mv") and o.get("l") == l for o in ops):
                    continue
                if rv["k"] == "use" and "p" not in s["lhs"]:
                    if s["lhs"]["l"] not in seen:
                        work.add(s["lhs"]["l"])
                    continue
                if rv["k"] == "bin" and rv["op"] in ("Eq", "Ne") and any(o.get("o") == "c" and o.get("v") == 0 for o in ops):
                    uses += 1
                    continue
                return False
            t = b["term"]
            for o in (t.get("args") or []) + ([t["op"]] if t["t"] == "switch" else []):
                if o.get("o") in ("cp", "mv") and o.get("l") == l:
                    return False
    return uses > 0


def req_dep(rep, prog, rule="REQ-DEP"):
    rep.rule(rule, "in IDateTime::to_timestamp the branch that re-signs (second, nanosecond) depends on the `offset` parameter "
                   "(the sign of the resulting instant depends on the offset, so a fix-up that ignores it is wrong for some offset)")
    for crate in ("jiff", "jiff_static"):
        f = prog.fns.get(crate + "::shared::util::itime::IDateTime::to_timestamp")
        if f is None:
            if crate in prog.crates:
                rep.anchor_missing(crate + "::IDateTime::to_timestamp")
            continue
        T = Terms(f)
        off = None
        for i in range(1, f["argc"] + 1):
            if "IOffset" in f["locals"][i]["ty"]:
                off = ("param", i, f["locals"][i].get("n") or "")
        dep = []
        nsw = 0
        for b in f.blocks:
            t = b["term"]
            if t["t"] != "switch":
                continue
            nsw += 1
            d = T.operand(t["op"])
            dep.append(any(x == off for x in walk(d)))
        key = crate + "::IDateTime::to_timestamp sign fix-up"
        if off is None or nsw == 0:
            rep.violation(rule, key, "shape not recognised: no IOffset parameter or no branch in to_timestamp", f.loc())
        elif any(dep):
            rep.ok(rule, key, how="%d of %d branch conditions depend on `offset`" % (sum(dep), nsw))
        else:
            rep.violation(rule, key, "none of the %d branch conditions of to_timestamp depends on the `offset` parameter: the sign "
                          "normalisation of (second, nanosecond) is decided before the offset is applied" % nsw, f.loc())


def split_pipeline(rep, prog, rule="SPLIT"):
    """ITimestamp::to_datetime decomposes floor-divided (t + o)."""
    from .term import is_call, show
    rep.rule(rule, "ITimestamp::to_datetime splits the single sum `self.second + offset.second` with one div_euclid(86_400) (epoch day) "
                   "and one rem_euclid(86_400) (second of day): the civil datetime is the decomposition of floor-divided (t + o); "
                   "the epoch day handed to IEpochDay::to_date derives from that quotient and the time of day from that remainder")
    for crate in ("jiff", "jiff_static"):
        f = prog.fns.get(crate + "::shared::util::itime::ITimestamp::to_datetime")
        if f is None:
            if crate in prog.crates:
                rep.anchor_missing(crate + " ITimestamp::to_datetime")
            continue
        T = Terms(f)
        divs, rems = [], []
        for bi, t in mir.iter_calls(f):
            if t.get("path") == "core::num::<impl i64>::div_euclid":
                divs.append((T.at_call(bi, t, 0), T.at_call(bi, t, 1)))
            if t.get("path") == "core::num::<impl i64>::rem_euclid":
                rems.append((T.at_call(bi, t, 0), T.at_call(bi, t, 1)))
        key = crate + " ITimestamp::to_datetime"
        ok = len(divs) == 1 and len(rems) == 1 and divs[0] == rems[0] and divs[0][1] == ("const", 86400)
        sum_ok = False
        if ok:
            s = divs[0][0]
            leaves = [x for x in walk(s) if isinstance(x, tuple) and x and x[0] == "field"]
            has_ts = any(x[2] == "second" and x[1][0] == "param" and x[1][1] == 1 for x in leaves)
            has_off = any(x[2] == "second" and x[1][0] == "param" and x[1][1] == 2 for x in leaves)
            adds = [x for x in walk(s) if isinstance(x, tuple) and x and x[0] == "bin" and x[1].startswith("Add")]
            sum_ok = has_ts and has_off and len(adds) == 1
        flows = False
        if ok and sum_ok:
            day_ok = time_ok = False
            for bi, b in enumerate(f.blocks):
                for si, s in enumerate(b["st"]):
                    if s["s"] == "=" and s["rv"]["k"] == "agg":
                        adt = s["rv"].get("adt", "")
                        if adt.endswith("itime::IEpochDay"):
                            tt = T.rvalue(s["rv"], 0, (bi, si))
                            day_ok = all(any(is_call(x, "div_euclid") for x in walk(a)) for a in alts(dict(tt[3])["epoch_day"]))
                        if adt.endswith("itime::ITimeSecond"):
                            tt = T.rvalue(s["rv"], 0, (bi, si))
                            sec = dict(tt[3])["second"]
                            inner = sec[1] if sec[0] == "cast" else sec
                            time_ok = all(any(is_call(x, "rem_euclid") for x in walk(a)) for a in alts(inner))
            flows = day_ok and time_ok
        if ok and sum_ok and flows:
            rep.ok(rule, key, how="div_euclid/rem_euclid of %s" % show(divs[0][0], maxd=4))
        else:
            rep.violation(rule, key, "shape not recognised: div_euclid calls %d, rem_euclid calls %d, same operand and 86400: %s, operand is "
                          "the sum of the instant's and the offset's seconds: %s, quotient/remainder reach IEpochDay/ITimeSecond on every path: %s"
                          % (len(divs), len(rems), ok, sum_ok, flows), f.loc())
