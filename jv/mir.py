"""Helpers over the simplified MIR emitted by jv-driver: CFG, dominators,
reachability, def-use, operand/place utilities."""
from collections import defaultdict, deque


def succs(term, with_unwind=False):
    t = term["t"]
    out = []
    if t == "goto":
        out = [term["to"]]
    elif t == "switch":
        out = list(term["targets"]) + [term["otherwise"]]
    elif t in ("call", "drop", "assert"):
        if "to" in term:
            out = [term["to"]]
    if with_unwind and "unwind" in term:
        out = out + [term["unwind"]]
    return out


class CFG:
    """Normal-flow CFG (unwind edges excluded) with dominators."""

    def __init__(self, fn):
        self.fn = fn
        self.blocks = fn.blocks
        n = len(self.blocks)
        self.n = n
        self.succ = [succs(b["term"]) for b in self.blocks]
        self.pred = [[] for _ in range(n)]
        for i, ss in enumerate(self.succ):
            for s in ss:
                self.pred[s].append(i)
        self._idom = None
        self._reach = None

    # -- reachability
    def reachable_from(self, start, avoid=()):
        avoid = set(avoid)
        seen = set()
        if start in avoid:
            return seen
        dq = deque([start])
        seen.add(start)
        while dq:
            b = dq.popleft()
            for s in self.succ[b]:
                if s not in seen and s not in avoid:
                    seen.add(s)
                    dq.append(s)
        return seen

    def reachable(self):
        if self._reach is None:
            self._reach = self.reachable_from(0)
        return self._reach

    def can_reach(self, a, b, avoid=()):
        return b in self.reachable_from(a, avoid)

    # -- dominators (Cooper-Harvey-Kennedy)
    def idom(self):
        if self._idom is not None:
            return self._idom
        order = []
        seen = set()
        stack = [(0, iter(self.succ[0]))]
        seen.add(0)
        while stack:
            node, it = stack[-1]
            adv = False
            for s in it:
                if s not in seen:
                    seen.add(s)
                    stack.append((s, iter(self.succ[s])))
                    adv = True
                    break
            if not adv:
                order.append(node)
                stack.pop()
        rpo = list(reversed(order))
        idx = {b: i for i, b in enumerate(rpo)}
        idom = {0: 0}
        changed = True
        while changed:
            changed = False
            for b in rpo[1:]:
                new = None
                for p in self.pred[b]:
                    if p in idom:
                        if new is None:
                            new = p
                        else:
                            a, c = p, new
                            while a != c:
                                while idx[a] > idx[c]:
                                    a = idom[a]
                                while idx[c] > idx[a]:
                                    c = idom[c]
                            new = a
                if new is not None and idom.get(b) != new:
                    idom[b] = new
                    changed = True
        self._idom = idom
        return idom

    def dominates(self, a, b):
        """block a dominates block b"""
        idom = self.idom()
        if b not in idom:
            return False
        while True:
            if a == b:
                return True
            if b == 0:
                return False
            b = idom[b]

    def dominators(self, b):
        idom = self.idom()
        out = []
        if b not in idom:
            return out
        while True:
            out.append(b)
            if b == 0:
                break
            b = idom[b]
        return out

    def edge_dominates(self, src, dst, b):
        """Every path from entry to block b goes through the CFG edge
        src->dst (i.e. dst dominates b and dst is only entered from src, or
        removing the edge makes b unreachable)."""
        # remove edge and test reachability
        seen = {0}
        dq = deque([0])
        if b == 0:
            return False
        while dq:
            x = dq.popleft()
            for s in self.succ[x]:
                if x == src and s == dst:
                    continue
                if s not in seen:
                    if s == b:
                        # reached b without the edge... unless b==dst and only
                        # via other preds
                        return False
                    seen.add(s)
                    dq.append(s)
        return b in self.reachable()


def place_key(p):
    """Hashable rendering of a place."""
    if "p" not in p:
        return (p["l"],)
    out = [p["l"]]
    for e in p["p"]:
        if e == "*":
            out.append("*")
        elif isinstance(e, str):
            out.append(e)
        elif "f" in e:
            out.append(("f", e["f"]))
        elif "d" in e:
            out.append(("d", e["d"]))
        elif "i" in e:
            out.append(("i", e["i"]))
        elif "ci" in e:
            out.append(("ci", e["ci"], e.get("from_end", False)))
        elif "sub" in e:
            out.append(("sub", e["sub"], e["to"], e.get("from_end", False)))
    return tuple(out)


def is_const(op):
    return op.get("o") == "c"


def is_place(op):
    return op.get("o") in ("cp", "mv")


def const_int(op):
    if op.get("o") == "c" and "v" in op:
        return op["v"]
    return None


def bare_local(op_or_place):
    """local index if the operand/place is a bare local (no projection)."""
    if op_or_place.get("o") == "c":
        return None
    if "p" in op_or_place:
        return None
    return op_or_place.get("l")


def base_local(op_or_place):
    if op_or_place.get("o") == "c":
        return None
    return op_or_place.get("l")


class DefUse:
    """Per-function def/use index over locals (flow-insensitive)."""

    def __init__(self, fn):
        self.fn = fn
        self.defs = defaultdict(list)   # local -> [(bb, idx|'term', stmt/term)]
        self.argc = fn["argc"]
        for bi, b in enumerate(fn.blocks):
            for si, s in enumerate(b["st"]):
                if s["s"] in ("=", "setdisc"):
                    self.defs[s["lhs"]["l"]].append((bi, si, s))
            t = b["term"]
            if t["t"] == "call" and "dest" in t:
                self.defs[t["dest"]["l"]].append((bi, "term", t))

    def single_def(self, local):
        """The unique whole-local definition (bare lhs) or None."""
        ds = [d for d in self.defs.get(local, []) if "p" not in (d[2].get("lhs") or d[2].get("dest"))]
        if len(ds) == 1 and len(self.defs[local]) == 1:
            return ds[0]
        return None

    def is_arg(self, local):
        return 1 <= local <= self.argc

    def resolve_copy(self, op, depth=12):
        """Follow plain copies/moves (`_a = move _b`) back to the origin.
        Returns the operand at the end of the chain."""
        while depth > 0 and is_place(op) and "p" not in op:
            l = op["l"]
            if self.is_arg(l):
                return op
            d = self.single_def(l)
            if d is None:
                return op
            s = d[2]
            if d[1] == "term":
                return op
            rv = s.get("rv")
            if rv and rv["k"] == "use":
                op = rv["a"]
                depth -= 1
                continue
            return op
        return op

    def def_of(self, op):
        """(kind, payload) describing how operand's value is produced:
        ('const', op) | ('arg', idx) | ('call', term) | ('rv', rvalue) |
        ('place', op) | ('multi', None)"""
        op = self.resolve_copy(op)
        if is_const(op):
            return ("const", op)
        if "p" in op:
            return ("place", op)
        l = op["l"]
        if self.is_arg(l):
            return ("arg", l)
        d = self.single_def(l)
        if d is None:
            return ("multi", None)
        if d[1] == "term":
            return ("call", d[2], d[0])
        return ("rv", d[2]["rv"], d[0])


def iter_calls(fn):
    for bi, b in enumerate(fn.blocks):
        t = b["term"]
        if t["t"] == "call":
            yield bi, t


def operand_locals(op):
    """All locals read by an operand (base + index locals)."""
    if op.get("o") == "c" or "l" not in op:
        return []
    out = [op["l"]]
    for e in op.get("p", []):
        if isinstance(e, dict) and "i" in e:
            out.append(e["i"])
    return out


def rvalue_operands(rv):
    k = rv["k"]
    if k in ("use", "repeat", "cast", "un"):
        return [rv["a"]]
    if k == "bin":
        return [rv["a"], rv["b"]]
    if k == "agg":
        return list(rv["ops"])
    if k in ("ref", "rawptr", "disc"):
        p = dict(rv["place"])
        p["o"] = "cp"
        return [p]
    return []
