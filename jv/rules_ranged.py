"""RANGED-CHECKED: the checked constructors and checked arithmetic of the ranged integers test the range in every
configuration.

util/rangeint.rs is the trusted base of the interval analysis (E2 skips the file): every `riN::new`, `try_new`,
`try_new128`, `checked_add/sub/mul`, `try_checked_add/sub/mul` is *assumed* to return Some/Ok only for a value inside
MIN..=MAX.  Each method has a `#[cfg(debug_assertions)]` arm and a release arm; the test suite only builds the debug arm.
The rule reads both (configuration Q: debug assertions on; T1: off) and demands, for every Some/Ok these methods build
themselves, that its construction is control-dependent on `Self::contains(..)` being true, or that the value is the result
of another method of the same set (delegation).  No jiff code is run.
"""
import re
from . import mir
from .term import Terms, walk, alts, show
from .guards import guards, strip_not

METHODS = ("new", "try_new", "try_new128", "checked_add", "checked_sub", "checked_mul", "try_checked_add", "try_checked_sub", "try_checked_mul")
_FN = re.compile(r"util::rangeint::ri(8|16|32|64|128)::<MIN, MAX>::(%s)$" % "|".join(METHODS))


_ANY = re.compile(r"util::rangeint::ri(8|16|32|64|128)::<MIN, MAX>::(\w+)$")


def _delegates(t, prog=None, depth=2, _seen=None):
    """the value is the result of a method of the checked set - or of another method of the ranged type that itself passes
    this rule (a private helper such as new_const that `new` hands its converted argument to)"""
    for x in walk(t):
        if isinstance(x, tuple) and x and x[0] == "call":
            if _FN.search(x[1]):
                return True
            if prog is not None and depth > 0 and _ANY.search(x[1]):
                g = prog.fns.get("jiff::" + x[1])
                if g is not None and x[1] not in (_seen or ()) and "unchecked" not in x[1] and _method_bad(g, prog, depth - 1, (_seen or ()) + (x[1],)) is None \
                        and _builds_or_delegates(g, prog):
                    return True
    return False


def _builds_or_delegates(g, prog):
    T = Terms(g)
    r = T.returns()
    return any(isinstance(a, tuple) and a and a[0] in ("agg", "call") for a in alts(r))


def _method_bad(g, prog, depth=2, seen=()):
    """None if every Some/Ok the function builds is under contains() or delegates; else a description"""
    T = Terms(g)
    cfg = mir.CFG(g)
    bad = None
    built = 0
    for bi, b in enumerate(g.blocks):
        for si, s in enumerate(b["st"]):
            rv = s.get("rv") or {}
            if s["s"] == "=" and rv.get("k") == "agg" and rv.get("adt") in ("core::option::Option", "core::result::Result") \
                    and rv.get("variant") in ("Some", "Ok"):
                built += 1
                payload = T.operand(rv["ops"][0], pos=(bi, si)) if rv.get("ops") else None
                if payload is not None and _delegates(payload, prog, depth, seen):
                    continue
                ok = False
                for (cond, truth, _sb) in guards(g, cfg, T, bi):
                    c2, t2 = strip_not(cond, truth)
                    if t2 is True and any(isinstance(y, tuple) and y and y[0] == "call" and y[1].endswith("::contains") for y in walk(c2)):
                        ok = True
                if not ok:
                    bad = "%s:%s builds %s of %s without a dominating Self::contains(..) test" % (
                        g.file, s.get("ln"), rv.get("variant"), show(payload, maxd=3)[:80])
    r = T.returns()
    passthrough = [a for a in alts(r) if isinstance(a, tuple) and a and a[0] == "call"]
    for a in passthrough:
        if not _delegates(a, prog, depth, seen):
            bad = bad or "returns %s, which is not a method of the checked set" % show(a, maxd=3)[:100]
    if built == 0 and not passthrough:
        bad = bad or "anchor missing: the method neither builds Some/Ok nor delegates"
    return bad


def ranged_checked(ctx, rep, rule="RANGED-CHECKED", configs=("Q", "T1"), floor=40):
    rep.rule(rule, "in builds with and without debug assertions, every Some/Ok that riN::{new, try_new, try_new128, checked_add, "
                   "checked_sub, checked_mul, try_checked_*} construct is built only where Self::contains(value) holds, or is the "
                   "result of another method of this set: the interval analysis and every `checked_*` caller assume that these "
                   "methods refuse values outside MIN..=MAX (a release arm that returns new_unchecked(val) makes Span::checked_mul "
                   "accept 30000 years)")
    total = 0
    for c in configs:
        prog = ctx.prog(c)
        n = 0
        for k, g in sorted(prog.fns.items()):
            m = _FN.search(k)
            if not m or g.crate != "jiff":
                continue
            n += 1
            key = "%s ri%s::%s" % ("debug" if c == "Q" else "release" if c == "T1" else c, m.group(1), m.group(2))
            bad = _method_bad(g, prog)
            if bad:
                rep.violation(rule, key, bad, g.loc())
            else:
                rep.ok(rule, key, how="every Some/Ok is built under contains() or delegates to a method that is")
        total += n
        rep.floor("%s methods in %s" % (rule, c), n, floor)
    return total
