"""Automatic discharge rules for E1 panic sites (DESIGN.md section 3/E1:
LEN-GUARD, CONST-OK, WIDEN-OK, DIV-CONST, INTERVAL). Each returns the name of
the rule that discharges the site, or None."""
import re
from . import mir
from .absint import Analyzer, PRIM, AV, TOP, fits, LEN_TOP


def _rb(ty):
    from .absint import ranged_bounds
    return ranged_bounds(ty)


def _decl(ty):
    b = _rb(ty)
    return (b[1], b[2]) if b else PRIM[ty]


class Auto:
    def __init__(self, prog, contracts=None, hooks=None, param_contracts=None):
        from . import contracts as C
        self.prog = prog
        self.contracts = C.FIELD if contracts is None else contracts
        self.param_contracts = C.PARAM if param_contracts is None else param_contracts
        if hooks is None:
            from .e2 import E2Hooks
            hooks = {"call": E2Hooks().call}
        self.hooks = hooks
        self._an = {}
        self._du = {}
        self._sum = {}
        self._sum_active = set()

    def summary(self, key, payload=False):
        """Interval of the integer returned by a workspace function (or of
        the success payload of its Option/Result), computed bottom-up on
        demand (recursion -> declared type)."""
        if payload:
            return self._summary_pay(key)
        if key in self._sum:
            return self._sum[key]
        fn = self.prog.fns.get(key)
        if fn is None or fn.get("ret") not in PRIM or key in self._sum_active:
            return None
        if len(self._sum_active) > 40:
            return None
        self._sum_active.add(key)
        try:
            an = self.analyzer(fn)
            res = None
            if not an.bailed:
                for bi, b in enumerate(fn.blocks):
                    if b["term"]["t"] == "return" and bi in an.pre:
                        v = an.read_place(an.pre[bi], {"l": 0})
                        if v.iv is None:
                            res = None
                            break
                        res = v.iv if res is None else (min(res[0], v.iv[0]), max(res[1], v.iv[1]))
        finally:
            self._sum_active.discard(key)
        self._sum[key] = res
        return res

    # ------------------------------------------------------------------
    def infer_params(self, cg, rounds=3):
        """Assume-guarantee inference of integer parameter intervals for
        crate-private functions of `jiff`: the hull of the argument intervals
        over all call sites, iterated downwards from TOP, then verified (a
        parameter whose final hull is not re-established is dropped to TOP).
        Sound by induction over call depth: every call site is checked against
        the callee's interval under the caller's own assumed intervals."""
        from . import contracts as C
        prog = self.prog
        elig = {}
        for f in prog.fns.values():
            if f.crate != "jiff" or f.is_closure or f.get("reachable") or f.get("trait_item") or f.path in C.PARAM:
                continue
            ins = cg.redges.get(f.key, [])
            if not ins or any(k != "call" for (_, k, _) in ins):
                continue
            idxs = [i for i in range(1, f["argc"] + 1)
                    if (f["locals"][i]["ty"] in PRIM and f["locals"][i]["ty"] not in ("bool", "char")) or _rb(f["locals"][i]["ty"])]
            if idxs:
                elig[f.path] = (f, idxs)
        base = dict(self.param_contracts)
        cur = {}
        def one_round(verify=False):
            self._an.clear(); self._sum.clear()
            pc = dict(base)
            for path, d in cur.items():
                pc[path] = dict(d)
            self.param_contracts = pc
            acc = {}
            bad = set()
            for g in prog.fns.values():
                if g.crate != "jiff":
                    continue
                calls = [(bi, t) for bi, t in mir.iter_calls(g) if t.get("rkrate") == "jiff" and t.get("path") in elig and t.get("resolved")]
                if not calls:
                    continue
                an = self.analyzer(g)
                for bi, t in calls:
                    st = an.state_before_term(bi)
                    if st is None:
                        continue   # infeasible call site
                    f, idxs = elig[t["path"]]
                    for i in idxs:
                        v = an.read_op(st, t["args"][i - 1]) if i - 1 < len(t["args"]) else None
                        iv = v.iv if v is not None and v.iv is not None else _decl(f["locals"][i]["ty"])
                        old = acc.get((t["path"], i))
                        acc[(t["path"], i)] = iv if old is None else (min(old[0], iv[0]), max(old[1], iv[1]))
                        if verify:
                            want = cur.get(t["path"], {}).get(i)
                            if want is not None and not (want[0] <= iv[0] and iv[1] <= want[1]):
                                bad.add((t["path"], i))
            return acc, bad
        for _ in range(rounds):
            acc, _b = one_round()
            nxt = {}
            for (path, i), iv in acc.items():
                f, _ = elig[path]
                tr = _decl(f["locals"][i]["ty"])
                if iv != tr and iv[0] >= tr[0] and iv[1] <= tr[1]:
                    nxt.setdefault(path, {})[i] = iv
            cur = nxt
        # verification: drop whatever is not inductive
        for _ in range(6):
            acc, bad = one_round(verify=True)
            if not bad:
                break
            for (path, i) in bad:
                cur.get(path, {}).pop(i, None)
        else:
            cur = {}
        self._an.clear(); self._sum.clear()
        pc = dict(base)
        for path, d in cur.items():
            if d:
                pc[path] = dict(d)
        self.param_contracts = pc
        self.inferred_params = {p: d for p, d in cur.items() if d}
        return self.inferred_params

    def _summary_pay(self, key):
        from .absint import payload_type, join_pay
        k2 = ("pay", key)
        if k2 in self._sum:
            return self._sum[k2]
        fn = self.prog.fns.get(key)
        if fn is None or payload_type(fn.get("ret")) is None or key in self._sum_active or len(self._sum_active) > 40:
            return None
        self._sum_active.add(key)
        res = "bot"
        try:
            an = self.analyzer(fn)
            if an.bailed:
                res = None
            else:
                for bi, b in enumerate(fn.blocks):
                    if b["term"]["t"] == "return" and bi in an.pre:
                        v = an.pre[bi].vals.get((0,))
                        res = join_pay(res, v.pay if v is not None else None)
                        if res is None:
                            break
        finally:
            self._sum_active.discard(key)
        if res == "bot":
            res = None
        self._sum[k2] = res
        return res

    def analyzer(self, fn):
        a = self._an.get(fn.key)
        if a is None:
            a = Analyzer(fn, self.prog, self.contracts, self.summary, self.hooks, self.param_contracts)
            try:
                a.run()
            except RecursionError:
                a.bailed = True
                a.pre = {}
                a.done = True
            self._an[fn.key] = a
        return a

    def du(self, fn):
        d = self._du.get(fn.key)
        if d is None:
            d = mir.DefUse(fn)
            self._du[fn.key] = d
        return d

    def discharge(self, site):
        try:
            an = self.analyzer(site.fn)
            if not an.bailed and an.done and site.bb not in an.pre:
                # the abstract interpreter proves the block infeasible
                return "UNREACHABLE-BLOCK"
            if site.kind == "assert":
                return self._assert(site)
            if site.kind == "std":
                return self._std(site)
            if site.kind == "op":
                return self._op(site)
        except (KeyError, IndexError, TypeError) as e:  # analysis gap: stay undischarged
            return None
        return None

    # ------------------------------------------------------------------
    # documented-panic constructors: the argument interval that cannot panic
    OP_ARGS = {
        "signed_duration::SignedDuration::new": {1: (-999_999_999, 999_999_999)},      # no carry into the seconds
        "span::Span::years": {1: (-19_998, 19_998)},
        "span::Span::months": {1: (-239_976, 239_976)},
        "span::Span::weeks": {1: (-1_043_497, 1_043_497)},
        "span::Span::days": {1: (-7_304_484, 7_304_484)},
        "span::Span::hours": {1: (-175_307_616, 175_307_616)},
        "span::Span::minutes": {1: (-10_518_456_960, 10_518_456_960)},
        "span::Span::seconds": {1: (-631_107_417_600, 631_107_417_600)},
        "span::Span::milliseconds": {1: (-631_107_417_600_000, 631_107_417_600_000)},
        "span::Span::microseconds": {1: (-631_107_417_600_000_000, 631_107_417_600_000_000)},
        "span::Span::nanoseconds": {1: (-9_223_372_036_854_775_807, 9_223_372_036_854_775_807)},
    }

    def _op(self, site):
        t = site.term
        want = self.OP_ARGS.get(t.get("path"))
        if not want:
            return None
        an = self.analyzer(site.fn)
        st = an.state_before_term(site.bb)
        if st is None:
            return None
        for idx, (lo, hi) in want.items():
            if idx >= len(t["args"]):
                return None
            v = an.read_op(st, t["args"][idx])
            if v.iv is None or v.iv[0] < lo or v.iv[1] > hi:
                return None
        return "OP-ARG"

    def _assert(self, site):
        t = site.term
        an = self.analyzer(site.fn)
        st = an.state_before_term(site.bb)
        if st is None:
            return None
        kind = t["kind"]
        if kind.startswith("Overflow(") and kind not in ("Overflow(Div)", "Overflow(Rem)"):
            v = an.read_op(st, t["cond"])
            if v.iv == (0, 0) and t["expected"] is False:
                return "INTERVAL"
            if kind in ("Overflow(Shl)", "Overflow(Shr)"):
                # shift amount < bit width
                amt = an.read_op(st, t["ops"][1])
                ty = t["op_tys"][0]
                from .absint import BITS
                if amt.iv is not None and ty in BITS and 0 <= amt.iv[0] and amt.iv[1] < BITS[ty]:
                    return "INTERVAL"
            return None
        if kind == "BoundsCheck":
            ln = an.read_op(st, t["ops"][0])
            ix = an.read_op(st, t["ops"][1])
            if ln.iv is not None and ix.iv is not None and ix.iv[1] < ln.iv[0]:
                return "INTERVAL"
            lens = {s for (s, off, kd) in ln.rel if kd == "eq" and off == 0}
            for (s, off, kd) in ix.rel:
                if s in lens and off >= 1:
                    return "LEN-GUARD"
            # index < lower bound of the sequence's length
            for s in lens:
                if ix.iv is not None and ix.iv[1] < st.len_of(s)[0]:
                    return "LEN-GUARD"
            return None
        # generic: the asserted condition is decided by the intervals
        v = an.read_op(st, t["cond"])
        want = 1 if t["expected"] else 0
        if v.iv == (want, want):
            if kind in ("DivisionByZero", "RemainderByZero", "Overflow(Div)", "Overflow(Rem)"):
                return "DIV-CONST"
            return "INTERVAL"
        return None

    # ------------------------------------------------------------------
    def _std(self, site):
        t = site.term
        d = site.detail
        an = self.analyzer(site.fn)
        st = an.state_before_term(site.bb)
        if st is None:
            return None
        short = d.split("(")[0].split(" [")[0]
        args = t["args"]
        if short.endswith("::index") or short.endswith("::index_mut"):
            seq = an.read_op(st, args[0])
            ity = t["arg_tys"][1]
            ln = st.len_of(seq.sid) if seq.sid is not None else None
            if ln is None:
                from .absint import array_len
                n = array_len(t["arg_tys"][0])
                ln = (n, n) if n is not None else None
            if ity == "usize":
                ix = an.read_op(st, args[1])
                if ln is not None and ix.iv is not None and ix.iv[1] < ln[0]:
                    return "LEN-GUARD"
                if seq.sid is not None:
                    for (s, off, kd) in ix.rel:
                        if s == seq.sid and off >= 1:
                            return "LEN-GUARD"
                return None
            if ity == "core::ops::RangeFull":
                return "TYPE"
            rng = an.range_arg(st, t, 1)
            if rng is None:
                return None
            kind, lo, hi = rng
            def le_len(v, extra=0):
                # v + extra <= len
                if v is None:
                    return False
                if ln is not None and v.iv is not None and v.iv[1] + extra <= ln[0]:
                    return True
                if seq.sid is not None:
                    for (s, off, kd) in v.rel:
                        if s == seq.sid and off >= extra:
                            return True
                return False
            if kind == "from":
                return "LEN-GUARD" if le_len(lo) else None
            if kind == "to":
                return "LEN-GUARD" if le_len(hi) else None
            if kind == "range":
                ok_order = lo.iv is not None and hi.iv is not None and lo.iv[1] <= hi.iv[0]
                return "LEN-GUARD" if (ok_order and le_len(hi)) else None
            return None
        if short in ("slice::split_at", "str::split_at"):
            seq = an.read_op(st, args[0])
            mid = an.read_op(st, args[1])
            if seq.sid is not None:
                ln = st.len_of(seq.sid)
                if mid.iv is not None and mid.iv[1] <= ln[0]:
                    return "LEN-GUARD"
                for (s, off, kd) in mid.rel:
                    if s == seq.sid and off >= 0:
                        return "LEN-GUARD"
            return None
        if short == "slice::chunks_exact":
            n = an.read_op(st, args[1])
            if n.iv is not None and n.iv[0] >= 1:
                return "CONST-OK"
            return None
        if short == "slice::copy_from_slice":
            a = an.read_op(st, args[0]); b = an.read_op(st, args[1])
            if a.sid is not None and b.sid is not None:
                la, lb = st.len_of(a.sid), st.len_of(b.sid)
                if la[0] == la[1] == lb[0] == lb[1]:
                    return "LEN-GUARD"
            return None
        m = re.match(r"^(i\d+|isize)::abs$", short)
        if m:
            a = an.read_op(st, args[0])
            r = PRIM[m.group(1)]
            if a.iv is not None and a.iv[0] > r[0]:
                return "INTERVAL"
            return None
        m = re.match(r"^(\w+)::(rem_euclid|div_euclid)$", short)
        if m:
            a = an.read_op(st, args[0]); b = an.read_op(st, args[1])
            r = PRIM[m.group(1)]
            if b.iv is not None and (b.iv[0] > 0 or (b.iv[1] < 0 and (b.iv[1] < -1 or (a.iv is not None and a.iv[0] > r[0])))):
                return "DIV-CONST" if b.iv[0] == b.iv[1] else "INTERVAL"
            return None
        if short in ("Option::unwrap", "Option::expect", "Result::unwrap", "Result::expect"):
            return self._unwrap(site, an, st)
        if short == "Duration::new":
            n = an.read_op(st, args[1])
            if n.iv is not None and n.iv[1] < 1_000_000_000:
                return "INTERVAL"
            return None
        return None

    # ------------------------------------------------------------------
    def _unwrap(self, site, an, st):
        """CONST-OK / WIDEN-OK / LEN-GUARD for unwrap-like sites: look at how
        the unwrapped Option/Result was produced."""
        t = site.term
        du = self.du(site.fn)
        d = du.def_of(t["args"][0])
        if d[0] != "call":
            return None
        c = d[1]
        path = c.get("path", "")
        cbb = d[2]
        cst = an.state_before_term(cbb)
        if cst is None:
            return None
        # infallible-by-types integer conversions
        m = re.match(r"core::convert::num::(?:ptr_try_from_impls::)?<impl core::convert::TryFrom<(\w+)> for (\w+)>::try_from$", path)
        if m:
            src, dst = PRIM.get(m.group(1)), PRIM.get(m.group(2))
            a = an.read_op(cst, c["args"][0])
            if a.iv is not None and dst is not None and fits(a.iv, dst):
                return "WIDEN-OK" if fits(src, dst) else ("CONST-OK" if a.iv[0] == a.iv[1] else "INTERVAL")
            return None
        if path in ("<T as core::convert::TryInto<U>>::try_into", "<T as core::convert::TryFrom<U>>::try_from"):
            ft = c.get("fn", "")
            m = re.match(r"<(\w+) as core::convert::TryInto<(\w+)>>::try_into$", ft)
            if m:
                dst = PRIM.get(m.group(2))
                a = an.read_op(cst, c["args"][0])
                if a.iv is not None and dst is not None and fits(a.iv, dst):
                    return "INTERVAL"
            return None
        # first()/last()/get(i) on a sequence known to be long enough
        if path in ("core::slice::<impl [T]>::first", "core::slice::<impl [T]>::last"):
            a = an.read_op(cst, c["args"][0])
            if a.sid is not None and cst.len_of(a.sid)[0] >= 1:
                return "LEN-GUARD"
            return None
        if path == "core::slice::<impl [T]>::get" and c["arg_tys"][1] == "usize":
            a = an.read_op(cst, c["args"][0]); ix = an.read_op(cst, c["args"][1])
            if a.sid is not None and ix.iv is not None and ix.iv[1] < cst.len_of(a.sid)[0]:
                return "LEN-GUARD"
            return None
        # checked arithmetic on intervals that cannot overflow
        m = re.match(r"core::num::<impl (\w+)>::checked_(add|sub|mul)$", path)
        if m:
            from .absint import iv_add, iv_sub, iv_mul
            r = PRIM[m.group(1)]
            a = an.read_op(cst, c["args"][0]); b = an.read_op(cst, c["args"][1])
            if a.iv is not None and b.iv is not None:
                f = {"add": iv_add, "sub": iv_sub, "mul": iv_mul}[m.group(2)]
                if fits(f(a.iv, b.iv), r):
                    return "INTERVAL"
            return None
        h = self.hooks.get("unwrap")
        if h is not None:
            return h(self, site, an, cst, c)
        return None
