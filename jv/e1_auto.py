"""Automatic discharge rules for E1 panic sites (DESIGN.md section 3/E1:
LEN-GUARD, CONST-OK, WIDEN-OK, DIV-CONST, INTERVAL). Each returns the name of
the rule that discharges the site, or None."""
import re
from . import mir
from .absint import Analyzer, PRIM, AV, TOP, fits, LEN_TOP


class Auto:
    def __init__(self, prog, contracts=None, hooks=None, param_contracts=None):
        from . import contracts as C
        self.prog = prog
        self.contracts = C.FIELD if contracts is None else contracts
        self.param_contracts = C.PARAM if param_contracts is None else param_contracts
        self.hooks = hooks or {}
        self._an = {}
        self._du = {}
        self._sum = {}
        self._sum_active = set()

    def summary(self, key):
        """Interval of the integer returned by a workspace function, computed
        bottom-up on demand (recursion -> declared type)."""
        if key in self._sum:
            return self._sum[key]
        fn = self.prog.fns.get(key)
        if fn is None or fn.get("ret") not in PRIM or key in self._sum_active:
            return None
        if len(self._sum_active) > 40:
            return None
        self._sum_active.add(key)
        try:
            an = self.analyzer(fn)
            res = None
            if not an.bailed:
                for bi, b in enumerate(fn.blocks):
                    if b["term"]["t"] == "return" and bi in an.pre:
                        v = an.read_place(an.pre[bi], {"l": 0})
                        if v.iv is None:
                            res = None
                            break
                        res = v.iv if res is None else (min(res[0], v.iv[0]), max(res[1], v.iv[1]))
        finally:
            self._sum_active.discard(key)
        self._sum[key] = res
        return res

    def analyzer(self, fn):
        a = self._an.get(fn.key)
        if a is None:
            a = Analyzer(fn, self.prog, self.contracts, self.summary, self.hooks, self.param_contracts)
            try:
                a.run()
            except RecursionError:
                a.bailed = True
                a.pre = {}
                a.done = True
            self._an[fn.key] = a
        return a

    def du(self, fn):
        d = self._du.get(fn.key)
        if d is None:
            d = mir.DefUse(fn)
            self._du[fn.key] = d
        return d

    def discharge(self, site):
        try:
            an = self.analyzer(site.fn)
            if not an.bailed and an.done and site.bb not in an.pre:
                # the abstract interpreter proves the block infeasible
                return "UNREACHABLE-BLOCK"
            if site.kind == "assert":
                return self._assert(site)
            if site.kind == "std":
                return self._std(site)
        except (KeyError, IndexError, TypeError) as e:  # analysis gap: stay undischarged
            return None
        return None

    # ------------------------------------------------------------------
    def _assert(self, site):
        t = site.term
        an = self.analyzer(site.fn)
        st = an.state_before_term(site.bb)
        if st is None:
            return None
        kind = t["kind"]
        if kind.startswith("Overflow(") and kind not in ("Overflow(Div)", "Overflow(Rem)"):
            v = an.read_op(st, t["cond"])
            if v.iv == (0, 0) and t["expected"] is False:
                return "INTERVAL"
            if kind in ("Overflow(Shl)", "Overflow(Shr)"):
                # shift amount < bit width
                amt = an.read_op(st, t["ops"][1])
                ty = t["op_tys"][0]
                from .absint import BITS
                if amt.iv is not None and ty in BITS and 0 <= amt.iv[0] and amt.iv[1] < BITS[ty]:
                    return "INTERVAL"
            return None
        if kind == "BoundsCheck":
            ln = an.read_op(st, t["ops"][0])
            ix = an.read_op(st, t["ops"][1])
            if ln.iv is not None and ix.iv is not None and ix.iv[1] < ln.iv[0]:
                return "INTERVAL"
            lens = {s for (s, off, kd) in ln.rel if kd == "eq" and off == 0}
            for (s, off, kd) in ix.rel:
                if s in lens and off >= 1:
                    return "LEN-GUARD"
            # index < lower bound of the sequence's length
            for s in lens:
                if ix.iv is not None and ix.iv[1] < st.len_of(s)[0]:
                    return "LEN-GUARD"
            return None
        # generic: the asserted condition is decided by the intervals
        v = an.read_op(st, t["cond"])
        want = 1 if t["expected"] else 0
        if v.iv == (want, want):
            if kind in ("DivisionByZero", "RemainderByZero", "Overflow(Div)", "Overflow(Rem)"):
                return "DIV-CONST"
            return "INTERVAL"
        return None

    # ------------------------------------------------------------------
    def _std(self, site):
        t = site.term
        d = site.detail
        an = self.analyzer(site.fn)
        st = an.state_before_term(site.bb)
        if st is None:
            return None
        short = d.split("(")[0].split(" [")[0]
        args = t["args"]
        if short.endswith("::index") or short.endswith("::index_mut"):
            seq = an.read_op(st, args[0])
            ity = t["arg_tys"][1]
            ln = st.len_of(seq.sid) if seq.sid is not None else None
            if ln is None:
                from .absint import array_len
                n = array_len(t["arg_tys"][0])
                ln = (n, n) if n is not None else None
            if ity == "usize":
                ix = an.read_op(st, args[1])
                if ln is not None and ix.iv is not None and ix.iv[1] < ln[0]:
                    return "LEN-GUARD"
                if seq.sid is not None:
                    for (s, off, kd) in ix.rel:
                        if s == seq.sid and off >= 1:
                            return "LEN-GUARD"
                return None
            if ity == "core::ops::RangeFull":
                return "TYPE"
            rng = an.range_arg(st, t, 1)
            if rng is None:
                return None
            kind, lo, hi = rng
            def le_len(v, extra=0):
                # v + extra <= len
                if v is None:
                    return False
                if ln is not None and v.iv is not None and v.iv[1] + extra <= ln[0]:
                    return True
                if seq.sid is not None:
                    for (s, off, kd) in v.rel:
                        if s == seq.sid and off >= extra:
                            return True
                return False
            if kind == "from":
                return "LEN-GUARD" if le_len(lo) else None
            if kind == "to":
                return "LEN-GUARD" if le_len(hi) else None
            if kind == "range":
                ok_order = lo.iv is not None and hi.iv is not None and lo.iv[1] <= hi.iv[0]
                return "LEN-GUARD" if (ok_order and le_len(hi)) else None
            return None
        if short in ("slice::split_at", "str::split_at"):
            seq = an.read_op(st, args[0])
            mid = an.read_op(st, args[1])
            if seq.sid is not None:
                ln = st.len_of(seq.sid)
                if mid.iv is not None and mid.iv[1] <= ln[0]:
                    return "LEN-GUARD"
                for (s, off, kd) in mid.rel:
                    if s == seq.sid and off >= 0:
                        return "LEN-GUARD"
            return None
        if short == "slice::chunks_exact":
            n = an.read_op(st, args[1])
            if n.iv is not None and n.iv[0] >= 1:
                return "CONST-OK"
            return None
        if short == "slice::copy_from_slice":
            a = an.read_op(st, args[0]); b = an.read_op(st, args[1])
            if a.sid is not None and b.sid is not None:
                la, lb = st.len_of(a.sid), st.len_of(b.sid)
                if la[0] == la[1] == lb[0] == lb[1]:
                    return "LEN-GUARD"
            return None
        m = re.match(r"^(i\d+|isize)::abs$", short)
        if m:
            a = an.read_op(st, args[0])
            r = PRIM[m.group(1)]
            if a.iv is not None and a.iv[0] > r[0]:
                return "INTERVAL"
            return None
        m = re.match(r"^(\w+)::(rem_euclid|div_euclid)$", short)
        if m:
            a = an.read_op(st, args[0]); b = an.read_op(st, args[1])
            r = PRIM[m.group(1)]
            if b.iv is not None and (b.iv[0] > 0 or (b.iv[1] < 0 and (b.iv[1] < -1 or (a.iv is not None and a.iv[0] > r[0])))):
                return "DIV-CONST" if b.iv[0] == b.iv[1] else "INTERVAL"
            return None
        if short in ("Option::unwrap", "Option::expect", "Result::unwrap", "Result::expect"):
            return self._unwrap(site, an, st)
        if short == "Duration::new":
            n = an.read_op(st, args[1])
            if n.iv is not None and n.iv[1] < 1_000_000_000:
                return "INTERVAL"
            return None
        return None

    # ------------------------------------------------------------------
    def _unwrap(self, site, an, st):
        """CONST-OK / WIDEN-OK / LEN-GUARD for unwrap-like sites: look at how
        the unwrapped Option/Result was produced."""
        t = site.term
        du = self.du(site.fn)
        d = du.def_of(t["args"][0])
        if d[0] != "call":
            return None
        c = d[1]
        path = c.get("path", "")
        cbb = d[2]
        cst = an.state_before_term(cbb)
        if cst is None:
            return None
        # infallible-by-types integer conversions
        m = re.match(r"core::convert::num::(?:ptr_try_from_impls::)?<impl core::convert::TryFrom<(\w+)> for (\w+)>::try_from$", path)
        if m:
            src, dst = PRIM.get(m.group(1)), PRIM.get(m.group(2))
            a = an.read_op(cst, c["args"][0])
            if a.iv is not None and dst is not None and fits(a.iv, dst):
                return "WIDEN-OK" if fits(src, dst) else ("CONST-OK" if a.iv[0] == a.iv[1] else "INTERVAL")
            return None
        if path in ("<T as core::convert::TryInto<U>>::try_into", "<T as core::convert::TryFrom<U>>::try_from"):
            ft = c.get("fn", "")
            m = re.match(r"<(\w+) as core::convert::TryInto<(\w+)>>::try_into$", ft)
            if m:
                dst = PRIM.get(m.group(2))
                a = an.read_op(cst, c["args"][0])
                if a.iv is not None and dst is not None and fits(a.iv, dst):
                    return "INTERVAL"
            return None
        # first()/last()/get(i) on a sequence known to be long enough
        if path in ("core::slice::<impl [T]>::first", "core::slice::<impl [T]>::last"):
            a = an.read_op(cst, c["args"][0])
            if a.sid is not None and cst.len_of(a.sid)[0] >= 1:
                return "LEN-GUARD"
            return None
        if path == "core::slice::<impl [T]>::get" and c["arg_tys"][1] == "usize":
            a = an.read_op(cst, c["args"][0]); ix = an.read_op(cst, c["args"][1])
            if a.sid is not None and ix.iv is not None and ix.iv[1] < cst.len_of(a.sid)[0]:
                return "LEN-GUARD"
            return None
        # checked arithmetic on intervals that cannot overflow
        m = re.match(r"core::num::<impl (\w+)>::checked_(add|sub|mul)$", path)
        if m:
            from .absint import iv_add, iv_sub, iv_mul
            r = PRIM[m.group(1)]
            a = an.read_op(cst, c["args"][0]); b = an.read_op(cst, c["args"][1])
            if a.iv is not None and b.iv is not None:
                f = {"add": iv_add, "sub": iv_sub, "mul": iv_mul}[m.group(2)]
                if fits(f(a.iv, b.iv), r):
                    return "INTERVAL"
            return None
        h = self.hooks.get("unwrap")
        if h is not None:
            return h(self, site, an, cst, c)
        return None
