#!/bin/bash
# neutral_regress.sh: apply every kept behaviour-preserving refactor (neutral/N*/patch.diff) to /repo in turn, run the checks
# listed in neutral/CHECKS.txt, undo.  Expected: no alarm, except the documented ratchet (rule E1 / O-* / PRECOND / CONTRACT on
# a site whose reviewed reason was keyed to the function the code was moved out of).
cd /verif
grep -v '^#' neutral/CHECKS.txt | while read n props; do
  out=$(tools/seed_check.sh /verif/neutral/$n/patch.diff $props 2>&1)
  if echo "$out" | grep -q "PATCH DOES NOT APPLY"; then echo "$n: PATCH DOES NOT APPLY"; continue; fi
  rules=$(echo "$out" | grep -oE "rule=[A-Z0-9-]+" | sort | uniq -c | tr '\n' ' ')
  echo "$n: ${rules:-silent}"
done
git -C /repo status --short | head -3
