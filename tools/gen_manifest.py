#!/usr/bin/env python3
"""Generate /verif/MANIFEST.json from the table below (only properties whose
check module exists under jv/props are claimed)."""
import json, os
V = "/verif"
CLAIMS = {
 "C01": ("FLOOR-A + CONST-AGREE + MONTH-TABLE + E5 (interval/dataflow and table rules over rustc MIR)",
         "Narrow structural clauses: no truncating division of possibly-negative epoch-relative values in shared::util::itime (interval analysis), duplicated range constants and the month table agree, the generated copy of the shared code is token-identical. Does NOT decide that the Neri-Schneider arithmetic is the Gregorian calendar.", "4/C01"),
 "C02": ("FLOOR-A + REQ-DEP + SPLIT + CONST-AGREE + DEP (must-depend table over a may-dependence analysis) + SIGN-PAIR (sign-case and path-restricted interval analysis) + PUBLIC-PRECOND + FLOOR-PRINT",
         "Flooring discipline of the instant<->civil split, the sign fix-up of IDateTime::to_timestamp depends on the offset, limit constants agree. Offset::to_datetime/to_timestamp depend on every field of the instant/datetime and on the offset; at every construction of an instant the (seconds, nanoseconds) pair is sign-consistent. Exported constructors test the ranges they rely on (PUBLIC-PRECOND); %s prints the floor of the instant. Does NOT decide exactness of the conversion.", "4/C02"),
 "C03": ("FLOOR-B + FLOOR-A + PARSE-ORDER + FIND-KEY + CONST-AGREE + E5 + DEP + IN-DST + HANDOVER (def-use, dominance, dependence and table rules over rustc MIR)",
         "Transition lookups key on floor/ceil of fractional instants, TZif parse steps are ordered and verified, constants and the two copies agree. Every instant->offset lookup (TZif and POSIX) depends on the sub-second part of the instant; DST membership of POSIX rules is decided by DstInfo::in_dst alone; the footer's rule is consulted only past the last recorded transition and its answer is compared with it. Does NOT decide agreement with tzdata.", "4/C03"),
 "C05": ("E1 panic reachability over the resolved call graph + interval/length abstract interpretation + CONTRACT/PRECOND/PUBLIC-PRECOND + call-site obligations for panicking operators and documented panics",
         "Every panic site reachable from a Result-returning public function is discharged by a sound local rule, a reviewed reason or a known finding; field/parameter contracts assumed by the interval analysis are checked at every store/call. Over-approximate (no path feasibility beyond the listed rules). Does NOT decide that Ok values are the right values.", "4/C05"),
 "C04": ("STRATEGY-TABLE + KIND-TABLE + LOOKUP-TABLE (decision tables from MIR path conditions) + HANDOVER (civil clause) + DEP + E1 + FLOOR-A",
         "The four disambiguation strategies and the gap/fold bookkeeping of the TZif and POSIX lookups are exactly the documented finite tables (extracted from the type-checked program with path conditions); no panic site is reachable from the civil->instant resolution without a discharge; wall-clock window arithmetic floors. The POSIX rule is consulted only after the Gap/Fold switch over the matched transition; lookups depend on every field of the civil datetime (DEP); a candidate offset reported by the footer's rule is accepted only after its instant was tested against the recorded transitions (HANDOVER). Does NOT decide agreement of the precomputed tables with each zone's data.", "4/C04"),
 "C06": ("PIPELINE + CIVIL-PIPELINE (symbolic provenance terms) + DEP (must-depend table over a field-sensitive inter-procedural may-dependence analysis)",
         "Zoned::checked_add/sub, start_of_day, end_of_day are exactly the documented composition of named steps (calendar part on the civil datetime, compatible resolution, time part on the instant, same zone; the start of a day is the first instant of the civil date, also when midnight is in a gap). Every return alternative of zoned/instant/civil addition depends on every unit of the span (resp. both fields of the duration) and on the zone; only_calendar/only_time keep each unit of their side. The calendar step clamps the day once against the combined target month (CIVIL-PIPELINE). Does NOT decide that each step computes the right value.", "4/C06"),
 "C07": ("E1 panic reachability from the difference APIs + TWIN + TZ-DEP + UNTIL-SEARCH (provenance terms and path conditions) + ERR-BOTH + DEP",
         "No panic site reachable from until/since/duration_* without a discharge; since is until with one negation, duration twins swap operands; every non-error return of the zoned difference depends on re-resolving an intermediate civil datetime in the zone. Difference kernels depend on both operands' fields and on the rounding options (DEP); when the order of the civil dates is not the order of the instants the zoned difference is the exact elapsed time, and no failure of the intermediate-datetime search is selected by the direction (UNTIL-SEARCH). Does NOT decide a + s == b, balance or sign consistency.", "4/C07"),
 "C08": ("PIPELINE + SATURATING-TABLE + CONTRACT/PRECOND + E2 ranged-integer value analysis (O-WRAPMOD etc.) + ERR-BOTH + DEP",
         "Date::checked_add_span is the documented order of checked steps; saturating variants clamp by the operand's sign; no wrap-then-modulo and no unchecked out-of-range ranged value in civil arithmetic (one recorded known finding: Time::wrapping_add_span). Civil additions depend on every unit of the span on every non-shortcut return (DEP); an error of a binary operation is decided by both operands, not by one alone (ERR-BOTH). Does NOT decide equality with wide-integer reference arithmetic.", "4/C08"),
 "C09": ("RESOLVE-CANDIDATE (provenance terms, one level of helper inlining) + ROUND-AGREE (printer/parser rounding table) + DEP (writer-parameter dependence of the default printers)",
         "Narrow structural conditions of the default print->parse round trip: an offset accepted through the parser's minute-rounding tolerance pins a fold to the zone's own matching candidate offset (so folds with sub-minute offsets return to the identical instant); printer and parser round offsets the same way; the printed text depends on every field of the value. Does NOT decide round-trip equality of values, RFC 3339/9557 conformance of the text or agreement with an independent reader.", "9.9"),
 "C10": ("INCREMENT-TABLE + ROUND-TABLE (truth-table enumeration over the CFG) + NONINTERFERENCE + PIPELINE + INCREMENT-VALIDATED + TRUNC-SPLIT + DEP + E2",
         "Increment tables equal the unit-constant ratios; the 9 rounding modes' increment conditions equal Temporal's table; the day carry does not depend on the year; zoned rounding pipelines are the documented composition; rounded results are range-checked. Tie atoms are recognised only in forms exact for odd increments; rounding results depend on value, smallest, mode and increment (DEP); every rounding entry point validates the increment against the next larger unit; a day's length in zoned rounding is start-of-day to start-of-next-day. Does NOT decide concrete neighbours beyond the tables.", "4/C10"),
 "C13": ("ZONED-CONSTRUCT + EQ-FIELDS + TZ-CHANGE (symbolic provenance terms over rustc MIR) + SIGN-PAIR + EQ-HASH",
         "A Zoned is only assembled from parts derived from (tz, ts) or the unambiguous civil lookup for the same dt; Eq/Ord/Hash read only the instant; zone changes keep the instant. Every instant has one representation (sign-consistent seconds/nanoseconds), which is what field-wise Eq/Ord/Hash need.", "4/C13"),
 "C14": ("FLOOR-B + ITER-FEEDBACK + FLOOR-A + DEP + IN-DST + HANDOVER + NOOP-SKIP (def-use, dominance and dependence rules over rustc MIR)",
         "preceding/following key on ceil/floor, adapters feed the yielded instant back. Transition walkers depend on the sub-second part of the instant; POSIX walkers label transitions through DstInfo::in_dst; the last recorded transition is yielded before the footer's rule takes over; entries that change nothing are skipped by comparing adjacent local time types. Does NOT decide completeness in general.", "4/C14"),
 "C17": ("E1 panic reachability from parser and lookup roots + VALIDATED-FIELD + NO-RECURSION",
         "No panic site is reachable from any parser entry point or from lookups on a parsed zone without a discharge; validated TZif fields feed the unchecked consumers; parser recursion depth is bounded by a constant. Every use of a panicking operator of jiff's own value types on a parser path is its own obligation. Does NOT decide termination or work proportional to input.", "4/C17"),
 "C18": ("E5 token-level drift check + FIND-KEY + PARSE-ORDER + FOLD-AGREE + SPECIAL-NAMES (sibling agreement, incl. the bundled back-end from configuration T3) + HANDOVER + NOOP-SKIP",
         "One parser, one copy: src/shared/** and crates/jiff-static/src/shared/** are token-identical modulo the generator's transformations. The name comparator folds case the same way as the sort key of the name list; all database back-ends special-case the same names, case-insensitively; the two places where slim and fat data differ structurally (hand-over to the footer's rule, no-op entries) are handled. Does NOT decide behavioural equivalence of back-ends in general.", "4/C18"),
 "C20": ("E6: tag-specialised abstract interpretation of Repr (TAG-TABLE, ALIGN, PAIRING, DISPATCH, CONSTRUCT, SEND-SYNC)",
         "The refcount/tag/alignment argument of the tagged pointer: per tag, construct=+1, clone=+1, drop=-1, getters=0 with matching pointee types on every feasible path. Clone and Drop strip the tag with the same !BITS mask as the getters. Does NOT decide races inside Arc or allocator behaviour.", "4/C20"),
 "C11": ("REL-GUARD + WINDOW + ROUNDED-OUTPUT + NO-OVERWRITE (provenance terms and path conditions) + WEEK-CARRY + FLOAT-EXACT + FLOAT-SIGN + FLOAT-DIV (float pitfalls, with a control crate for zero-instance rules) + E1 + E2",
         "Calendar units are refused without a reference datetime on every path of round/total/compare; the start and end of every rounding window are measured from the reference, not from each other; Span entry points cannot panic without a discharge; ranged values in span.rs stay in range. The sub-day part of a rounded span is directly a rounding result; float signum is never used as a three-valued sign and float tie tests use absolute values. A unit setter never replaces a unit that from_invariant_nanoseconds just computed; every float division has a divisor that cannot be zero; no 64/128-bit count becomes a float on a rounding path; whole weeks carried in the days position the week window. Does NOT decide that the rounded span is the mode-prescribed neighbour, nor totals or comparisons as values.", "4/C11"),
 "C12": ("SETTER-TABLE + SIGN-WRITERS + SIGN-GUARD + SIGN-PAIR + LONE-ABS + TRUNC-SPLIT + EQ-HASH + ERR-BOTH + DEP + CONTRACT/PRECOND + E1 + E2",
         "Each Span unit setter goes through the checked constructor of that unit's own ranged type; the sign field has a fixed reviewed set of writers; every SignedDuration/Duration conversion returns Ok only under a whole-value sign check; no panic site reachable from the fallible SignedDuration API without a discharge. (seconds, nanoseconds) pairs are sign-consistent at every construction (patterns, sign-case and path-restricted intervals); no component-wise abs without reading the whole sign; SignedDuration/Span operations depend on every field (DEP); Hash feeds only fields that Eq compares; errors of binary operations are decided by both operands. Does NOT decide equality with 128-bit reference arithmetic.", "4/C12"),
 "C15": ("LABEL-TABLE + NO-DROP + WHOLE-SIGN + COMMA-WS + DEP (writer-parameter dependence) + LONE-ABS + E1",
         "Every designator label the friendly printer can emit maps back, in the parser's table, to the same unit; the printers consume every unit of the span/duration (no unit is dropped); no panic site reachable from the duration parsers/printers without a discharge. The text written by every duration printer depends on every unit (resp. seconds and nanoseconds); no component-wise abs without the whole sign. The printed sign is the sign of the whole value; whatever follows a comma starts with whitespace. Does NOT decide round-trip equality of values.", "4/C15"),
 "C16": ("SPECIFIER-SET + NAME-TABLE + CHECKED-FIELD + SIGN-SOURCE + FLOOR-PRINT + DEP (dispatch tables, provenance terms and dependence from MIR) + E1",
         "The formatter and parser dispatch on agreeing specifier sets; month/weekday name tables of printer and parser agree (one recorded known finding: the parser's 'Tueday'); a parsed weekday is compared against the date on every success path; the printed offset sign is derived from the offset; the text of every hour/meridiem directive depends on the meridiem, %s prints the floor; strtime/RFC 2822 parsers cannot panic without a discharge. Does NOT decide that each specifier prints the C-library value.", "4/C16"),
 "C19": ("LOCK-ORDER + FRESH-GUARD + LOCK-SCOPE + RECHECK + NO-UNSAFE + FOLD-AGREE + SPECIAL-NAMES (lock acquisition order, guard liveness and dominance over MIR)",
         "Lock discipline of the zoneinfo/concatenated/bundled databases: locks are acquired in one global order and never nested re-entrantly, a cached entry is returned only under the TTL/metadata freshness guard, write locks are held across check-and-insert, the modules contain no unsafe. After a miss under the read lock every answer is preceded by a fresh search under the write lock; the name comparator agrees with the sort key. Does NOT decide history independence or linearizability of lookups as values.", "4/C19"),
}
NA = {
}
checks = []
for pid in sorted(CLAIMS):
    if not os.path.exists(os.path.join(V, "jv/props", pid.lower() + ".py")):
        continue
    tech, text, ref = CLAIMS[pid]
    checks.append({
        "property_id": pid,
        "quick_cmd": "./check %s --tier quick" % pid,
        "thorough_cmd": "./check %s --tier thorough" % pid,
        "evidence_file": "/verif/evidence/%s.json" % pid,
        "replay_cmd_template": "./check %s --replay {path}" % pid,
        "engine": "jv",
        "level_claimed": {"category": "other", "text": text, "design_ref": "DESIGN.md section " + ref},
        "level_note": "Trusted base: rustc type checking/MIR construction/const-eval, the jv-driver fact extractor, the Python rule packs, the std panic table, reviewed/*.tsv (human-judged residue, one reason per site) and jv/contracts.py. Static analysis only: no jiff code is executed.",
        "technique": tech,
    })
claimed = {c["property_id"] for c in checks}
props = [json.loads(l)["id"] for l in open(os.path.join(V, "properties.jsonl"))]
na = [{"property_id": p, "reason": NA.get(p, "check not built yet in this revision (planned, see DESIGN.md section 4)")} for p in props if p not in claimed]
m = {
 "version": 1,
 "setup_cmd": "cd /verif/driver && CARGO_NET_OFFLINE=true cargo +nightly build --offline --release",
 "hooks": {"guard": "jiff_verif", "enable": "none needed: static analysis reads the unmodified tree; the guard name is reserved only",
           "baseline_off_cmd": "cd /repo && cargo test --workspace --no-fail-fast --offline --lib --bins --tests",
           "source_commits": [], "add_only": True},
 "engines": [{"name": "jv", "path": "/verif/jv", "serves_properties": sorted(claimed),
              "kind_free_text": "rustc_private MIR fact extractor (driver/) + Python static-analysis rule packs: call-graph panic reachability, interval/length abstract interpretation, symbolic provenance terms, table/constant agreement, token-level copy drift"}],
 "checks": checks,
 "notes": "All checks are static analyses of /repo's working tree (facts re-extracted by cargo +nightly check under the jv-driver wrapper on every run, fresh target dir). Exit 2 = the tree does not compile.",
 "not_applicable": na,
}
json.dump(m, open(os.path.join(V, "MANIFEST.json"), "w"), indent=1)
print("claimed", sorted(claimed), "n/a", len(na))
