#!/bin/bash
# run every claimed check at the given tier, one summary line each
tier=${1:-quick}
cd /verif
for id in $(python3 -c "import json;print(' '.join(c['property_id'] for c in json.load(open('MANIFEST.json'))['checks']))"); do
  out=$(./check $id --tier $tier 2>&1); rc=$?
  echo "rc=$rc $(echo "$out" | grep -m1 "^\[$id")"
  echo "$out" | grep -E "^(VIOLATION|KNOWN-FINDING)" | cut -c1-220 | head -5
done
