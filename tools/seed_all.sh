#!/bin/bash
# seed_all.sh <patch.diff>: apply a seeded change to /repo, run ALL twenty quick checks (facts cached per tree hash), undo.
P="$1"
cd ${JV_REPO:=/repo} || exit 2; export JV_REPO
git diff --quiet && git diff --cached --quiet || { echo "repo dirty"; exit 2; }
restore() { git reset -q HEAD -- . 2>/dev/null; git checkout -q -- . 2>/dev/null; }
git apply --check "$P" 2>/dev/null && git apply "$P" || { echo "PATCH DOES NOT APPLY: $P"; restore; exit 3; }
ids=$(python3 -c "import json;print(' '.join(c['property_id'] for c in json.load(open('/verif/MANIFEST.json'))['checks']))")
JV_CACHE=1 /verif/check C19 >/dev/null 2>&1   # warm the fact cache once (C19 also extracts T3)
for c in $ids; do
  ( out=$(JV_CACHE=1 /verif/check "$c" 2>&1); echo "$out" | grep -q "^\[$c" || { echo "$c: NO VERDICT"; echo "$out" | tail -3; }; echo "$out" | grep -m1 "^\[$c" | sed -E 's/obligations.*violations=/violations=/' ; echo "$out" | grep -A2 "^VIOLATION" | grep -v "^--" | head -6 | cut -c1-300 ) > /tmp/seedall.${JV_TAG:-x}.$c.out 2>&1 &
done
wait
for c in $ids; do cat /tmp/seedall.${JV_TAG:-x}.$c.out; rm -f /tmp/seedall.${JV_TAG:-x}.$c.out; done
restore; git status --short | head -3
