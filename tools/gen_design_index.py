#!/usr/bin/env python3
"""Rewrite the third column ("rules as built") of the index table in DESIGN.md section 0 from evidence/*.json (per_rule)."""
import json, re
d = open('/verif/DESIGN.md').read()
a = d.index("## 0. Index")
b = d.index("## 1. Why static analysis")
sec = d[a:b]
out = []
for line in sec.split("\n"):
    m = re.match(r"^\| (C\d\d) \| ([^|]*) \| ([^|]*) \| (.*) \|$", line)
    if m:
        pid = m.group(1)
        try:
            ev = json.load(open('/verif/evidence/%s.json' % pid))
            rules = [r for r in ev['coverage']['per_rule'] if r not in ("FLOOR", "ANCHOR")]
            o = [r for r in rules if r.startswith("O-")]
            rules = [r for r in rules if not r.startswith("O-")]
            if o:
                rules.append("E2 (" + ", ".join(sorted(o)) + ")")
            line = "| %s | %s | %s | %s |" % (pid, m.group(2).strip(), ", ".join(rules), m.group(4).strip())
        except Exception as e:
            print("skip", pid, e)
    out.append(line)
d = d[:a] + "\n".join(out) + d[b:]
open('/verif/DESIGN.md', 'w').write(d)
print("index updated")
