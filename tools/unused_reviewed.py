#!/usr/bin/env python3
"""List reviewed/*.tsv entries that no check relied on during a full thorough run.
Usage: JV_USED_OUT=/tmp/used.txt tools/run_all.sh thorough ; tools/unused_reviewed.py /tmp/used.txt"""
import sys, glob
used = set(l.rstrip("\n") for l in open(sys.argv[1]))
n = 0
for f in sorted(glob.glob('/verif/reviewed/*.tsv')):
    for line in open(f):
        if not line.strip() or line.startswith('#'):
            continue
        k = line.split('\t', 1)[0]
        if k not in used:
            n += 1
            print("%s\t%s" % (f.split('/')[-1], k))
print("unused:", n, file=sys.stderr)
