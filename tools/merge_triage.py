#!/usr/bin/env python3
"""Merge triage verdict files (/tmp/triage/*.tsv: key, verdict, reason) into
reviewed/panics.tsv. Only SAFE / NOT-FALLIBLE-PATH verdicts become reviewed
entries; BUG/UNSURE/KNOWN stay undischarged (fix or known finding)."""
import glob, os, sys
out = {}
path = "/verif/reviewed/panics.tsv"
if os.path.exists(path):
    for l in open(path):
        if l.strip() and not l.startswith("#"):
            k, r = l.rstrip("\n").split("\t", 1)
            out[k] = r
n = 0
for f in sorted(glob.glob("/tmp/triage/g*.tsv")):
    for l in open(f):
        parts = l.rstrip("\n").split("\t")
        if len(parts) < 3:
            continue
        k, v, r = parts[0], parts[1], " ".join(parts[2:]).strip()
        if v in ("SAFE", "NOT-FALLIBLE-PATH") and r:
            if k not in out:
                n += 1
            out[k] = ("[%s] " % v if v != "SAFE" else "") + r
with open(path, "w") as fh:
    fh.write("# E1 residue: panic sites no automatic rule discharges, read and judged unreachable.\n"
             "# key<TAB>reason (the invariant and where it is established). Part of the trusted base.\n")
    for k in sorted(out):
        fh.write("%s\t%s\n" % (k, out[k]))
print("added", n, "total", len(out))
