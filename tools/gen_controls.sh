#!/bin/bash
# Regenerates fixtures/controls.jsonl: the facts jv-driver extracts from the control crate.
set -e
V=/verif
OUT=$(mktemp -d); TGT=$(mktemp -d)
cd $V/fixtures/controls
JV_CRATES=controls JV_OUT=$OUT LD_LIBRARY_PATH=$(rustc +nightly --print sysroot)/lib RUSTFLAGS="-Zmir-opt-level=0 -Awarnings" \
  RUSTC_WORKSPACE_WRAPPER=$V/driver/target/release/jv-driver CARGO_NET_OFFLINE=true CARGO_TARGET_DIR=$TGT \
  cargo +nightly check --offline --lib
cat $OUT/*.jsonl > $V/fixtures/controls.jsonl
rm -rf $OUT $TGT $V/fixtures/controls/Cargo.lock
wc -l $V/fixtures/controls.jsonl
