#!/bin/bash
# validate_seed.sh <seed-name e.g. C05-a>: confirm in the seed's scratch worktree that
#  (1) the patch applies to the pinned tree, (2) the pinned suite passes with it,
#  (3) the demo fails with it and (4) passes without it. Writes /tmp/seed/<name>/VALIDATION.txt
set -u
N="$1"; WT=/tmp/seed/$N; OUT=$WT/OUT; LOG=$WT/VALIDATION.txt
cd "$WT" || exit 2
export CARGO_NET_OFFLINE=true
git checkout -q -- . 2>/dev/null; git clean -fdq -e OUT -e VALIDATION.txt -e target 2>/dev/null
{
echo "seed $N validated $(date -u +%FT%TZ) at $(git rev-parse --short HEAD)"
git apply --check "$OUT/patch.diff" && echo "patch: applies to pinned tree" || { echo "patch: DOES NOT APPLY"; exit 1; }
git apply "$OUT/patch.diff"
echo "== suite with change"
cargo test --workspace --offline --lib --bins --tests 2>&1 | grep -E "^test result|FAILED|failed" | head -20
cp "$OUT/demo.rs" tests/demo_seed.rs
printf '\n[[test]]\npath = "tests/demo_seed.rs"\nname = "demo_seed"\n' >> Cargo.toml
echo "== demo with change (expected: FAIL)"
cargo test --offline --test demo_seed 2>&1 | grep -E "^test |^test result|panicked" | head -30
git apply -R "$OUT/patch.diff"
echo "== demo without change (expected: pass)"
cargo test --offline --test demo_seed 2>&1 | grep -E "^test |^test result|panicked" | head -30
} > "$LOG" 2>&1
git checkout -q -- . ; rm -f tests/demo_seed.rs; git apply "$OUT/patch.diff"
rm -rf "$WT/target"
tail -3 "$LOG"
