import time,sys
from jv import facts, e1, e1_auto, e2
from collections import Counter
p=facts.load('Q'); E=e1.E1(p); A=e1_auto.Auto(p); A.infer_params(E.cg)
c=Counter(); bad=[]
for f in p.fns.values():
    if f.crate!='jiff' or f.file=='src/util/rangeint.rs': continue
    an,obl=e2.analyse(f,A)
    for (kind,bi,ok,detail,ln) in obl:
        c[(kind,ok)]+=1
        if not ok: bad.append((f.file,ln,kind,f.path[-60:],detail))
for k,v in sorted(c.items(),key=str): print(v,k)
bad.sort()
open('/tmp/e2_bad.txt','w').write('\n'.join('%s:%s [%s] %s || %s'%b for b in bad))
