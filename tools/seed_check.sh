#!/bin/bash
# seed_check.sh <patch.diff> <prop> [<prop>...]: apply a seeded change to /repo, run the checks, undo.
P="$1"; shift
cd /repo || exit 2
git diff --quiet && git diff --cached --quiet || { echo "repo dirty"; exit 2; }
restore() { git reset -q HEAD -- . 2>/dev/null; git checkout -q -- . 2>/dev/null; }
if git apply --check "$P" 2>/dev/null; then
  git apply "$P"
elif git apply --3way "$P" 2>/dev/null && ! git diff --name-only --diff-filter=U | grep -q .; then
  git reset -q
else
  echo "PATCH DOES NOT APPLY: $P"; restore; exit 3
fi
for c in "$@"; do
  out=$(/verif/check "$c" 2>&1)
  echo "$out" | head -1
  echo "$out" | grep -A3 "^VIOLATION" | grep -v "^--" | head -8 | cut -c1-260
done
restore; git status --short | head -3
