#!/bin/bash
# seed_check.sh <patch.diff> <prop> [<prop>...]: apply a seeded change to /repo, run the checks, undo.
P="$1"; shift
cd /repo || exit 2
git diff --quiet || { echo "repo dirty"; exit 2; }
if ! git apply --check "$P" 2>/dev/null; then
  if ! git apply --3way "$P" 2>/dev/null; then echo "PATCH DOES NOT APPLY: $P"; git checkout -q -- . ; exit 3; fi
  git reset -q
else
  git apply "$P"
fi
for c in "$@"; do
  out=$(/verif/check "$c" 2>&1)
  echo "$out" | head -1
  echo "$out" | grep -A3 "^VIOLATION" | grep -v "^--" | head -8 | cut -c1-260
done
git checkout -q -- . ; git status --short | head -3
