#!/usr/bin/env python3
"""Rewrite the rule list of DESIGN.md section 9.2 (between the RULES markers) from the clause texts that the
rule packs wrote into evidence/*.json on their last run."""
import json, glob, re, textwrap
seen = {}
for f in sorted(glob.glob('/verif/evidence/*.json')):
    d = json.load(open(f))
    e = d['coverage']['explanation'].split('Rules and the clause each decides: ')[1].split(' Notes:')[0]
    for p in re.split(r'; (?=[A-Z][A-Z0-9-]+(?:\([^)]*\))?: )', e):
        n, _, t = p.partition(': ')
        seen.setdefault(n, ([], t))[0].append(f.split('/')[-1][:3])
out = []
for n, (pids, t) in seen.items():
    if n == 'E2-BAILED':
        continue
    out.append("\n".join(textwrap.wrap("* `%s` (%s): %s" % (n, ", ".join(pids), t), 78, subsequent_indent="  ")))
d = open('/verif/DESIGN.md').read()
a, b = d.index("<!-- RULES:BEGIN -->"), d.index("<!-- RULES:END -->")
d = d[:a] + "<!-- RULES:BEGIN -->\n" + "\n".join(out) + "\n" + d[b:]
open('/verif/DESIGN.md', 'w').write(d)
print(len(out), "rules")
