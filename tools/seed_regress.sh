#!/bin/bash
# seed_regress.sh: apply every kept seed to /repo in turn, run the checks named in its meta.json, undo; one line per seed.
cd /verif
for d in ${SEEDS:-seeded/*/}; do
  n=$(basename $d)
  props=$(python3 - "$d" <<'PY'
import json,sys,re
m=json.load(open(sys.argv[1]+"meta.json"))
cb=m.get("caught_by","")
ps=[m["property"]]+re.findall(r"\bC\d\d\b", cb.split(" - ")[0])
seen=[]
for p in ps:
    if p not in seen: seen.append(p)
print(" ".join(seen[:3]))
PY
)
  out=$(tools/seed_check.sh /verif/${d}patch.diff $props 2>&1)
  if echo "$out" | grep -q "PATCH DOES NOT APPLY"; then echo "$n: PATCH DOES NOT APPLY"; continue; fi
  v=$(echo "$out" | grep -E "^\[" | sed -E 's/^\[(C[0-9]+)\/quick\].*violations=([0-9]+).*/\1=\2/' | tr '\n' ' ')
  rules=$(echo "$out" | grep -oE "rule=[A-Z0-9-]+" | sort -u | tr '\n' ' ')
  echo "$n: $v $rules"
done
git -C /repo status --short | head -3
