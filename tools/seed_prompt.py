#!/usr/bin/env python3
"""Print the prompt given to an independent seeding sub-agent for one property.
Only the property text and a scratch worktree path are given; nothing from /verif."""
import json, sys
pid, tag = sys.argv[1], sys.argv[2]
hint = sys.argv[3] if len(sys.argv) > 3 else ""
for l in open('/verif/properties.jsonl'):
    p = json.loads(l)
    if p['id'] == pid:
        break
wt = f"/tmp/seed/{pid}-{tag}"
print(f"""You are helping test a verification effort for the Rust date-time library jiff (BurntSushi/jiff), checked out at /repo (pinned commit). Your job: produce ONE realistic, subtle code change to jiff that BREAKS the property below while the crate still compiles and the existing test suite still passes, plus a demonstration that fails with your change and passes without it.

PROPERTY {p['id']}: {p['title']}
Statement: {p['statement']}
Quantified over: {p['quantifier']['text']}

Rules:
1. Work ONLY in your own scratch git worktree. Create it with:
     mkdir -p /tmp/seed && git -C /repo worktree add --detach {wt} HEAD
   Never edit anything under /repo itself or under /verif, and do not read /verif at all.
   Use a cargo target dir inside your worktree (the default ./target is fine). Build offline: always pass --offline to cargo (there is no network).
2. The change must be to jiff's non-test source (src/** or crates/**), small (a few lines, at most ~30), and look like a plausible human mistake or "optimisation"/refactor: e.g. a dropped or weakened check, an off-by-one at a boundary, a wrong rounding direction, a swapped field, an unchecked conversion replacing a checked one, a missing case. It must NOT be exposed by ordinary use: it should need something specific to manifest - an unusual or extreme input, a multi-step sequence of operations, a particular time zone / transition, two cooperating sites that each look fine alone, a particular interleaving, etc. {hint}
3. With your change applied, the existing test suite must still pass. Verify with (takes a few minutes):
     cd {wt} && cargo test --workspace --offline --lib --bins --tests 2>&1 | tail -30
   (642 tests; doc-tests are not part of the pinned suite, but prefer a change that does not break doc-tests either.) If tests fail, pick a different change.
4. Write a demonstration: a Rust integration-style test file or small program using only jiff's public API that FAILS (assertion failure or panic) with your change and PASSES on the unmodified code. Simplest form: a file `demo.rs` containing `#[test]` functions that you run by temporarily copying it to {wt}/tests/demo_seed.rs and adding a `[[test]]` entry, or as an example under {wt}/examples/. Actually run it both ways (with the change, and with the change stashed via `git stash` / `git diff > patch; git checkout -- src crates`) and record the outputs.
5. Deliverables, in the directory {wt}/OUT/ :
     - patch.diff : output of `git diff -- src crates` (ONLY the change to jiff source, not the demo, not Cargo.toml edits for the demo)
     - demo.rs    : the demonstration source
     - README.md  : which clause of the property breaks, what specific input/sequence is needed to manifest it, the exact commands you ran for the test suite and the demo, and their (abridged) outputs with and without the change.
6. When done, delete build output to save disk: rm -rf {wt}/target . Leave the worktree and OUT/ in place. Do not commit anything anywhere.

Report back in a few lines: the change, the file/function touched, how it manifests, and confirm the suite passed and the demo fails/passes as required.""")
