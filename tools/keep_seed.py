#!/usr/bin/env python3
"""keep_seed.py <name> <property> <caught_by> <needs>: copy a validated seeded change into /verif/seeded/<name>/"""
import json, os, shutil, sys, re
name, prop, caught, needs = sys.argv[1:5]
src = "/tmp/seed/%s" % name
dst = "/verif/seeded/%s" % name
os.makedirs(dst, exist_ok=True)
for f in ("patch.diff", "demo.rs", "README.md"):
    shutil.copy(os.path.join(src, "OUT", f), os.path.join(dst, f))
val = open(os.path.join(src, "VALIDATION.txt")).read()
shutil.copy(os.path.join(src, "VALIDATION.txt"), os.path.join(dst, "VALIDATION.txt"))
res = re.findall(r"^test result: (\w+)\. (\d+) passed; (\d+) failed", val, re.M)
meta = {
    "property": prop,
    "breaks": open(os.path.join(src, "OUT", "README.md")).read().split("\n\n")[0][:600],
    "needs_to_manifest": needs,
    "what_i_ran": [
        "tools/validate_seed.sh %s (in the seed's scratch worktree at the pinned commit): patch applies; "
        "`cargo test --workspace --offline --lib --bins --tests` with the change; demo as tests/demo_seed.rs with and without the change" % name,
        "tools/seed_check.sh seeded/%s/patch.diff %s (git apply to /repo, run the check, git checkout -- .)" % (name, prop),
    ],
    "validation": {"suite_with_change": res[:6], "demo_with_change": res[6:7], "demo_without_change": res[7:8]},
    "caught_by": caught,
}
json.dump(meta, open(os.path.join(dst, "meta.json"), "w"), indent=1)
print(name, meta["validation"]["demo_with_change"], meta["validation"]["demo_without_change"])
