// Minimal JSON value + writer (the driver has no external dependencies).
pub enum J {
    Null,
    Bool(bool),
    Int(i128),
    Str(String),
    Arr(Vec<J>),
    Obj(Vec<(String, J)>),
}

impl J {
    pub fn obj() -> J {
        J::Obj(Vec::new())
    }
    pub fn arr(v: Vec<J>) -> J {
        J::Arr(v)
    }
    pub fn str(s: &str) -> J {
        J::Str(s.to_string())
    }
    pub fn int(i: i128) -> J {
        J::Int(i)
    }
    pub fn bool(b: bool) -> J {
        J::Bool(b)
    }
    pub fn set(&mut self, k: &str, v: J) {
        if let J::Obj(items) = self {
            items.push((k.to_string(), v));
        }
    }
    pub fn write(&self, out: &mut String) {
        match self {
            J::Null => out.push_str("null"),
            J::Bool(b) => out.push_str(if *b { "true" } else { "false" }),
            J::Int(i) => {
                // Python's json reads arbitrary-size integers.
                out.push_str(&i.to_string());
            }
            J::Str(s) => write_str(s, out),
            J::Arr(v) => {
                out.push('[');
                for (i, x) in v.iter().enumerate() {
                    if i > 0 {
                        out.push(',');
                    }
                    x.write(out);
                }
                out.push(']');
            }
            J::Obj(items) => {
                out.push('{');
                for (i, (k, v)) in items.iter().enumerate() {
                    if i > 0 {
                        out.push(',');
                    }
                    write_str(k, out);
                    out.push(':');
                    v.write(out);
                }
                out.push('}');
            }
        }
    }
}

fn write_str(s: &str, out: &mut String) {
    out.push('"');
    for c in s.chars() {
        match c {
            '"' => out.push_str("\\\""),
            '\\' => out.push_str("\\\\"),
            '\n' => out.push_str("\\n"),
            '\r' => out.push_str("\\r"),
            '\t' => out.push_str("\\t"),
            c if (c as u32) < 0x20 => {
                out.push_str(&format!("\\u{:04x}", c as u32));
            }
            c => out.push(c),
        }
    }
    out.push('"');
}
