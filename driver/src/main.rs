// jv-driver: rustc_private fact extractor for the jiff static verification
// framework. Injected with RUSTC_WORKSPACE_WRAPPER; for every workspace crate it
// writes one JSON-lines fact file `$JV_OUT/<crate>.<kind>.jsonl` holding
// function metadata, simplified MIR (mir-opt-level=0), ADT layouts/reprs,
// evaluated constants and a few trait facts. No jiff code is executed; the
// only evaluation is rustc's own const-eval of constant items.
#![feature(rustc_private)]
#![allow(rustc::usage_of_ty_tykind)]

extern crate rustc_abi;
extern crate rustc_driver;
extern crate rustc_hir;
extern crate rustc_interface;
extern crate rustc_middle;
extern crate rustc_span;

mod json;

use std::fmt::Write as _;

use json::J;
use rustc_driver::Compilation;
use rustc_hir::def::DefKind;
use rustc_hir::def_id::{DefId, LocalDefId, LOCAL_CRATE};
use rustc_middle::mir::{
    self, AggregateKind, BinOp, Body, Const, ConstValue, Operand, Place,
    ProjectionElem, Rvalue, StatementKind, TerminatorKind,
};
use rustc_middle::ty::print::with_no_trimmed_paths;
use rustc_middle::ty::{self, Ty, TyCtxt, TypeVisitableExt, TypingEnv};
use rustc_span::Span;

struct Cb;

impl rustc_driver::Callbacks for Cb {
    fn after_analysis<'tcx>(
        &mut self,
        _c: &rustc_interface::interface::Compiler,
        tcx: TyCtxt<'tcx>,
    ) -> Compilation {
        let out_dir = match std::env::var("JV_OUT") {
            Ok(d) => d,
            Err(_) => return Compilation::Continue,
        };
        let krate = tcx.crate_name(LOCAL_CRATE).to_string();
        let wanted = std::env::var("JV_CRATES")
            .unwrap_or_else(|_| "jiff,jiff_static,jiff_tzdb,jiff_tzdb_platform".to_string());
        if !wanted.split(',').any(|w| w == krate) {
            return Compilation::Continue;
        }
        let mut out = String::with_capacity(64 << 20);
        with_no_trimmed_paths!(dump_crate(tcx, &krate, &mut out));
        let kind = format!("{:?}", tcx.crate_types()).replace(|c: char| !c.is_alphanumeric(), "");
        let is_test = tcx.sess.opts.test;
        let path = format!(
            "{}/{}.{}{}.jsonl",
            out_dir,
            krate,
            kind,
            if is_test { ".test" } else { "" }
        );
        // one write per process (parallel crates must not interleave)
        std::fs::write(&path, out).expect("write facts");
        Compilation::Continue
    }
}

fn main() {
    let mut args: Vec<String> = std::env::args().collect();
    // RUSTC_WORKSPACE_WRAPPER: argv[1] is the path of the real rustc.
    if args.len() > 1 && (args[1].ends_with("rustc") || args[1].contains("/rustc")) {
        args.remove(1);
    }
    rustc_driver::run_compiler(&args, &mut Cb);
}

fn loc(tcx: TyCtxt<'_>, sp: Span) -> (String, usize) {
    let sm = tcx.sess.source_map();
    let p = sm.lookup_char_pos(sp.lo());
    let name = match &p.file.name {
        rustc_span::FileName::Real(r) => match r.local_path() {
            Some(p) => p.to_string_lossy().to_string(),
            None => format!("{:?}", r),
        },
        other => format!("{:?}", other),
    };
    (name, p.line)
}

fn span_json(tcx: TyCtxt<'_>, sp: Span) -> J {
    // location of the outermost call site (user-written code) and the macro
    // backtrace, innermost first.
    let root = sp.source_callsite();
    let (file, line) = loc(tcx, root);
    let mut j = J::obj();
    j.set("file", J::str(&file));
    j.set("line", J::int(line as i128));
    if sp.from_expansion() {
        let mut macros = vec![];
        for ex in sp.macro_backtrace() {
            macros.push(J::str(&format!("{}", ex.kind.descr())));
        }
        j.set("macros", J::arr(macros));
        let (ifile, iline) = loc(tcx, sp);
        j.set("inner", J::str(&format!("{}:{}", ifile, iline)));
    }
    j
}

fn dump_crate<'tcx>(tcx: TyCtxt<'tcx>, krate: &str, out: &mut String) {
    let mut header = J::obj();
    header.set("k", J::str("crate"));
    header.set("name", J::str(krate));
    header.set("debug_assertions", J::bool(tcx.sess.opts.debug_assertions));
    header.set("overflow_checks", J::bool(tcx.sess.overflow_checks()));
    header.set("test", J::bool(tcx.sess.opts.test));
    let cfgs: Vec<J> = {
        let mut v: Vec<String> = tcx
            .sess
            .config
            .iter()
            .filter_map(|(k, v)| {
                if k.as_str() == "feature" {
                    v.map(|v| v.to_string())
                } else {
                    None
                }
            })
            .collect();
        v.sort();
        v.iter().map(|s: &String| J::str(s.as_str())).collect()
    };
    header.set("features", J::arr(cfgs));
    header.write(out);
    out.push('\n');

    let ev = tcx.effective_visibilities(());

    // ---- functions with MIR
    for &ldid in tcx.mir_keys(()).iter() {
        let did = ldid.to_def_id();
        let kind = tcx.def_kind(did);
        match kind {
            DefKind::Fn | DefKind::AssocFn | DefKind::Closure => {}
            _ => continue,
        }
        let j = dump_fn(tcx, ldid, kind, ev);
        j.write(out);
        out.push('\n');
    }

    // ---- ADTs, consts, statics, impls
    for id in tcx.hir_crate_items(()).definitions() {
        let did = id.to_def_id();
        match tcx.def_kind(did) {
            DefKind::Struct | DefKind::Enum | DefKind::Union => {
                dump_adt(tcx, did).write(out);
                out.push('\n');
            }
            DefKind::Const { .. } | DefKind::AssocConst { .. } | DefKind::Static { .. } => {
                if let Some(j) = dump_const(tcx, id) {
                    j.write(out);
                    out.push('\n');
                }
            }
            DefKind::TyAlias => {
                let mut j = J::obj();
                j.set("k", J::str("alias"));
                j.set("path", J::str(&tcx.def_path_str(did)));
                if !tcx.generics_of(did).requires_monomorphization(tcx) {
                    let t = tcx.type_of(did).instantiate_identity().skip_norm_wip();
                    let env = TypingEnv::fully_monomorphized();
                    let t = tcx.try_normalize_erasing_regions(env, ty::Unnormalized::new_wip(t)).unwrap_or(t);
                    j.set("ty", J::str(&t.to_string()));
                }
                j.set("span", span_json(tcx, tcx.def_span(did)));
                j.write(out);
                out.push('\n');
            }
            DefKind::Impl { .. } => {
                let mut j = J::obj();
                j.set("k", J::str("impl"));
                j.set("path", J::str(&tcx.def_path_str(did)));
                let self_ty = tcx.type_of(did).instantiate_identity().skip_norm_wip();
                j.set("self_ty", J::str(&self_ty.to_string()));
                if let Some(tr) = tcx.impl_opt_trait_ref(did) {
                    let tr = tr.instantiate_identity().skip_norm_wip();
                    j.set("trait", J::str(&tcx.def_path_str(tr.def_id)));
                    j.set("trait_ref", J::str(&tr.to_string()));
                }
                j.set("span", span_json(tcx, tcx.def_span(did)));
                j.write(out);
                out.push('\n');
            }
            _ => {}
        }
    }
}

fn vis_str(tcx: TyCtxt<'_>, did: DefId) -> String {
    match tcx.visibility(did) {
        ty::Visibility::Public => "pub".to_string(),
        ty::Visibility::Restricted(m) => {
            if m.is_crate_root() {
                "crate".to_string()
            } else {
                format!("in {}", tcx.def_path_str(m))
            }
        }
    }
}

fn dump_fn<'tcx>(
    tcx: TyCtxt<'tcx>,
    ldid: LocalDefId,
    kind: DefKind,
    ev: &rustc_middle::middle::privacy::EffectiveVisibilities,
) -> J {
    let did = ldid.to_def_id();
    let mut j = J::obj();
    j.set("k", J::str("fn"));
    j.set("path", J::str(&tcx.def_path_str(did)));
    j.set("kind", J::str(&format!("{:?}", kind)));
    j.set("span", span_json(tcx, tcx.def_span(did)));
    let is_closure = matches!(kind, DefKind::Closure);
    if !is_closure {
        j.set("vis", J::str(&vis_str(tcx, did)));
        j.set("reachable", J::bool(ev.is_reachable(ldid)));
        j.set("exported", J::bool(ev.is_exported(ldid)));
        let sig = tcx.fn_sig(did).instantiate_identity().skip_norm_wip().skip_binder();
        j.set("ret", J::str(&sig.output().to_string()));
        j.set(
            "params",
            J::arr(sig.inputs().iter().map(|t| J::str(&t.to_string())).collect()),
        );
        j.set("unsafe", J::bool(sig.safety().is_unsafe()));
        let parent_hidden = tcx
            .opt_parent(did)
            .map(|p| matches!(tcx.def_kind(p), DefKind::Impl { .. }) && tcx.is_doc_hidden(p))
            .unwrap_or(false);
        j.set("doc_hidden", J::bool(tcx.is_doc_hidden(did) || parent_hidden));
        j.set("const", J::bool(tcx.is_const_fn(did)));
        // the associated item's container
        if let Some(ai) = tcx.opt_associated_item(did) {
            let parent = tcx.parent(did);
            match tcx.def_kind(parent) {
                DefKind::Impl { .. } => {
                    j.set("impl", J::str(&tcx.def_path_str(parent)));
                    let self_ty = tcx.type_of(parent).instantiate_identity().skip_norm_wip();
                    j.set("self_ty", J::str(&self_ty.to_string()));
                    if let Some(tr) = tcx.impl_opt_trait_ref(parent) {
                        let tr = tr.instantiate_identity().skip_norm_wip();
                        j.set("trait", J::str(&tcx.def_path_str(tr.def_id)));
                        j.set("trait_ref", J::str(&tr.to_string()));
                    }
                    if let Some(ti) = ai.trait_item_def_id() {
                        j.set("trait_item", J::str(&tcx.def_path_str(ti)));
                    }
                }
                DefKind::Trait => {
                    j.set("in_trait", J::str(&tcx.def_path_str(parent)));
                }
                _ => {}
            }
            j.set("name", J::str(ai.name().as_str()));
        } else {
            j.set("name", J::str(tcx.item_name(did).as_str()));
        }
    } else {
        j.set("parent", J::str(&tcx.def_path_str(tcx.typeck_root_def_id(did))));
        j.set("direct_parent", J::str(&tcx.def_path_str(tcx.parent(did))));
    }
    j.set("generic", J::bool(tcx.generics_of(did).requires_monomorphization(tcx)));

    let body: &Body<'tcx> = tcx.optimized_mir(did);
    dump_body(tcx, did, body, &mut j);
    j
}

fn ty_json<'tcx>(_tcx: TyCtxt<'tcx>, t: Ty<'tcx>) -> J {
    J::str(&t.to_string())
}

fn place_json<'tcx>(tcx: TyCtxt<'tcx>, body: &Body<'tcx>, p: &Place<'tcx>) -> J {
    let mut j = J::obj();
    j.set("l", J::int(p.local.as_usize() as i128));
    if !p.projection.is_empty() {
        let mut projs = vec![];
        let mut pty = mir::PlaceTy::from_ty(body.local_decls[p.local].ty);
        for elem in p.projection.iter() {
            if matches!(elem, ProjectionElem::Deref) && pty.ty.is_raw_ptr() {
                j.set("rawderef", J::bool(true));
            }
            let e = match elem {
                ProjectionElem::Deref => J::str("*"),
                ProjectionElem::Field(f, fty) => {
                    let mut o = J::obj();
                    o.set("f", J::int(f.as_usize() as i128));
                    // field name where the base is an ADT
                    if let ty::Adt(adt, _) = pty.ty.kind() {
                        let vi = pty.variant_index.unwrap_or(rustc_abi::FIRST_VARIANT);
                        if adt.is_enum() || adt.is_struct() || adt.is_union() {
                            if let Some(v) = adt.variants().get(vi) {
                                if let Some(fd) = v.fields.get(f) {
                                    o.set("n", J::str(fd.name.as_str()));
                                }
                            }
                        }
                        o.set("adt", J::str(&tcx.def_path_str(adt.did())));
                    }
                    o.set("ty", ty_json(tcx, fty));
                    o
                }
                ProjectionElem::Index(l) => {
                    let mut o = J::obj();
                    o.set("i", J::int(l.as_usize() as i128));
                    o
                }
                ProjectionElem::ConstantIndex { offset, min_length, from_end } => {
                    let mut o = J::obj();
                    o.set("ci", J::int(offset as i128));
                    o.set("min", J::int(min_length as i128));
                    o.set("from_end", J::bool(from_end));
                    o
                }
                ProjectionElem::Subslice { from, to, from_end } => {
                    let mut o = J::obj();
                    o.set("sub", J::int(from as i128));
                    o.set("to", J::int(to as i128));
                    o.set("from_end", J::bool(from_end));
                    o
                }
                ProjectionElem::Downcast(name, vi) => {
                    let mut o = J::obj();
                    o.set(
                        "d",
                        J::str(&name.map(|s| s.to_string()).unwrap_or_else(|| format!("{}", vi.as_usize()))),
                    );
                    o.set("vi", J::int(vi.as_usize() as i128));
                    o
                }
                ProjectionElem::OpaqueCast(_) => J::str("opaque"),
                ProjectionElem::UnwrapUnsafeBinder(_) => J::str("unwrap_binder"),
            };
            projs.push(e);
            pty = pty.projection_ty(tcx, elem);
        }
        j.set("p", J::arr(projs));
    }
    j
}

fn scalar_int_value<'tcx>(t: Ty<'tcx>, si: ty::ScalarInt) -> Option<i128> {
    match t.kind() {
        ty::Int(_) => {
            let size = si.size();
            Some(si.to_int(size))
        }
        ty::Uint(_) | ty::Bool | ty::Char => {
            let size = si.size();
            let v = si.to_uint(size);
            if v > i128::MAX as u128 {
                None
            } else {
                Some(v as i128)
            }
        }
        _ => None,
    }
}

fn const_json<'tcx>(tcx: TyCtxt<'tcx>, env: TypingEnv<'tcx>, c: &Const<'tcx>) -> J {
    let mut j = J::obj();
    let t = c.ty();
    j.set("ty", ty_json(tcx, t));
    match t.kind() {
        ty::FnDef(did, args) => {
            j.set("fn", J::str(&tcx.def_path_str(*did)));
            let (full, _res) = resolve_callee(tcx, env, *did, args);
            j.set("fn_full", J::str(&full.0));
            j.set("fn_path", J::str(&full.1));
            return j;
        }
        _ => {}
    }
    // scalars
    let is_scalar_ty = matches!(t.kind(), ty::Int(_) | ty::Uint(_) | ty::Bool | ty::Char);
    if is_scalar_ty {
        if let Some(si) = c.try_eval_scalar_int(tcx, env) {
            if let Some(v) = scalar_int_value(t, si) {
                j.set("v", J::int(v));
            } else {
                j.set("vu", J::str(&format!("{}", si.to_uint(si.size()))));
            }
        } else {
            j.set("sym", J::str(&format!("{}", c)));
        }
        return j;
    }
    // &str / &[u8] literals
    if let ty::Ref(_, inner, _) = t.kind() {
        if inner.is_str() || matches!(inner.kind(), ty::Slice(e) if *e == tcx.types.u8) {
            if let Const::Val(v, _) = c {
                if let Some(bytes) = v.try_get_slice_bytes_for_diagnostics(tcx) {
                    j.set("s", J::str(&String::from_utf8_lossy(bytes)));
                    return j;
                }
            } else if let Ok(v) = c.eval(tcx, env, rustc_span::DUMMY_SP) {
                if let Some(bytes) = v.try_get_slice_bytes_for_diagnostics(tcx) {
                    j.set("s", J::str(&String::from_utf8_lossy(bytes)));
                    return j;
                }
            }
        }
    }
    // `&Enum` / `&int` constants (typically promoted `&Unit::Week` operands of comparisons): the pointee's value
    if let ty::Ref(_, inner, _) = t.kind() {
        let simple = match inner.kind() {
            ty::Int(_) | ty::Uint(_) | ty::Bool => true,
            ty::Adt(adt, _) => adt.is_enum() && adt.variants().iter().all(|v| v.fields.is_empty()),
            _ => false,
        };
        if simple {
            if let Ok(ConstValue::Scalar(rustc_middle::mir::interpret::Scalar::Ptr(ptr, _))) =
                c.eval(tcx, env, rustc_span::DUMMY_SP)
            {
                let (prov, offset) = ptr.prov_and_relative_offset();
                if let Some(rustc_middle::mir::interpret::GlobalAlloc::Memory(alloc)) =
                    tcx.try_get_global_alloc(prov.alloc_id())
                {
                    if let Ok(layout) = tcx.layout_of(env.as_query_input(*inner)) {
                        let size = layout.size.bytes() as usize;
                        let start = offset.bytes() as usize;
                        let a = alloc.inner();
                        if size > 0 && size <= 16 && start + size <= a.len() {
                            let bytes = a.inspect_with_uninit_and_ptr_outside_interpreter(start..start + size);
                            let mut v: u128 = 0;
                            for (i, b) in bytes.iter().enumerate() {
                                v |= (*b as u128) << (8 * i);
                            }
                            match inner.kind() {
                                ty::Adt(adt, _) => {
                                    for (vi, d) in adt.discriminants(tcx) {
                                        let mask = if size >= 16 { u128::MAX } else { (1u128 << (8 * size)) - 1 };
                                        if (d.val & mask) == v {
                                            j.set("pointee_variant", J::str(adt.variant(vi).name.as_str()));
                                        }
                                    }
                                }
                                ty::Int(_) => {
                                    let shift = 128 - 8 * size as u32;
                                    j.set("pointee_v", J::int(((v << shift) as i128) >> shift));
                                }
                                _ => {
                                    if v <= i128::MAX as u128 {
                                        j.set("pointee_v", J::int(v as i128));
                                    }
                                }
                            }
                        }
                    }
                }
            }
        }
    }
    let mut s = String::new();
    let _ = write!(s, "{}", c);
    if s.len() > 300 {
        s.truncate(300);
    }
    j.set("sym", J::str(&s));
    // a named constant item
    if let Const::Unevaluated(u, _) = c {
        j.set("def", J::str(&tcx.def_path_str(u.def)));
        if u.promoted.is_some() {
            j.set("promoted", J::bool(true));
        }
    }
    j
}

fn operand_json<'tcx>(
    tcx: TyCtxt<'tcx>,
    env: TypingEnv<'tcx>,
    body: &Body<'tcx>,
    o: &Operand<'tcx>,
) -> J {
    match o {
        Operand::Copy(p) => {
            let mut j = place_json(tcx, body, p);
            j.set("o", J::str("cp"));
            j
        }
        Operand::Move(p) => {
            let mut j = place_json(tcx, body, p);
            j.set("o", J::str("mv"));
            j
        }
        Operand::Constant(c) => {
            let mut j = const_json(tcx, env, &c.const_);
            j.set("o", J::str("c"));
            j
        }
        Operand::RuntimeChecks(rc) => {
            let mut j = J::obj();
            j.set("o", J::str("rtc"));
            j.set("what", J::str(&format!("{:?}", rc)));
            j
        }
    }
}

// Returns ((full string with generic args, path without args), resolved?)
fn resolve_callee<'tcx>(
    tcx: TyCtxt<'tcx>,
    env: TypingEnv<'tcx>,
    did: DefId,
    args: ty::GenericArgsRef<'tcx>,
) -> ((String, String), bool) {
    // A trait method is "resolved" only if we end up at a non-trait item.
    let is_trait_item = tcx.trait_of_assoc(did).is_some();
    match ty::Instance::try_resolve(tcx, env, did, args) {
        Ok(Some(inst)) => {
            let rdid = inst.def_id();
            let full = tcx.def_path_str_with_args(rdid, inst.args);
            let path = tcx.def_path_str(rdid);
            let still_trait = tcx.trait_of_assoc(rdid).is_some()
                && !tcx.defaultness(rdid).has_value();
            let kind = format!("{:?}", inst.def);
            let virt = kind.starts_with("Virtual");
            ((full, path), !(still_trait || virt))
        }
        _ => {
            let full = tcx.def_path_str_with_args(did, args);
            let path = tcx.def_path_str(did);
            ((full, path), !is_trait_item)
        }
    }
}

fn dump_body<'tcx>(tcx: TyCtxt<'tcx>, did: DefId, body: &Body<'tcx>, j: &mut J) {
    let env = TypingEnv::post_analysis(tcx, did);
    // locals
    let mut names: Vec<Option<String>> = vec![None; body.local_decls.len()];
    for vdi in &body.var_debug_info {
        if let mir::VarDebugInfoContents::Place(p) = &vdi.value {
            if p.projection.is_empty() {
                names[p.local.as_usize()] = Some(vdi.name.to_string());
            }
        }
    }
    let mut locals = vec![];
    for (i, d) in body.local_decls.iter_enumerated() {
        let mut o = J::obj();
        o.set("ty", ty_json(tcx, d.ty));
        if let Some(n) = &names[i.as_usize()] {
            o.set("n", J::str(n));
        }
        locals.push(o);
    }
    j.set("argc", J::int(body.arg_count as i128));
    j.set("locals", J::arr(locals));
    // debug info that refers to captured upvars / projections
    let mut dbg = vec![];
    for vdi in &body.var_debug_info {
        if let mir::VarDebugInfoContents::Place(p) = &vdi.value {
            if !p.projection.is_empty() {
                let mut o = J::obj();
                o.set("n", J::str(vdi.name.as_str()));
                o.set("place", place_json(tcx, body, p));
                dbg.push(o);
            }
        }
    }
    if !dbg.is_empty() {
        j.set("dbg", J::arr(dbg));
    }

    let mut blocks = vec![];
    for (_bb, data) in body.basic_blocks.iter_enumerated() {
        let mut b = J::obj();
        if data.is_cleanup {
            b.set("cleanup", J::bool(true));
        }
        let mut stmts = vec![];
        for st in &data.statements {
            let line = loc(tcx, st.source_info.span.source_callsite()).1;
            match &st.kind {
                StatementKind::Assign(bx) => {
                    let (lhs, rv) = &**bx;
                    let mut s = J::obj();
                    s.set("s", J::str("="));
                    s.set("lhs", place_json(tcx, body, lhs));
                    s.set("rv", rvalue_json(tcx, env, body, rv));
                    s.set("ln", J::int(line as i128));
                    if st.source_info.span.from_expansion() {
                        s.set("exp", J::bool(true));
                    }
                    stmts.push(s);
                }
                StatementKind::SetDiscriminant { place, variant_index } => {
                    let mut s = J::obj();
                    s.set("s", J::str("setdisc"));
                    s.set("lhs", place_json(tcx, body, place));
                    s.set("vi", J::int(variant_index.as_usize() as i128));
                    s.set("ln", J::int(line as i128));
                    stmts.push(s);
                }
                StatementKind::StorageDead(l) => {
                    let mut s = J::obj();
                    s.set("s", J::str("dead"));
                    s.set("l", J::int(l.as_usize() as i128));
                    stmts.push(s);
                }
                StatementKind::StorageLive(l) => {
                    let mut s = J::obj();
                    s.set("s", J::str("live"));
                    s.set("l", J::int(l.as_usize() as i128));
                    stmts.push(s);
                }
                StatementKind::Intrinsic(i) => {
                    let mut s = J::obj();
                    s.set("s", J::str("intrinsic"));
                    s.set("what", J::str(&format!("{:?}", i)));
                    stmts.push(s);
                }
                _ => {}
            }
        }
        b.set("st", J::arr(stmts));
        let term = data.terminator();
        let mut t = J::obj();
        let tsp = term.source_info.span;
        match &term.kind {
            TerminatorKind::Goto { target } => {
                t.set("t", J::str("goto"));
                t.set("to", J::int(target.as_usize() as i128));
            }
            TerminatorKind::SwitchInt { discr, targets } => {
                t.set("t", J::str("switch"));
                t.set("op", operand_json(tcx, env, body, discr));
                t.set("op_ty", ty_json(tcx, discr.ty(&body.local_decls, tcx)));
                let mut vals = vec![];
                let mut tgts = vec![];
                let dty = discr.ty(&body.local_decls, tcx);
                for (v, bb) in targets.iter() {
                    // present signed discriminants as signed values
                    let sv: i128 = match dty.kind() {
                        ty::Int(it) => {
                            let bits = it.bit_width().unwrap_or(64) as u32;
                            if bits >= 128 {
                                v as i128
                            } else {
                                let shift = 128 - bits;
                                ((v << shift) as i128) >> shift
                            }
                        }
                        _ => v as i128,
                    };
                    vals.push(J::int(sv));
                    tgts.push(J::int(bb.as_usize() as i128));
                }
                t.set("vals", J::arr(vals));
                t.set("targets", J::arr(tgts));
                t.set("otherwise", J::int(targets.otherwise().as_usize() as i128));
                t.set("span", span_json(tcx, tsp));
            }
            TerminatorKind::Return => {
                t.set("t", J::str("return"));
            }
            TerminatorKind::Unreachable => {
                t.set("t", J::str("unreachable"));
            }
            TerminatorKind::UnwindResume => {
                t.set("t", J::str("resume"));
            }
            TerminatorKind::UnwindTerminate(_) => {
                t.set("t", J::str("terminate"));
            }
            TerminatorKind::Drop { place, target, unwind, .. } => {
                t.set("t", J::str("drop"));
                t.set("place", place_json(tcx, body, place));
                t.set("place_ty", ty_json(tcx, place.ty(&body.local_decls, tcx).ty));
                {
                    let im = implicit_drop_edges(tcx, env, place.ty(&body.local_decls, tcx).ty);
                    if !im.is_empty() {
                        t.set("implicit", J::arr(im.iter().map(|s| J::str(s)).collect()));
                    }
                }
                t.set("to", J::int(target.as_usize() as i128));
                if let mir::UnwindAction::Cleanup(bb) = unwind {
                    t.set("unwind", J::int(bb.as_usize() as i128));
                }
                t.set("span", span_json(tcx, tsp));
            }
            TerminatorKind::Call { func, args, .. }
            | TerminatorKind::TailCall { func, args, .. } => {
                let (destination, target, unwind, call_source) = match &term.kind {
                    TerminatorKind::Call { destination, target, unwind, call_source, .. } => {
                        (Some(destination), *target, Some(unwind), Some(call_source))
                    }
                    _ => (None, None, None, None),
                };
                let _ = (destination, target, unwind, call_source);
                t.set("t", J::str("call"));
                let fty = func.ty(&body.local_decls, tcx);
                match fty.kind() {
                    ty::FnDef(cdid, cargs) => {
                        let ((full, path), resolved) = resolve_callee(tcx, env, *cdid, cargs);
                        t.set("fn", J::str(&full));
                        t.set("path", J::str(&path));
                        t.set("resolved", J::bool(resolved));
                        let orig = tcx.def_path_str(*cdid);
                        if orig != path {
                            t.set("orig", J::str(&orig));
                        }
                        t.set("orig_full", J::str(&tcx.def_path_str_with_args(*cdid, cargs)));
                        if let Some(tr) = tcx.trait_of_assoc(*cdid) {
                            t.set("trait", J::str(&tcx.def_path_str(tr)));
                            // self type of the trait call
                            if let Some(st) = cargs.types().next() {
                                t.set("self_ty", J::str(&st.to_string()));
                            }
                        }
                        if cdid.is_local() {
                            t.set("local", J::bool(true));
                        }
                        // implicit edges through the callee's trait bounds
                        // (only interesting when the final callee is not a
                        // local body that we analyse on its own)
                        {
                            let (rdid, rargs) = match ty::Instance::try_resolve(tcx, env, *cdid, cargs) {
                                Ok(Some(i)) => (i.def_id(), i.args),
                                _ => (*cdid, *cargs),
                            };
                            t.set("rkrate", J::str(tcx.crate_name(rdid.krate).as_str()));
                            if !rdid.is_local() && cargs.types().any(|t| ty_mentions_local(t)) {
                                let im = implicit_call_edges(tcx, env, rdid, rargs);
                                if !im.is_empty() {
                                    t.set("implicit", J::arr(im.iter().map(|s| J::str(s)).collect()));
                                }
                            }
                        }
                        t.set("krate", J::str(tcx.crate_name(cdid.krate).as_str()));
                        if matches!(tcx.def_kind(*cdid), DefKind::Fn | DefKind::AssocFn)
                            && tcx.fn_sig(*cdid).skip_binder().safety().is_unsafe()
                        {
                            t.set("callee_unsafe", J::bool(true));
                        }
                        // Send/Sync facts for the pointee of Arc operations
                        if path.starts_with("std::sync::Arc::") || path.starts_with("alloc::sync::Arc::") {
                            if let Some(x) = cargs.types().next() {
                                let send = tcx.get_diagnostic_item(rustc_span::sym::Send);
                                let sync = tcx.lang_items().sync_trait();
                                let holds = |tr: Option<DefId>| -> bool {
                                    match tr {
                                        Some(tr) => {
                                            let trf = ty::TraitRef::new(tcx, tr, [x]);
                                            let trf = tcx.erase_and_anonymize_regions(trf);
                                            !trf.has_param()
                                                && tcx.codegen_select_candidate(env.as_query_input(trf)).is_ok()
                                        }
                                        None => false,
                                    }
                                };
                                t.set("pointee", J::str(&x.to_string()));
                                t.set("pointee_send", J::bool(holds(send)));
                                t.set("pointee_sync", J::bool(holds(sync)));
                            }
                        }
                    }
                    _ => {
                        t.set("indirect", operand_json(tcx, env, body, func));
                        t.set("fn_ty", ty_json(tcx, fty));
                        t.set("resolved", J::bool(false));
                    }
                }
                t.set(
                    "args",
                    J::arr(args.iter().map(|a| operand_json(tcx, env, body, &a.node)).collect()),
                );
                t.set(
                    "arg_tys",
                    J::arr(
                        args.iter()
                            .map(|a| ty_json(tcx, a.node.ty(&body.local_decls, tcx)))
                            .collect(),
                    ),
                );
                if let Some(d) = destination {
                    t.set("dest", place_json(tcx, body, d));
                    t.set("dest_ty", ty_json(tcx, d.ty(&body.local_decls, tcx).ty));
                }
                if let Some(tg) = target {
                    t.set("to", J::int(tg.as_usize() as i128));
                }
                if let Some(mir::UnwindAction::Cleanup(bb)) = unwind {
                    t.set("unwind", J::int(bb.as_usize() as i128));
                }
                if let Some(cs) = call_source {
                    t.set("src", J::str(&format!("{:?}", cs)));
                }
                t.set("span", span_json(tcx, tsp));
            }
            TerminatorKind::Assert { cond, expected, msg, target, unwind } => {
                t.set("t", J::str("assert"));
                t.set("cond", operand_json(tcx, env, body, cond));
                t.set("expected", J::bool(*expected));
                let (kind, ops): (String, Vec<&Operand<'tcx>>) = match &**msg {
                    mir::AssertKind::BoundsCheck { len, index } => {
                        ("BoundsCheck".to_string(), vec![len, index])
                    }
                    mir::AssertKind::Overflow(op, a, b) => {
                        (format!("Overflow({:?})", op), vec![a, b])
                    }
                    mir::AssertKind::OverflowNeg(a) => ("OverflowNeg".to_string(), vec![a]),
                    mir::AssertKind::DivisionByZero(a) => ("DivisionByZero".to_string(), vec![a]),
                    mir::AssertKind::RemainderByZero(a) => {
                        ("RemainderByZero".to_string(), vec![a])
                    }
                    other => (format!("{:?}", other), vec![]),
                };
                t.set("kind", J::str(&kind));
                t.set(
                    "ops",
                    J::arr(ops.iter().map(|o| operand_json(tcx, env, body, o)).collect()),
                );
                t.set(
                    "op_tys",
                    J::arr(
                        ops.iter().map(|o| ty_json(tcx, o.ty(&body.local_decls, tcx))).collect(),
                    ),
                );
                t.set("to", J::int(target.as_usize() as i128));
                if let mir::UnwindAction::Cleanup(bb) = unwind {
                    t.set("unwind", J::int(bb.as_usize() as i128));
                }
                t.set("span", span_json(tcx, tsp));
            }
            TerminatorKind::FalseEdge { real_target, .. } => {
                t.set("t", J::str("goto"));
                t.set("to", J::int(real_target.as_usize() as i128));
            }
            TerminatorKind::FalseUnwind { real_target, .. } => {
                t.set("t", J::str("goto"));
                t.set("to", J::int(real_target.as_usize() as i128));
            }
            other => {
                t.set("t", J::str("other"));
                t.set("what", J::str(&format!("{:?}", other)));
            }
        }
        b.set("term", t);
        blocks.push(b);
    }
    j.set("blocks", J::arr(blocks));
}

fn rvalue_json<'tcx>(
    tcx: TyCtxt<'tcx>,
    env: TypingEnv<'tcx>,
    body: &Body<'tcx>,
    rv: &Rvalue<'tcx>,
) -> J {
    let mut j = J::obj();
    match rv {
        Rvalue::Use(o, _) => {
            j.set("k", J::str("use"));
            j.set("a", operand_json(tcx, env, body, o));
        }
        Rvalue::Repeat(o, n) => {
            j.set("k", J::str("repeat"));
            j.set("a", operand_json(tcx, env, body, o));
            j.set("n", J::str(&n.to_string()));
        }
        Rvalue::Ref(_, bk, p) => {
            j.set("k", J::str("ref"));
            j.set("mut", J::bool(matches!(bk, mir::BorrowKind::Mut { .. })));
            j.set("place", place_json(tcx, body, p));
        }
        Rvalue::RawPtr(k, p) => {
            j.set("k", J::str("rawptr"));
            j.set("mut", J::bool(matches!(k, mir::RawPtrKind::Mut)));
            j.set("place", place_json(tcx, body, p));
        }
        Rvalue::ThreadLocalRef(d) => {
            j.set("k", J::str("tls"));
            j.set("def", J::str(&tcx.def_path_str(*d)));
        }
        Rvalue::Cast(kind, o, t) => {
            j.set("k", J::str("cast"));
            j.set("kind", J::str(&format!("{:?}", kind)));
            j.set("a", operand_json(tcx, env, body, o));
            j.set("from", ty_json(tcx, o.ty(&body.local_decls, tcx)));
            j.set("ty", ty_json(tcx, *t));
        }
        Rvalue::BinaryOp(op, bx) => {
            let (a, b) = &**bx;
            j.set("k", J::str("bin"));
            j.set("op", J::str(&format!("{:?}", op)));
            j.set("a", operand_json(tcx, env, body, a));
            j.set("b", operand_json(tcx, env, body, b));
            j.set("ty", ty_json(tcx, a.ty(&body.local_decls, tcx)));
            let _ = BinOp::Add;
        }
        Rvalue::UnaryOp(op, a) => {
            j.set("k", J::str("un"));
            j.set("op", J::str(&format!("{:?}", op)));
            j.set("a", operand_json(tcx, env, body, a));
            j.set("ty", ty_json(tcx, a.ty(&body.local_decls, tcx)));
        }
        Rvalue::Discriminant(p) => {
            j.set("k", J::str("disc"));
            j.set("place", place_json(tcx, body, p));
            j.set("ty", ty_json(tcx, p.ty(&body.local_decls, tcx).ty));
        }
        Rvalue::Aggregate(kind, ops) => {
            j.set("k", J::str("agg"));
            match &**kind {
                AggregateKind::Array(t) => {
                    j.set("agg", J::str("array"));
                    j.set("ty", ty_json(tcx, *t));
                }
                AggregateKind::Tuple => {
                    j.set("agg", J::str("tuple"));
                }
                AggregateKind::Adt(adid, vi, args, _, active) => {
                    j.set("agg", J::str("adt"));
                    let adt = tcx.adt_def(*adid);
                    j.set("adt", J::str(&tcx.def_path_str(*adid)));
                    j.set("adt_full", J::str(&tcx.def_path_str_with_args(*adid, args)));
                    let v = adt.variant(*vi);
                    j.set("variant", J::str(v.name.as_str()));
                    j.set("vi", J::int(vi.as_usize() as i128));
                    let names: Vec<J> = if let Some(a) = active {
                        vec![J::str(v.fields[*a].name.as_str())]
                    } else {
                        v.fields.iter().map(|f| J::str(f.name.as_str())).collect()
                    };
                    j.set("fields", J::arr(names));
                }
                AggregateKind::Closure(cdid, _) => {
                    j.set("agg", J::str("closure"));
                    j.set("closure", J::str(&tcx.def_path_str(*cdid)));
                }
                AggregateKind::RawPtr(t, _) => {
                    j.set("agg", J::str("rawptr"));
                    j.set("ty", ty_json(tcx, *t));
                }
                other => {
                    j.set("agg", J::str(&format!("{:?}", other)));
                }
            }
            j.set(
                "ops",
                J::arr(ops.iter().map(|o| operand_json(tcx, env, body, o)).collect()),
            );
        }
        Rvalue::CopyForDeref(p) => {
            j.set("k", J::str("use"));
            let mut o = place_json(tcx, body, p);
            o.set("o", J::str("cp"));
            j.set("a", o);
        }
        Rvalue::WrapUnsafeBinder(o, _) => {
            j.set("k", J::str("use"));
            j.set("a", operand_json(tcx, env, body, o));
        }
    }
    j
}

fn dump_adt<'tcx>(tcx: TyCtxt<'tcx>, did: DefId) -> J {
    let mut j = J::obj();
    j.set("k", J::str("adt"));
    j.set("path", J::str(&tcx.def_path_str(did)));
    j.set("span", span_json(tcx, tcx.def_span(did)));
    let adt = tcx.adt_def(did);
    let repr = adt.repr();
    if let Some(a) = repr.align {
        j.set("repr_align", J::int(a.bytes() as i128));
    }
    if let Some(p) = repr.pack {
        j.set("repr_pack", J::int(p.bytes() as i128));
    }
    j.set("repr_c", J::bool(repr.c()));
    j.set("repr_transparent", J::bool(repr.transparent()));
    j.set("vis", J::str(&vis_str(tcx, did)));
    let mut variants = vec![];
    for (vi, v) in adt.variants().iter_enumerated() {
        let mut vj = J::obj();
        vj.set("name", J::str(v.name.as_str()));
        if adt.is_enum() {
            let d = adt.discriminant_for_variant(tcx, vi);
            vj.set("discr", J::str(&format!("{}", d.val)));
        }
        let mut fields = vec![];
        for f in v.fields.iter() {
            let mut fj = J::obj();
            fj.set("name", J::str(f.name.as_str()));
            let fty = tcx.type_of(f.did).instantiate_identity().skip_norm_wip();
            fj.set("ty", J::str(&fty.to_string()));
            fj.set("vis", J::str(&vis_str(tcx, f.did)));
            fields.push(fj);
        }
        vj.set("fields", J::arr(fields));
        variants.push(vj);
    }
    j.set("variants", J::arr(variants));
    // layout for non-generic ADTs
    if !tcx.generics_of(did).requires_monomorphization(tcx) {
        let t = tcx.type_of(did).instantiate_identity().skip_norm_wip();
        let env = TypingEnv::fully_monomorphized();
        if let Ok(l) = tcx.layout_of(env.as_query_input(t)) {
            j.set("size", J::int(l.size.bytes() as i128));
            j.set("align", J::int(l.align.abi.bytes() as i128));
        }
        // Send/Sync facts
        j.set("send_sync", J::str(&send_sync(tcx, t)));
    }
    j
}

fn send_sync<'tcx>(tcx: TyCtxt<'tcx>, _t: Ty<'tcx>) -> String {
    let _ = tcx;
    // filled in by a trait query in a later revision of the driver
    String::new()
}

fn dump_const<'tcx>(tcx: TyCtxt<'tcx>, id: LocalDefId) -> Option<J> {
    let did = id.to_def_id();
    if tcx.generics_of(did).requires_monomorphization(tcx) {
        // e.g. associated consts of generic impls: report as generic
        let mut j = J::obj();
        j.set("k", J::str("const"));
        j.set("path", J::str(&tcx.def_path_str(did)));
        j.set("generic", J::bool(true));
        j.set("span", span_json(tcx, tcx.def_span(did)));
        return Some(j);
    }
    let mut j = J::obj();
    j.set("k", J::str("const"));
    j.set("path", J::str(&tcx.def_path_str(did)));
    j.set("span", span_json(tcx, tcx.def_span(did)));
    let t = tcx.type_of(did).instantiate_identity().skip_norm_wip();
    j.set("ty", J::str(&t.to_string()));
    let is_static = matches!(tcx.def_kind(did), DefKind::Static { .. });
    j.set("static", J::bool(is_static));
    let env = TypingEnv::fully_monomorphized();
    let val: Option<ConstValue> = if is_static {
        None
    } else {
        tcx.const_eval_poly(did).ok()
    };
    if let Some(v) = val {
        let c = Const::Val(v, t);
        // scalar
        if let Some(si) = c.try_to_scalar_int() {
            if let Some(x) = scalar_int_value(t, si) {
                j.set("v", J::int(x));
            }
        }
        // pretty string (bounded)
        let mut s = format!("{}", c);
        if s.len() > 4000 {
            s.truncate(4000);
        }
        j.set("pretty", J::str(&s));
        let _ = env;
    }
    Some(j)
}

// ---------------------------------------------------------------------------
// Implicit edges: trait methods an external generic callee may invoke through
// its (instantiated) trait bounds, and destructors run by a Drop terminator.

fn ty_mentions_local<'tcx>(t: Ty<'tcx>) -> bool {
    for arg in t.walk() {
        if let Some(t) = arg.as_type() {
            match t.kind() {
                ty::Adt(d, _) if d.did().is_local() => return true,
                ty::Closure(d, _) | ty::FnDef(d, _) if d.is_local() => return true,
                _ => {}
            }
        }
    }
    false
}

struct Implicit<'tcx> {
    tcx: TyCtxt<'tcx>,
    env: TypingEnv<'tcx>,
    seen: std::collections::HashSet<String>,
    out: Vec<String>,
    budget: usize,
}

impl<'tcx> Implicit<'tcx> {
    fn bounds_of(&mut self, did: DefId, args: ty::GenericArgsRef<'tcx>, depth: usize) {
        if depth > 5 || self.budget == 0 {
            return;
        }
        let tcx = self.tcx;
        let preds = tcx.predicates_of(did).instantiate(tcx, args);
        for clause in preds.predicates {
            let clause = clause.skip_norm_wip();
            if let Some(tp) = clause.as_trait_clause() {
                if let Some(tp) = tp.no_bound_vars() {
                    self.trait_ref(tp.trait_ref, depth);
                }
            }
        }
    }

    fn trait_ref(&mut self, tr: ty::TraitRef<'tcx>, depth: usize) {
        let tcx = self.tcx;
        let tr = tcx.erase_and_anonymize_regions(tr);
        let tr = match tcx.try_normalize_erasing_regions(self.env, ty::Unnormalized::new_wip(tr)) {
            Ok(t) => t,
            Err(_) => tr,
        };
        if !tr.args.types().any(|t| ty_mentions_local(t)) {
            return;
        }
        let key = tr.to_string();
        if !self.seen.insert(key) {
            return;
        }
        if self.budget == 0 {
            return;
        }
        self.budget -= 1;
        let self_ty = tr.self_ty();
        let mut inner = self_ty;
        while let ty::Ref(_, t, _) = inner.kind() {
            inner = *t;
        }
        match inner.kind() {
            ty::Closure(d, _) if d.is_local() => self.out.push(tcx.def_path_str(*d)),
            ty::FnDef(d, a) if tcx.is_lang_item(tr.def_id, rustc_hir::LangItem::FnOnce)
                || tcx.is_lang_item(tr.def_id, rustc_hir::LangItem::FnMut)
                || tcx.is_lang_item(tr.def_id, rustc_hir::LangItem::Fn) =>
            {
                let ((_, path), _) = resolve_callee(tcx, self.env, *d, a);
                self.out.push(path);
            }
            _ => {}
        }
        if tr.has_param() || tr.has_escaping_bound_vars() {
            // too generic to select an impl; the Python side over-approximates
            // by all local impls of the trait for calls it cannot resolve.
            return;
        }
        if let Ok(src) = tcx.codegen_select_candidate(self.env.as_query_input(tr)) {
            if let rustc_middle::traits::ImplSource::UserDefined(d) = src {
                if d.impl_def_id.is_local() {
                    for item in tcx.associated_items(d.impl_def_id).in_definition_order() {
                        if item.is_fn() {
                            self.out.push(tcx.def_path_str(item.def_id));
                        }
                    }
                } else {
                    self.bounds_of(d.impl_def_id, d.args, depth + 1);
                }
            }
        }
        // super traits and bounds on associated types
        if depth < 5 {
            for c in tcx.explicit_super_predicates_of(tr.def_id).iter_instantiated_copied(tcx, tr.args) {
                let (c, _) = c.skip_norm_wip();
                if let Some(tp) = c.as_trait_clause() {
                    if let Some(tp) = tp.no_bound_vars() {
                        self.trait_ref(tp.trait_ref, depth + 1);
                    }
                }
            }
            for item in tcx.associated_items(tr.def_id).in_definition_order() {
                if item.is_type() {
                    for c in
                        tcx.explicit_item_bounds(item.def_id).iter_instantiated_copied(tcx, tr.args)
                    {
                        let (c, _) = c.skip_norm_wip();
                        if let Some(tp) = c.as_trait_clause() {
                            if let Some(tp) = tp.no_bound_vars() {
                                self.trait_ref(tp.trait_ref, depth + 1);
                            }
                        }
                    }
                }
            }
        }
    }

    fn drops(&mut self, t: Ty<'tcx>, depth: usize) {
        if depth > 8 {
            return;
        }
        let tcx = self.tcx;
        if !self.seen.insert(format!("drop {}", t)) {
            return;
        }
        match t.kind() {
            ty::Adt(def, args) => {
                if let Some(d) = def.destructor(tcx) {
                    if d.did.is_local() {
                        self.out.push(tcx.def_path_str(d.did));
                    }
                }
                if def.is_manually_drop() {
                    return;
                }
                for a in args.types() {
                    self.drops(a, depth + 1);
                }
                if def.did().is_local() {
                    for v in def.variants() {
                        for f in v.fields.iter() {
                            let fty = f.ty(tcx, args);
                            self.drops(fty, depth + 1);
                        }
                    }
                }
            }
            ty::Tuple(ts) => {
                for x in ts.iter() {
                    self.drops(x, depth + 1);
                }
            }
            ty::Array(x, _) | ty::Slice(x) => self.drops(*x, depth + 1),
            ty::Closure(_, cargs) => {
                for x in cargs.as_closure().upvar_tys() {
                    self.drops(x, depth + 1);
                }
            }
            _ => {}
        }
    }
}

fn implicit_call_edges<'tcx>(
    tcx: TyCtxt<'tcx>,
    env: TypingEnv<'tcx>,
    did: DefId,
    args: ty::GenericArgsRef<'tcx>,
) -> Vec<String> {
    let mut im = Implicit { tcx, env, seen: Default::default(), out: vec![], budget: 200 };
    im.bounds_of(did, args, 0);
    im.out.sort();
    im.out.dedup();
    im.out
}

fn implicit_drop_edges<'tcx>(tcx: TyCtxt<'tcx>, env: TypingEnv<'tcx>, t: Ty<'tcx>) -> Vec<String> {
    let mut im = Implicit { tcx, env, seen: Default::default(), out: vec![], budget: 200 };
    im.drops(t, 0);
    im.out.sort();
    im.out.dedup();
    im.out
}
