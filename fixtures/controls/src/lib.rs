//! Positive (and negative) controls for rules whose expected count on the
//! repository is zero. The facts of this crate are generated once with
//! `tools/gen_controls.sh` and committed as `fixtures/controls.jsonl`; every
//! run of the rules re-runs the matchers on them and fails if a matcher no
//! longer reports the bad examples (or starts reporting the good ones).

/// FLOAT-SIGNUM: must be reported (signum of an exact zero is 1.0).
pub fn bad_signum(rounded: f64, exact: f64, sign: f64) -> bool {
    (rounded - exact).signum() == sign
}

/// FLOAT-SIGNUM: must be accepted (the argument is compared with zero too).
pub fn good_signum(rounded: f64, exact: f64, sign: f64) -> bool {
    let diff = rounded - exact;
    diff != 0.0 && diff.signum() == sign
}

/// FLOAT-TIE: must be reported (negative ties are not detected).
pub fn bad_tie(q: f64) -> f64 {
    if q % 1.0 == 0.5 { q.ceil() } else { q.round() }
}

/// FLOAT-TIE: must be accepted.
pub fn good_tie(q: f64) -> f64 {
    if q.abs() % 1.0 == 0.5 { q.ceil() } else { q.round() }
}

/// FLOAT-EXACT: must be reported (128-bit count converted to f64 and used to
/// pick an integer).
pub fn bad_exact(numer: i128, denom: i128, truncated: i64) -> i64 {
    let exact = (truncated as f64) + (numer as f64) / (denom as f64);
    exact.ceil() as i64
}

/// FLOAT-EXACT: must be accepted (only narrow integers become floats).
pub fn good_exact(sign: i8, small: i32) -> f64 {
    (sign as f64) * (small as f64)
}

/// A miniature week date for the YEAR-FACT controls.
#[derive(Clone, Copy)]
pub struct WeekDate {
    y: i16,
    w: i8,
}

impl WeekDate {
    pub fn new(y: i16, w: i8) -> Option<WeekDate> {
        if w < 1 || w > 53 { None } else { Some(WeekDate { y, w }) }
    }
    pub fn year(self) -> i16 {
        self.y
    }
    pub fn week(self) -> i8 {
        self.w
    }
    pub fn weeks_in_year(self) -> i8 {
        if self.y % 5 == 0 { 53 } else { 52 }
    }
}

/// YEAR-FACT: must be reported (the week count of this year is paired with
/// the previous year).
pub fn bad_year_fact(d: WeekDate) -> Option<WeekDate> {
    WeekDate::new(d.year() - 1, d.weeks_in_year())
}

/// YEAR-FACT: must be accepted (the fact is read from a date of the year it
/// is paired with).
pub fn good_year_fact(d: WeekDate) -> Option<WeekDate> {
    let p = WeekDate::new(d.year() - 1, 1)?;
    WeekDate::new(p.year(), p.weeks_in_year())
}

// ---- CANON-NAME controls -------------------------------------------------------------------------------------------
pub struct TimeZone {
    pub name: String,
}

impl TimeZone {
    pub fn tzif(name: &str, data: &[u8]) -> Option<TimeZone> {
        if data.is_empty() {
            return None;
        }
        Some(TimeZone { name: name.to_string() })
    }
}

pub struct Entry {
    pub name: String,
}

pub fn bad_canon_name(query: &str, e: &Entry, data: &[u8]) -> Option<TimeZone> {
    if !e.name.eq_ignore_ascii_case(query) {
        return None;
    }
    let name = query;
    TimeZone::tzif(name, data)
}

pub fn good_canon_name(query: &str, e: &Entry, data: &[u8]) -> Option<TimeZone> {
    if !e.name.eq_ignore_ascii_case(query) {
        return None;
    }
    TimeZone::tzif(&e.name, data)
}

// ---- DUMMY-GUARD controls ------------------------------------------------------------------------------------------
pub struct Table {
    pub ts: Vec<i64>,
    pub ty: Vec<u8>,
}

impl Table {
    fn is_noop(&self, i: usize) -> bool {
        i > 0 && self.ty[i] == self.ty[i - 1]
    }

    fn local_time_type(&self, i: usize) -> u8 {
        self.ty[i]
    }

    pub fn bad_dummy_guard(&self, start: usize) -> Option<u8> {
        let mut index = start.checked_sub(1)?;
        if index == 0 {
            return None;
        }
        while index > 0 && self.is_noop(index) {
            index -= 1;
        }
        Some(self.local_time_type(index))
    }

    pub fn good_dummy_guard(&self, start: usize) -> Option<u8> {
        let mut index = start.checked_sub(1)?;
        if index == 0 {
            return None;
        }
        while index > 0 && self.is_noop(index) {
            index -= 1;
        }
        if index == 0 {
            return None;
        }
        Some(self.local_time_type(index))
    }
}

// a private helper that is handed the entry's name is fine; the same helper handed the query is not
fn build_zone(name: &str, data: &[u8]) -> Option<TimeZone> {
    TimeZone::tzif(name, data)
}

pub fn good_canon_helper(query: &str, e: &Entry, data: &[u8]) -> Option<TimeZone> {
    if !e.name.eq_ignore_ascii_case(query) {
        return None;
    }
    build_zone(&e.name, data)
}

fn build_zone_from_query(name: &str, data: &[u8]) -> Option<TimeZone> {
    TimeZone::tzif(name, data)
}

pub fn bad_canon_helper(query: &str, e: &Entry, data: &[u8]) -> Option<TimeZone> {
    if !e.name.eq_ignore_ascii_case(query) {
        return None;
    }
    build_zone_from_query(query, data)
}

// ---- DAY-SUCC controls ---------------------------------------------------------------------------------------------
#[derive(Clone, Copy)]
pub struct Day(i8);

impl Day {
    pub fn new_unchecked(d: i8) -> Day {
        Day(d)
    }
}

#[derive(Clone, Copy)]
pub struct CivilDate {
    year: i16,
    month: i8,
    day: i8,
}

impl CivilDate {
    pub fn day(self) -> i8 {
        self.day
    }

    pub fn days_in_month(self) -> i8 {
        if self.month == 2 {
            if self.year % 4 == 0 { 29 } else { 28 }
        } else {
            30 + ((self.month + (self.month >> 3)) & 1)
        }
    }

    pub fn bad_day_succ(self) -> Option<Day> {
        if self.day() > 28 && self.day() == self.days_in_month() {
            return None;
        }
        Some(Day::new_unchecked(self.day() + 1))
    }

    pub fn good_day_succ(self) -> Option<Day> {
        if self.day() >= 28 && self.day() == self.days_in_month() {
            return None;
        }
        Some(Day::new_unchecked(self.day() + 1))
    }
}
