//! Positive (and negative) controls for rules whose expected count on the
//! repository is zero. The facts of this crate are generated once with
//! `tools/gen_controls.sh` and committed as `fixtures/controls.jsonl`; every
//! run of the rules re-runs the matchers on them and fails if a matcher no
//! longer reports the bad examples (or starts reporting the good ones).

/// FLOAT-SIGNUM: must be reported (signum of an exact zero is 1.0).
pub fn bad_signum(rounded: f64, exact: f64, sign: f64) -> bool {
    (rounded - exact).signum() == sign
}

/// FLOAT-SIGNUM: must be accepted (the argument is compared with zero too).
pub fn good_signum(rounded: f64, exact: f64, sign: f64) -> bool {
    let diff = rounded - exact;
    diff != 0.0 && diff.signum() == sign
}

/// FLOAT-TIE: must be reported (negative ties are not detected).
pub fn bad_tie(q: f64) -> f64 {
    if q % 1.0 == 0.5 { q.ceil() } else { q.round() }
}

/// FLOAT-TIE: must be accepted.
pub fn good_tie(q: f64) -> f64 {
    if q.abs() % 1.0 == 0.5 { q.ceil() } else { q.round() }
}

/// FLOAT-EXACT: must be reported (128-bit count converted to f64 and used to
/// pick an integer).
pub fn bad_exact(numer: i128, denom: i128, truncated: i64) -> i64 {
    let exact = (truncated as f64) + (numer as f64) / (denom as f64);
    exact.ceil() as i64
}

/// FLOAT-EXACT: must be accepted (only narrow integers become floats).
pub fn good_exact(sign: i8, small: i32) -> f64 {
    (sign as f64) * (small as f64)
}
