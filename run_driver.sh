#!/bin/bash
# usage: run_driver.sh <out-dir> [extra RUSTFLAGS] -- <cargo check args...>
set -e
OUT="$1"; shift
EXTRA=""
while [ "$1" != "--" ] && [ $# -gt 0 ]; do EXTRA="$EXTRA $1"; shift; done
shift || true
mkdir -p "$OUT"
rm -f "$OUT"/*.jsonl
T=$(mktemp -d /tmp/jv-target.XXXXXX)
trap 'rm -rf "$T"' EXIT
cd /repo
JV_OUT="$OUT" \
LD_LIBRARY_PATH="$(rustc +nightly --print sysroot)/lib" \
RUSTFLAGS="-Zmir-opt-level=0 -Awarnings $EXTRA" \
RUSTC_WORKSPACE_WRAPPER=/verif/driver/target/release/jv-driver \
CARGO_NET_OFFLINE=true \
CARGO_TARGET_DIR="$T" cargo +nightly check --offline "$@"
